"""C05 — the result depends only on year, requested forms and input values."""
import os
import random
import re

from . import common, solverfam as sf, solvercorr as sc, scenarios
from .common import Check


def variants(rng, case, H):
    """yield (label, kwargs for exec_case) — transformations that must not change the result"""
    insts, lines, inputs, ids = sc.universe(case)
    names = lines + inputs
    perm = list(names)
    rng.shuffle(perm)
    yield 'attempt-order', {'rank_override': {n: (i // 2,) for i, n in enumerate(perm)}}
    perm2 = list(names)
    rng.shuffle(perm2)
    yield 'attempt-order-2', {'rank_override': {n: (-i,) for i, n in enumerate(perm2)}}
    req = list(case['request'])
    rng.shuffle(req)
    if rng.random() < 0.5 and req:
        req = req + [rng.choice(req)]
    yield 'request-order', {'request': req}
    items = list(case['inputs'].items())
    rng.shuffle(items)
    yield 'input-file-order', {'inputs': dict(items)}
    if case['prompt'] is not None:
        # move some file inputs to the prompt, and some prompt answers into the file
        file_in = dict(case['inputs'])
        pr = dict(case['prompt'])
        for k in list(file_in):
            if rng.random() < 0.4 and file_in[k] != 'zz':
                pr[k] = file_in.pop(k)
        for k in list(case['prompt']):
            if rng.random() < 0.4:
                file_in[k] = pr.pop(k)
        yield 'file-vs-prompt', {'inputs': file_in, 'prompt': pr}


def final_inputs(R):
    cfg = R.store.config
    return {('%s.%s' % (s, o)): cfg.get(s, o).strip() for s in cfg.sections() for o in cfg.options(s)}


def mon_generated_factory(rng):
    def mon(H, R, case):
        out = []
        if not hasattr(R, 'solver'):
            return out
        base = sf.snapshot(H, R.solver, R.ok, R.exc)
        base_refused = any(e[0] == 'prompt' and e[2] == 0 for e in R.trace)
        for label, kw in variants(rng, case, H):
            R2 = sc.exec_case(case, H, **kw)
            snap = sf.snapshot(H, R2.solver, R2.ok, R2.exc)
            refused2 = any(e[0] == 'prompt' and e[2] == 0 for e in R2.trace)
            if base[0] == 'abort' or snap[0] == 'abort':
                # "aborts" is order independent; which cause is reported first is not claimed
                if (base[0] == 'abort') != (snap[0] == 'abort') and not (base_refused or refused2):
                    out.append('%s changes whether the solve aborts' % label)
                continue
            if base_refused or refused2:
                # after a refusal the set of answers obtained is order dependent: compare only on equal final inputs
                if label == 'file-vs-prompt':
                    continue
                if final_inputs(R) != final_inputs(R2):
                    continue
            if snap != base:
                diff = [i for i in range(len(base)) if base[i] != snap[i]]
                out.append('%s changes the result (fields %s)' % (label, diff))
        return out
    return mon


def run(tier, seed):
    ck = Check('C05', tier, seed)
    rng = random.Random(seed + 5)
    ck.rule = ('pair = (run, transformed run) on the real solver: random attempt-order permutations (sort_keys substituted), shuffled/'
               'duplicated request order, shuffled input file, inputs moved between file and prompt; generated catalogues and real '
               'forms; results compared as order-insensitive snapshots (verdict, values, forms, three diagnostics as sets); '
               'non-trivial = baseline that fails, prompts or pulls in another form')
    ck.trusted = list(sf.BASE_TRUST) + ['configparser parsing of the input text is not modelled; exercised by the shuffled-file replays']
    if os.path.exists(os.path.join(common.COQ_DIR, 'Props', 'C05.v')):
        sf.compile_props(ck, 'C05')
    n_nat, n_perm, n_real = (900, 300, 18) if tier == 'quick' else (9000, 3000, 200)
    cases, dis_cases = sf.correspondence(ck, rng, n_nat, n_perm)
    H = sc._habutax()
    sf.run_generated_monitor(ck, H, dis_cases + cases, mon_generated_factory(rng), 'C05')

    # real forms: permuted attempt order, shuffled input text, file vs prompt
    Hr = scenarios.habutax_modules()
    for (year, forms, sseed, prof) in scenarios.scenario_stream(rng, n_real):
        res = scenarios.run_scenario(Hr, year, forms, sseed, prof)
        base = sf.snapshot(Hr, res['solver'], res['ok'], res['exc'])
        ck.count(('real', year, sseed), nontrivial=True)
        fin = {}
        cfg = res['store'].config
        for sec in cfg.sections():
            for opt in cfg.options(sec):
                fin['%s.%s' % (sec, opt)] = cfg.get(sec, opt, raw=True)
        probs = []
        # (1) attempt order
        old = Hr['solver'].sort_keys
        salt = rng.random()

        def sk(key, old=old, salt=salt):
            if not isinstance(key, str):
                key = key.name()
            return (hash((key, salt)) % 7, old(key))
        Hr['solver'].sort_keys = sk
        try:
            res2 = scenarios.run_scenario(Hr, year, forms, sseed, prof)
        finally:
            Hr['solver'].sort_keys = old
        if sf.snapshot(Hr, res2['solver'], res2['ok'], res2['exc']) != base and (base[0] != 'abort'):
            probs.append('attempt-order permutation changes the result of a real return')
        # (2) everything from the file, shuffled; nothing prompted
        # what the user typed (not what the store holds afterwards: a store that rewrites an answer is exactly what must show)
        typed = {name: ans for (name, ans, _needed) in res['policy'].asked if ans is not None}
        items = list(typed.items()) if typed else list(fin.items())
        rng.shuffle(items)
        if base[0] != 'abort':
            res3 = scenarios.run_scenario(Hr, year, forms, sseed, prof, initial=dict(items), refuse_after=0)
            if sf.snapshot(Hr, res3['solver'], res3['ok'], res3['exc']) != base:
                probs.append('supplying the prompted answers in a (shuffled) file instead changes the result')
            # ... and through a real file read by habutax itself (INI text written by configparser, no interpolation)
            import configparser as _cp
            cpf = _cp.ConfigParser(interpolation=None)
            for k_, v_ in items:
                sec_, opt_ = k_.split('.', 1)
                if not cpf.has_section(sec_):
                    cpf.add_section(sec_)
                cpf.set(sec_, opt_, v_)
            fpath = os.path.join(ck.build, 'typed_answers.ini')
            with open(fpath, 'w') as fh:
                cpf.write(fh)
            res3b = scenarios.run_scenario(Hr, year, forms, sseed, prof, initial_file=fpath, refuse_after=0)
            if sf.snapshot(Hr, res3b['solver'], res3b['ok'], res3b['exc']) != base:
                probs.append('the answers typed at the prompt, read from an input FILE instead, change the result')
        else:
            # the prompted run aborted: the answers given so far come from the file now, the rest is still prompted - it must abort the same way
            res3 = scenarios.run_scenario(Hr, year, forms, sseed, prof, initial=dict(items))
            if res3['exc'] is None or type(res3['exc']) is not type(res['exc']):
                probs.append('a run that aborts with %s when the answers are typed at the prompt ends with %s when the same answers come from the file' % (
                    type(res['exc']).__name__, type(res3['exc']).__name__ if res3['exc'] is not None else 'a verdict'))
        # (3) request order
        if len(forms) > 1:
            res4 = scenarios.run_scenario(Hr, year, list(reversed(forms)), sseed, prof)
            if base[0] != 'abort' and sf.snapshot(Hr, res4['solver'], res4['ok'], res4['exc']) != base:
                probs.append('request order changes the result')
        # (4) the copies the run pulled in, requested explicitly as well (in both orders): same closure, same result
        if base[0] != 'abort' and res['ok']:
            copies = sorted(n for n in res['solver'].forms.keys() if ':' in n)
            if len(copies) >= 2:
                for extra in (copies, list(reversed(copies))):
                    res5 = scenarios.run_scenario(Hr, year, list(forms) + extra, sseed, prof, initial=dict(fin), refuse_after=0)
                    if sf.snapshot(Hr, res5['solver'], res5['ok'], res5['exc']) != base:
                        probs.append('requesting the copies %s explicitly (they are pulled in anyway) changes the result' % extra)
                        break
        for p in probs[:2]:
            ck.violation('C05:real:%d:%s' % (year, '-'.join(re.sub(r'[^a-z ]+', ' ', p.lower()).split()[:4])), p,
                         {'kind': 'failing-input', 'year': year, 'forms': forms, 'seed': sseed, 'profile': prof,
                          'problems': probs}, found=True)
    ck.sample({'generated_case': cases[2]})
    return sf.finish_family(ck, 'C05')
