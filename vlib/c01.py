"""C01 — no silent success."""
import random
from . import solverfam as sf, solvercorr as sc
from .common import Check


def run(tier, seed):
    ck = Check('C01', tier, seed)
    rng = random.Random(seed)
    ck.rule = ('case = seeded random catalogue (1-5 forms, multi-instance forms, value-dependent branching, cycles, unimplemented leaves, '
               'crashes, unsupported forms, unknown lines/inputs, present/absent/invalid inputs, answering/refusing prompts, '
               'duplicate requests) + real-form scenarios; non-trivial = run that fails, aborts or prompts; distinct by JSON text')
    ck.trusted = list(sf.BASE_TRUST)
    sf.compile_props(ck, 'C01')
    n_nat, n_perm, n_real = (1200, 300, 45) if tier == 'quick' else (12000, 3000, 600)
    cases, dis_cases = sf.correspondence(ck, rng, n_nat, n_perm)
    H = sc._habutax()

    def mon(H, R, case):
        return sf.mon_c01(H, R.solver, R.ok, R.store, R.exc) if hasattr(R, 'solver') else []
    sf.run_generated_monitor(ck, H, dis_cases + cases, mon, 'C01')
    sf.run_real_monitor(ck, n_real, rng, lambda H, res, sc_: sf.mon_c01(H, res['solver'], res['ok'], res['store'], res['exc']), 'C01')
    ck.sample({'generated_case': cases[len(cases) // 2]})
    return sf.finish_family(ck, 'C01')
