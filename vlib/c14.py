"""C14 — a written solution reads back to exactly the values that were solved.

 prove   coq/Props/C14.v: bool / int (standard-library decimal strings) / enumeration / money-as-scaled-integer round trips, tax year
 tie     generated values of every line type (all places settings; negative, zero, huge, tiny; text with %, quotes, leading/trailing
         blanks, multi-line; every enumeration member and the empty choice of every enumeration of every year) go through the REAL
         to_string -> ConfigParser.write -> file -> ConfigParser.read -> from_string chain that `solve --solution` / `fill-pdfs` use;
         for enumerations the members' names are also checked in the kernel against the enum_rt premises
 search  every solution of explored real returns through the real CLI writer and PDFFiller._read_form_fields; compared value by
         value (floats bit-exact, enumerations by member name, text up to surrounding white space)
"""
import argparse
import configparser
import contextlib
import io
import math
import os
import random
import re

from . import common, scenarios, catalog, solverfam as sf
from .common import Check

import gen_forms  # noqa


def real_reader(path, with_forms=False):
    """the solution file as the REAL habutax.fill_pdfs reads it: fill_pdfs is run with PDFFiller replaced by a recorder"""
    import argparse
    import sys as _sys
    hb = _sys.modules['habutax']
    got = {}

    class Recorder(object):
        def __init__(self, solution, form_classes, output, flatten=False):
            got['solution'] = solution
            got['year'] = getattr(form_classes[0], 'tax_year', None) if form_classes else None
            got['forms'] = form_classes

        def fill(self):
            pass
    old = hb.pdf_filler.PDFFiller
    hb.pdf_filler.PDFFiller = Recorder
    try:
        hb.fill_pdfs(argparse.Namespace(solution=path, output=path + '.pdf', flatten=False))
    finally:
        hb.pdf_filler.PDFFiller = old
    if with_forms:
        return got['solution'], got['year'], got['forms']
    return got['solution'], got['year']


def through_file(H, fields_and_values, path):
    """{name: (field, value)} -> written with the real ValueStore.to_config + ConfigParser.write, read back like fill_pdfs"""
    vs = H['values'].ValueStore()
    fmap = {}
    for name, (f, v) in fields_and_values.items():
        vs[name] = v
        fmap[name] = f
    cfg = vs.to_config(fmap)
    cfg['habutax'] = {'tax_year': 2023, 'version': 'x'}
    with open(path, 'w') as out:
        cfg.write(out)
    back, year = real_reader(path)
    res = {}
    for name, (f, v) in fields_and_values.items():
        sec, key = name.split('.')
        res[name] = f.from_string(back[sec][key])
    return res, year


def same(a, b, is_text):
    if is_text:
        # up to surrounding white space, line by line (the INI layer strips every physical line of a multi-line value)
        norm = lambda t: '\n'.join(x.strip() for x in t.strip().split('\n'))  # noqa
        return isinstance(b, str) and norm(a) == norm(b)
    return sf.same_value(a, b) or (a is None and b is None)


def float_text_correspondence(ck, H, rng, n):
    """The executable model of binary64 rounding and of the two text conversions (coq/FloatText.v: dbl, of_text, to_text) against
    CPython and the real FloatField: same (places, digits) cases, the double as an exact fraction and the digits written back."""
    from fractions import Fraction
    from decimal import Decimal
    cases = [(2, 10), (2, 0), (2, -1), (0, 7), (5, 1), (5, 20115), (2, 900719925474099201), (2, 7036874417766399), (0, 2 ** 53 + 1), (5, 10 ** 5)]
    for _ in range(n):
        p = rng.choice([0, 2, 2, 2, 5])
        mag = rng.choice([1, 3, 6, 9, 12, 15, 17, 20, 25])
        k = rng.randrange(0, 10 ** mag + 1)
        if rng.random() < 0.3:
            k = -k
        if rng.random() < 0.15:
            k = rng.choice([2 ** rng.randrange(1, 80), 2 ** rng.randrange(1, 80) + 1, 10 ** rng.randrange(0, 22)])
        cases.append((p, k))
    rows = '; '.join('(%s, %s)' % (gen_cz(p), gen_cz(k)) for p, k in cases)
    txt = ['From Coq Require Import ZArith QArith List.', 'From HV Require Import Forms FloatText.', 'Import ListNotations.',
           'Goal True. idtac "@@FT". Abort.',
           'Eval vm_compute in map (fun pk : Z * Z => let v := Qred (of_text (fst pk) (snd pk)) in [Qnum v; Zpos (Qden v); to_text (fst pk) v; '
           'if Qle_bool (1 / pow10 (fst pk)) (ulp (inject_Z (snd pk) / pow10 (fst pk))) then 0 else 1]%%Z) [%s].' % rows,
           'Goal True. idtac "@@ENDFT". Abort.']
    ok, out = ck.coqc(ck.write_gen('C14_floattext.v', '\n'.join(txt) + '\n'), timeout=900)
    ck.oblige('correspondence:float-text model vs CPython (%d cases)' % len(cases), ok, out[-300:] if not ok else '')
    if not ok:
        return
    seg = out.split('@@FT', 1)[1].split('@@ENDFT')[0].split(': list')[0]
    lists = [[int(x) for x in re.findall(r'-?\d+', r)] for r in re.findall(r'\[([^\[\]]*)\]', seg.split('=', 1)[1])]
    lists = [l for l in lists if len(l) == 4]
    F = H['fields']

    class FakeForm(object):
        def name(self):
            return 'f'
    bad = 0
    guard_yes = 0
    for (p, k), (num, den, digits, guard) in zip(cases, lists):
        text = '%s%s' % ('-' if k < 0 else '', format(Decimal(abs(k)).scaleb(-p), 'f'))
        v = float(text)
        fr = Fraction(v)
        fld = F.FloatField('l', lambda s_, i_, v_: None, places=p)
        fld.__form_init__(FakeForm())
        written = fld.to_string(v)
        wdigits = int(written.replace('.', '').replace('-', '')) * (-1 if written.startswith('-') and float(written) != 0 else 1)
        back = fld.from_string(written)
        ck.count(('float-text', p, k), nontrivial=True)
        guard_yes += guard
        if (fr.numerator, fr.denominator) != (num, den) or wdigits != digits:
            bad += 1
            ck.violation('C14:float-text-model', 'places %d, digits %d: CPython float(%s) = %s/%s written back as %s; the model has %s/%s and digits %s' % (
                p, k, text, fr.numerator, fr.denominator, written, num, den, digits),
                {'kind': 'proof-or-correspondence', 'theorem_or_correspondence': 'FloatText.dbl / to_text vs CPython', 'places': p, 'digits': k}, found=False)
        if guard == 1 and (wdigits != k or back != v):
            ck.violation('C14:float-text-roundtrip:%d' % p, 'a %d-place value %s (%r) is written as %s and read back as %r' % (p, text, v, written, back),
                         {'kind': 'failing-input', 'places': p, 'digits': k, 'value': v.hex(), 'written': written, 'read_back': repr(back)}, found=True)
    ck.cov['float_text_model'] = {'cases': len(cases), 'inside_the_guard_of_the_theorem': guard_yes, 'disagreements': bad}


def gen_cz(z):
    return '(%d)%%Z' % z


def run(tier, seed):
    ck = Check('C14', tier, seed)
    rng = random.Random(seed + 14)
    ck.rule = ('value = (line type, value) through the real writer/reader chain; generated extremes per type + every stored value of real-form '
               'solutions; non-trivial = value that is not a plain short token (negative, zero, >1e9, <0.01, text with special characters, '
               'enumeration members)')
    ck.trusted = ['Coq 8.16.1 kernel', 'int: the standard library DecimalString conversions stand for str(int)/int(str) on canonical text',
                  'money: digits as scaled integers (C14_money_rt); binary64 rounding and the two text conversions as exact-rational functions '
                  '(FloatText.dbl / of_text / to_text, C14_float_text_roundtrip), compared with CPython float()/format() and the real FloatField on every run; '
                  'the character-level work of format()/float() itself is CPython; every real value is also pushed through the real chain (bit-exact comparison)',
                  'configparser write/read: not modelled; text is claimed equal only up to surrounding white space',
                  'enum_rt premises (member names distinct from "" and listed) are checked for every enumeration of every year below']
    sf.compile_props(ck, 'C14')
    H = scenarios.habutax_modules()
    float_text_correspondence(ck, H, random.Random(seed + 1414), 400 if tier == 'quick' else 6000)
    F = H['fields']

    class FakeForm(object):
        def name(self):
            return 'f'
    path = os.path.join(ck.build, 'solution.ini')
    # ------------- generated values per type
    cases = {}
    idx = [0]

    def add(field, v):
        field.__form_init__(FakeForm())
        cases['f.l%d' % idx[0]] = (field, v)
        idx[0] += 1
    for places in (0, 2, 3, 5):
        for v in [0.0, -0.0, 0.01, -0.01, 0.005, 1e-5, 123456789.12, 1e12, 1e15, -98765.43, 0.1 + 0.2, 2.675, 1 / 3, 5e-324, 1e22]:
            add(F.FloatField('x', (lambda s, i, v: None), places=places), round(v, places))
        for _ in range(40 if tier == 'quick' else 2000):
            add(F.FloatField('x', (lambda s, i, v: None), places=places), round(rng.uniform(-1e6, 1e9) * rng.choice([1, 1e-3, 1e3]), places))
    for v in [0, 1, -1, 10 ** 20, -10 ** 20, 2023, 7, 10 ** 30 + 7, 2 ** 53 + 1, 2 ** 63 - 1, -(2 ** 53) - 1]:
        add(F.IntegerField('x', lambda s, i, v: None), v)
    for v in [True, False]:
        add(F.BooleanField('x', lambda s, i, v: None), v)
    texts = ['', 'x', 'two words', "O'Neil (Jr.)", '100% sure', '%(x)s', 'a = b', 'a: b', '#notcomment', ';semi', 'tab\tinside', '[brackets]',
             'UPPER lower', 'trailing ', ' leading', 'x' * 300, 'multi\nline', 'multi\n  indented', 'multi\n#hash', 'multi\n;semi', 'multi\n\nblank', 'ends with colon:', '"quoted"', 'é',
             # words that other layers give a meaning: the text of a Python constant, of a boolean answer, of a number
             'None', 'none', 'True', 'False', 'yes', 'no', 'nan', 'inf', '0', '0.00', '-0.0', '1e5', 'null', "''", '\\', '\\n', '${x}', '2023']
    for v in texts:
        add(F.StringField('x', lambda s, i, v: None), v)
    enums = gen_forms.Enums(H['enum'])
    n_members = 0
    enum_rows = []
    for name, cls in list(enums.names.items()):
        for m in list(cls) + [None]:
            add(F.EnumField('x', cls, lambda s, i, v: None), m)
            n_members += 1
        enum_rows.append(gen_forms.clist([gen_forms.cstr(k) for k in cls.__members__.keys()]))
    probs = []
    try:
        back, year = through_file(H, cases, path)
    except Exception as e:  # noqa
        back, year = {}, None
        ck.violation('C14:writer-reader-raised', 'writing/reading generated values raised %r' % (e,), {'kind': 'failing-input', 'error': repr(e)}, found=True)
    for name, (f, v) in cases.items():
        nontriv = not (isinstance(v, (int, float)) and 0 < abs(v) < 1000)
        ck.count((type(f).__name__, getattr(f, '_places', None), repr(v)), nontrivial=nontriv)
        if name in back and not same(v, back[name], isinstance(f, F.StringField)):
            ck.violation('C14:%s:%s' % (type(f).__name__, 'multi-line' if isinstance(v, str) and '\n' in v else 'value'),
                         '%s %r reads back as %r' % (type(f).__name__, v, back[name]),
                         {'kind': 'failing-input', 'line_type': type(f).__name__, 'places': getattr(f, '_places', None), 'value': repr(v),
                          'read_back': repr(back[name])}, found=True)
    if year != 2023:
        ck.violation('C14:tax-year', 'the tax year reads back as %r' % (year,), {'kind': 'failing-input'}, found=True)
    # enum_rt premises, in the kernel
    txt = ['From Coq Require Import List String Bool.', 'From HV Require Import Inputs RoundTrip.', 'Import ListNotations.', 'Open Scope string_scope.',
           'Definition enums : list (list string) := %s.' % gen_forms.clist(enum_rows),
           'Definition ok (l:list string) : bool := forallb (fun m => negb (String.eqb m "") && String.eqb (strip m) m) l.',
           'Theorem C14_enum_members_ok : forallb ok enums = true.', 'Proof. vm_compute. reflexivity. Qed.',
           'Theorem C14_every_member_reads_back : forallb (fun l => forallb (fun m => match enum_from_string l (enum_to_string (Some m)) with Some (Some m\') => String.eqb m m\' | _ => false end) l) enums = true.',
           'Proof. vm_compute. reflexivity. Qed.']
    ok, out = ck.coqc(ck.write_gen('C14_enums.v', '\n'.join(txt) + '\n'), timeout=300)
    ck.oblige('theorem:C14_enum_members_ok (%d enumerations, %d members incl. empty)' % (len(enum_rows), n_members), ok, out[-300:] if not ok else '')
    ck.oblige('theorem:C14_every_member_reads_back', ok, '')
    # ------------- real solutions through the real CLI writer and the filler's reader
    n_sc = 10 if tier == 'quick' else 120
    done = 0
    for (year, forms, sseed, prof) in scenarios.scenario_stream(rng, 12 * n_sc):
        if done >= n_sc:
            break
        res = scenarios.run_scenario(H, year, forms, sseed, prof)
        if res['exc'] is not None:
            continue
        done += 1
        s = res['solver']
        sol = s.solution()
        sol['habutax'] = {'tax_year': year, 'version': 'x'}
        with open(path, 'w') as f:
            sol.write(f)
        try:
            back, y2, form_classes = real_reader(path, with_forms=True)
        except Exception as e:  # noqa
            ck.violation('C14:%d:reader-raised' % year, 'habutax.fill_pdfs raised %r on the solution that habutax wrote' % (e,),
                         {'kind': 'failing-input', 'year': year, 'forms': forms, 'seed': sseed, 'profile': prof}, found=True)
            continue
        p = H['pdf_filler'].PDFFiller(back, form_classes, 'x.pdf')
        try:
            for form_name in back:
                if form_name != 'DEFAULT':
                    p._add_form(form_name)
        except Exception as e:  # noqa
            ck.violation('C14:%d:reader-raised' % year, 'reading the solution back raised %r' % (e,),
                         {'kind': 'failing-input', 'year': year, 'forms': forms, 'seed': sseed, 'profile': prof}, found=True)
            continue
        ck.count(('real', year, sseed), nontrivial=True)
        if y2 != year:
            ck.violation('C14:tax-year', 'solution of %d carries year %r' % (year, y2), {'kind': 'failing-input'}, found=True)
        if set(p._values.values) != set(s._v.values):
            ck.violation('C14:%d:lines-differ' % year, 'lines read back differ: %s' % sorted(set(p._values.values) ^ set(s._v.values))[:4],
                         {'kind': 'failing-input', 'year': year, 'forms': forms, 'seed': sseed, 'profile': prof}, found=True)
        for name, v in s._v.values.items():
            w = p._values.values.get(name)
            if not same(v, w, isinstance(v, str)):
                ck.violation('C14:%d:%s' % (year, type(s._field_map[name]).__name__),
                             'ty%d %s: solved %r, read back %r' % (year, name, v, w),
                             {'kind': 'failing-input', 'year': year, 'forms': forms, 'seed': sseed, 'profile': prof, 'line': name,
                              'solved': repr(v), 'read_back': repr(w)}, found=True)
                break
    ck.cov['real_solutions'] = done
    ck.sample({'generated': [(type(f).__name__, repr(v)) for (f, v) in list(cases.values())[:6]]})
    return sf.finish_family(ck, 'C14')
