"""C12 — stored line values have the declared type, rounding and blank convention.

 prove   coq/Props/C12.v over Forms.typed_value / line_value
 tie     the real field classes are run on generated return values (bool for an integer line, int for a money line, subclasses,
         None, blank strings, wrong enumerations) and compared with the model; InputForm mirroring checked for every input-only form
 search  monitor on real-form scenarios: every stored value has exactly its line's type and money lines are rounded
"""
import random
import re
from fractions import Fraction

from . import common, scenarios, catalog, solverfam as sf
from .common import Check

import gen_forms  # noqa


class MyInt(int):
    pass


class MyFloat(float):
    pass


class MyStr(str):
    pass


def gen_values(rng, H, n):
    E1 = H['enum'].taxpayer_or_spouse
    E2 = H['enum'].us_states
    base = [None, True, False, 0, 1, -3, 10 ** 12, 0.0, -0.0, 1.005, 2.675, 0.125, 1234.5678, -0.004, 1e-9, 1e15 + 0.3, '', ' ', '\t\n', 'x', ' a ',
            E1.taxpayer, E2.NC, MyInt(3), MyFloat(2.5), MyStr('s'), (1, 2), [1.0], 3 + 0j]
    out = list(base)
    while len(out) < n:
        r = rng.random()
        if r < 0.5:
            out.append(round(rng.uniform(-5000, 500000), rng.choice([0, 1, 2, 3, 4, 6])))
        elif r < 0.7:
            out.append(rng.randrange(-100, 100000))
        elif r < 0.8:
            out.append(rng.choice(['', ' ', 'abc', ' x y ', 'Ünï']))
        else:
            out.append(rng.choice(base))
    return out


def coq_pv(v, enums):
    import enum as pyenum
    if type(v) in (type(None), bool, int, float, str) or isinstance(v, pyenum.Enum):
        if isinstance(v, float) and (v != v or abs(v) == float('inf')):
            return None
        if isinstance(v, str) and any(ord(c) > 126 or ord(c) < 32 for c in v):
            return None
        return catalog.pv_of(v, enums)
    return None       # subclasses / containers: the model's "other type"


def run(tier, seed):
    ck = Check('C12', tier, seed)
    rng = random.Random(seed + 12)
    ck.rule = ('case = (line type incl. decimal places 0/2/3/5, returned Python value): bools, ints, floats (ties, negative zero, huge), blank '
               'strings, None, enumeration members of the right and the wrong enumeration, subclasses of int/float/str, containers; '
               'non-trivial = case that is rejected or normalised; plus every stored value of real-form scenarios')
    ck.trusted = ['Coq 8.16.1 kernel', 'Forms.typed_value is the hand model of fields.py:58-64,97-99 (tied by this correspondence)',
                  'round(): the model rounds the exact decimal half-even; CPython rounds the binary value - agreement is required except at '
                  'exact decimal ties, which are counted']
    sf.compile_props(ck, 'C12')
    H = scenarios.habutax_modules()
    enums = gen_forms.Enums(H['enum'])
    F = H['fields']
    E1 = H['enum'].taxpayer_or_spouse
    types = [('TStr', lambda fn: F.StringField('l', fn)), ('TBool', lambda fn: F.BooleanField('l', fn)),
             ('TInt', lambda fn: F.IntegerField('l', fn)),
             ('(TFloat 2%Z)', lambda fn: F.FloatField('l', fn)), ('(TFloat 0%Z)', lambda fn: F.FloatField('l', fn, places=0)),
             ('(TFloat 5%Z)', lambda fn: F.FloatField('l', fn, places=5)),
             ('(TEnum %s)' % gen_forms.cstr(enums.name_of(E1)), lambda fn: F.EnumField('l', E1, fn))]

    class FakeForm(object):
        def name(self):
            return 'f'
    vals = gen_values(rng, H, 400 if tier == 'quick' else 5000)
    # the blank convention, directly: None and white-space-only text give the type's empty value on every line type
    EMPTY = {'TStr': '', 'TBool': False, 'TInt': 0}
    for tname, mk in types:
        for blank in (None, '', ' ', '\t', '  \n ', '\u00a0'):
            fld = mk(lambda s_, i_, vv, b=blank: b)
            fld.__form_init__(FakeForm())
            want = EMPTY.get(tname, 0.0 if 'TFloat' in tname else None)
            try:
                got = fld.value(None, None)
                okb = (got == want and type(got) is type(want)) or (want is None and got is None)
            except Exception as e:  # noqa
                got, okb = 'raised %s' % type(e).__name__, False
            ck.count((tname, 'blank', repr(blank)), nontrivial=True)
            if not okb:
                ck.violation('C12:blank-convention:%s' % tname.split()[0].strip('('),
                             'a %s line whose definition answers %r stores %r instead of the empty value %r' % (tname, blank, got, want),
                             {'kind': 'failing-input', 'type': tname, 'returned': repr(blank), 'stored': repr(got), 'expected': repr(want)}, found=True)
    rows = []
    meta = []
    ties = 0
    for tname, mk in types:
        for v in vals:
            fld = mk(lambda s, i, vv, v=v: v)
            fld.__form_init__(FakeForm())
            try:
                out = ('val', fld.value(None, None))
            except TypeError as e:
                out = ('typeerror', 'l' in str(e) and 'f.l' in str(e))
            except Exception as e:  # noqa
                out = ('other', type(e).__name__)
            nontriv = out[0] != 'val' or (out[0] == 'val' and not sf.same_value(out[1], v))
            ck.count((tname, repr(v)), nontrivial=nontriv)
            if out[0] == 'typeerror' and not out[1]:
                ck.violation('C12:typeerror-does-not-name-the-line', 'the TypeError for %s / %r does not name the line' % (tname, v),
                             {'kind': 'failing-input', 'type': tname, 'value': repr(v)}, found=True)
            # monitor: a stored value has exactly the declared type
            if out[0] == 'val':
                w = out[1]
                T = {'TStr': str, 'TBool': bool, 'TInt': int}.get(tname, float if 'TFloat' in tname else None)
                # ... and a definition that produced a value of ANOTHER type (blank answers aside) was not stored at all
                Tdecl = T if T is not None else E1
                if v is not None and not (isinstance(v, str) and v.strip() == '') and type(v) is not Tdecl:
                    ck.violation('C12:wrong-type-accepted:%s' % tname.split()[0].strip('('),
                                 'a %s line whose definition produced %r (%s) stored %r instead of being rejected with an error naming the line' % (
                                     tname, v, type(v).__name__, w),
                                 {'kind': 'failing-input', 'type': tname, 'returned': repr(v), 'returned_type': type(v).__name__, 'stored': repr(w)}, found=True)
                if T is not None and type(w) is not T:
                    ck.violation('C12:stored-value-has-another-type', '%s line stored %r (%s)' % (tname, w, type(w).__name__),
                                 {'kind': 'failing-input', 'type': tname, 'returned': repr(v), 'stored': repr(w)}, found=True)
                if 'TFloat' in tname and type(v) is float and type(w) is float and v == v and abs(v) != float('inf'):
                    places = int(re.search(r'\d+', tname).group(0))
                    if w != round(v, places) and not (w == 0 and round(v, places) == 0):
                        ck.violation('C12:money-not-rounded-to-declared-places:%d' % places,
                                     'a money line declared with %d decimal places stored %r for the returned value %r (rounding to %d places gives %r)' % (
                                         places, w, v, places, round(v, places)),
                                     {'kind': 'failing-input', 'type': tname, 'returned': repr(v), 'stored': repr(w), 'places': places}, found=True)
            pvv = coq_pv(v, enums)
            if pvv is None:
                if out[0] == 'val' and not (v is None) and type(v) not in (str,):
                    pass
                continue
            rows.append('(%s, %s)' % (tname, pvv))
            meta.append((tname, v, out))
    txt = ['From Coq Require Import ZArith QArith List String Bool.', 'From HV Require Import Forms.', 'Import ListNotations.',
           'Open Scope string_scope.',
           'Definition show (r:res pv) : list Z := match r with',
           ' | RVal PNone => [0]%Z | RVal (PBool b) => [1; if b then 1 else 0]%Z | RVal (PInt z) => [2; z]%Z',
           ' | RVal (PNum q) => [3; Qnum (Qred q); Zpos (Qden (Qred q))]%Z | RVal (PStr s) => [4; Z.of_nat (String.length s)]%Z',
           ' | RVal (PEnum _ _) => [5]%Z | RVal _ => [6]%Z | RCrash CTypeError => [7]%Z | _ => [8]%Z end.']
    files = []
    shard = 500
    for b in range(0, len(rows), shard):
        t = list(txt)
        t.append('Goal True. idtac "@@R %d". Abort.' % b)
        t.append('Eval vm_compute in map (fun tv => show (typed_value (fst tv) (snd tv))) %s.' % gen_forms.clist(rows[b:b + shard]))
        files.append((b, ck.write_gen('fields_%d.v' % (b // shard), '\n'.join(t) + '\n')))
    res = ck.coqc_many([f for _, f in files], timeout=600)
    dis = 0
    okfiles = True
    for b, f in files:
        ok, out = res[f]
        if not ok:
            okfiles = False
            ck.notes.append(out[-300:])
            continue
        body = out.split('@@R', 1)[1].split(': list (list Z)')[0]
        lists = [[int(x) for x in re.findall(r'-?\d+', r)] for r in re.findall(r'\[([^\[\]]*)\]', body.split('\n', 1)[1])]
        for k, enc in enumerate(lists):
            tname, v, out_py = meta[b + k]
            if out_py[0] == 'typeerror':
                agree = enc == [7]
            elif out_py[0] == 'val':
                w = out_py[1]
                if w is None:
                    agree = enc == [0]
                elif isinstance(w, bool):
                    agree = enc == [1, 1 if w else 0]
                elif isinstance(w, int):
                    agree = enc == [2, w]
                elif isinstance(w, float):
                    if len(enc) == 3 and enc[0] == 3:
                        q = Fraction(enc[1], enc[2])
                        agree = float(q) == w
                        if not agree:
                            places = int(re.search(r'\d+', tname).group(0))
                            # an exact decimal tie: the binary value decides in CPython
                            scaled = Fraction(repr(v)) * 10 ** places if isinstance(v, float) else None
                            if scaled is not None and (scaled * 2).denominator == 1 and scaled.denominator != 1 and abs(q - Fraction(repr(w))) <= Fraction(1, 10 ** places):
                                agree = True
                                ties += 1
                    else:
                        agree = False
                elif isinstance(w, str):
                    agree = enc == [4, len(w)]
                else:
                    agree = enc == [5]
            else:
                agree = enc == [8]
            if not agree:
                dis += 1
                if dis <= 4:
                    ck.notes.append('model/code disagreement %s %r: py=%r coq=%s' % (tname, v, out_py, enc))
    ck.oblige('correspondence:fields-model (%d cases)' % len(rows), okfiles and dis == 0, '%d disagreements' % dis)
    ck.cov['exact_decimal_ties_where_cpython_follows_the_binary_value'] = ties
    # ---- InputForm mirroring
    I, Fm = H['inputs'], H['form']
    want = {I.StringInput: F.StringField, I.SSNInput: F.StringField, I.BooleanInput: F.BooleanField,
            I.IntegerInput: F.IntegerField, I.FloatInput: F.FloatField, I.EnumInput: F.EnumField}
    n_mirror = 0
    for y in common.YEARS:
        for cls in H['forms'].available_forms[y]:
            if not issubclass(cls, Fm.InputForm):
                continue
            obj = cls(instance='0')
            lines = {f.base_name(): f for f in obj.fields()}
            for i in obj.inputs():
                n_mirror += 1
                f = lines.get(i.base_name())
                ok = f is not None and type(f) is want.get(type(i)) and (type(i) is not I.EnumInput or f.enum() is i.enum)
                ck.count(('mirror', y, cls.form_name, i.base_name()), nontrivial=True)
                if not ok:
                    ck.violation('C12:%d:mirror:%s.%s' % (y, cls.form_name, i.base_name()),
                                 'ty%d %s: input %s (%s) is not mirrored by a line of the matching type' % (y, cls.form_name, i.base_name(), type(i).__name__),
                                 {'kind': 'failing-input', 'year': y, 'form': cls.form_name, 'input': i.base_name()}, found=True)
    ck.cov['input_form_mirrors_checked'] = n_mirror
    # ---- real returns: every stored value typed and rounded
    for (year, forms, sseed, prof) in scenarios.scenario_stream(rng, 24 if tier == 'quick' else 300):
        res = scenarios.run_scenario(H, year, forms, sseed, prof)
        s = res['solver']
        for name, v in s._v.values.items():
            f = s._field_map[name]
            T = f._type
            bad = None
            if v is None:
                if not isinstance(f, F.EnumField):
                    bad = 'None stored in a %s line' % T.__name__
            elif type(v) is not T:
                bad = 'stored %r (%s) in a %s line' % (v, type(v).__name__, T.__name__)
            elif isinstance(v, float) and round(v, f._places) != v:
                bad = 'money value %r is not rounded to %d places' % (v, f._places)
            if bad:
                ck.violation('C12:%d:real:%s' % (year, name.split('.')[0].split(':')[0] + '.' + name.split('.')[1]), 'ty%d %s: %s' % (year, name, bad),
                             {'kind': 'failing-input', 'year': year, 'forms': forms, 'seed': sseed, 'profile': prof, 'line': name}, found=True)
        ck.count(('real', year, sseed), nontrivial=True)
    ck.sample({'type': meta[5][0], 'returned': repr(meta[5][1]), 'python_outcome': repr(meta[5][2])})
    return sf.finish_family(ck, 'C12')
