"""C17 — each year's form catalogue is consistent; status lookups are total.

 regen   introspection of every (year, class, allowed instance) + regenerated threshold tables (Gen/Forms<y>.v)
 prove   Gen/C17_<y>.v: catalogue_ok / thresholds_ok by vm_compute, lifted to Prop by CatCheck.catalogue_ok_spec / status_total_spec
 tie     the real `list-forms` / `list-form-inputs` commands are run for every form; the printed template, uncommented, must parse
         back (configparser) to exactly the declared input names
"""
import argparse
import configparser
import contextlib
import io
import random
import re

from . import common, scenarios, catalog, solverfam as sf
from .common import Check

import gen_forms  # noqa


def run(tier, seed):
    ck = Check('C17', tier, seed)
    ck.rule = ('exhaustive over every (year, form class, allowed instance) and every (status-keyed threshold table, filing status); '
               'every form through list-forms and list-form-inputs; non-trivial = form with at least one input or threshold table')
    ck.trusted = ['Coq 8.16.1 kernel + vm_compute', 'introspection of the form classes (vlib/c17.py, tools/gen_forms.py)',
                  'configparser as the parser of the printed template']
    H = scenarios.habutax_modules()
    summ = catalog.generate(ck, H)
    files = []
    for y in common.YEARS:
        try:
            info = gen_forms.introspect_year(H, y)
        except Exception as e:  # noqa
            ck.oblige('introspect:%d' % y, False, repr(e))
            continue
        enums = info['_enums']
        rows = []
        for rec in info['forms']:
            insts = rec['instances']
            allowed = [str(i) for i in (rec['valid_instances'] or [None])]
            ctor_ok = all('ctor_error' not in insts.get(i, {'ctor_error': 1}) for i in allowed) and \
                all('ctor_error' not in v for v in insts.values())
            first = next((v for v in insts.values() if 'ctor_error' not in v), None)
            inputs = [i['name'] for i in first['inputs']] if first else []
            lines = [l['name'] for l in first['lines']] if first else []
            same = all(('ctor_error' in v) or ([i['name'] for i in v['inputs']] == inputs and [l['name'] for l in v['lines']] == lines)
                       for v in insts.values())
            meta = all(isinstance(rec.get(k), str) and rec.get(k).strip() for k in ('description', 'long_description', 'jurisdiction'))
            for k, v in insts.items():
                if 'ctor_error' in v:
                    ck.violation('C17:%d:%s:ctor' % (y, rec['class']), 'ty%d %s cannot be instantiated (instance %s): %s' % (
                        y, rec['class'], k, v['ctor_error']), {'kind': 'failing-input', 'year': y, 'class': rec['class'], 'instance': k,
                                                               'error': v['ctor_error']}, found=True)
            rows.append((rec, 'Cls %s %s %s %s %s %s %s %s' % (
                gen_forms.cstr(rec['class']), gen_forms.cstr(rec['name'] or ''), gen_forms.cz(rec['tax_year'] if isinstance(rec['tax_year'], int) else -1),
                'true' if meta else 'false', 'true' if ctor_ok else 'false', 'true' if same else 'false',
                gen_forms.clist([gen_forms.cstr(x) for x in inputs]), gen_forms.clist([gen_forms.cstr(x) for x in lines]))))
            ck.count(('class', y, rec['class']), nontrivial=bool(inputs) or bool(first and first['thresholds']))
        fs = H['enum'].filing_status_2021 if y == 2021 else H['enum'].filing_status
        sts = gen_forms.clist([enums.pv(m) for m in fs])
        txt = ['From Coq Require Import ZArith QArith List String Bool.', 'From HV Require Import Forms CatCheck.',
               'From Gen Require Import Forms%d.' % y, 'Import ListNotations.', 'Open Scope string_scope.',
               'Definition classes : list cls := %s.' % gen_forms.clist([r for _, r in rows]),
               'Definition statuses : list pv := %s.' % sts,
               'Goal True. idtac "@@BADCLS". Abort.',
               'Eval vm_compute in map k_class (filter (fun c => negb (cls_ok %s c)) classes).' % gen_forms.cz(y),
               'Goal True. idtac "@@BADTH". Abort.',
               'Eval vm_compute in flat_map (fun f => map (fun t => (f_name f, t_name t)) (filter (fun t => negb (status_total statuses t)) (f_thresholds f))) cat.',
               'Goal True. idtac "@@NTH". Abort.',
               'Eval vm_compute in List.length (flat_map (fun f => filter (keyed_by statuses) (f_thresholds f)) cat).',
               'Theorem C17_catalogue_ok_%d : catalogue_ok %s classes = true.' % (y, gen_forms.cz(y)),
               'Proof. vm_compute. reflexivity. Qed.',
               'Theorem C17_status_lookups_total_%d : thresholds_ok statuses cat = true.' % y,
               'Proof. vm_compute. reflexivity. Qed.',
               'Goal True. idtac "@@PA C17_catalogue_ok_%d". Abort.' % y, 'Print Assumptions C17_catalogue_ok_%d.' % y,
               'Goal True. idtac "@@PA C17_status_lookups_total_%d". Abort.' % y, 'Print Assumptions C17_status_lookups_total_%d.' % y]
        files.append((y, rows, ck.write_gen('C17_%d.v' % y, '\n'.join(txt) + '\n')))
    res = ck.coqc_many([f for _, _, f in files], timeout=600)
    for y, rows, f in files:
        ok, out = res[f]
        ck.harvest_assumptions(out)
        ck.oblige('theorem:C17_catalogue_ok_%d' % y, ok and 'C17_catalogue_ok_%d' % y in ck.assumptions_seen, out[-300:] if not ok else '')
        ck.oblige('theorem:C17_status_lookups_total_%d' % y, ok, '')
        if '@@BADCLS' in out:
            seg = out.split('@@BADCLS', 1)[1].split('@@', 1)[0]
            for c in re.findall(r'"([^"]+)"', seg):
                rec = [r for r, _ in rows if r['class'] == c][0]
                ck.violation('C17:%d:%s' % (y, c), 'ty%d catalogue entry %s (form %r, declares tax_year %r) is inconsistent' % (
                    y, c, rec['name'], rec['tax_year']), {'kind': 'failing-input', 'year': y, 'class': c,
                                                           'declared_tax_year': rec['tax_year'], 'form_name': rec['name'],
                                                           'how_to_run': 'habutax list-forms --year %d' % y}, found=True)
        if '@@BADTH' in out:
            seg = out.split('@@BADTH', 1)[1].split('@@', 1)[0]
            for a, b in re.findall(r'\("([^"]+)",\s*"([^"]+)"\)', seg):
                ck.violation('C17:%d:threshold:%s.%s' % (y, a, b),
                             'ty%d threshold %s of form %s does not yield exactly one value for every filing status' % (y, b, a),
                             {'kind': 'failing-input', 'year': y, 'form': a, 'threshold': b}, found=True)
        m = re.search(r'@@NTH\s*=\s*(\d+)', out)
        if m:
            ck.cov.setdefault('status_keyed_tables', {})[str(y)] = int(m.group(1))
    # ---- the two listing commands on the real CLI
    n_forms = 0
    for y in common.YEARS:
        out = io.StringIO()
        try:
            with contextlib.redirect_stdout(out):
                H['top'].list_forms(argparse.Namespace(year=y, contains=None, jurisdiction=None))
        except Exception as e:  # noqa
            ck.violation('C17:%d:list-forms' % y, 'list-forms --year %d raised %r' % (y, e), {'kind': 'failing-input', 'year': y}, found=True)
        listing = out.getvalue()
        for cls in H['forms'].available_forms[y]:
            n_forms += 1
            if cls.form_name not in listing:
                ck.violation('C17:%d:list-forms:%s' % (y, cls.form_name), 'list-forms does not show %s' % cls.form_name,
                             {'kind': 'failing-input', 'year': y, 'form': cls.form_name}, found=True)
            for inst in (getattr(cls, 'valid_instances', None) or [None]):
                name = cls.form_name if inst is None else '%s:%s' % (cls.form_name, inst)
                out = io.StringIO()
                try:
                    with contextlib.redirect_stdout(out):
                        H['top'].list_form_inputs(argparse.Namespace(form=name, year=y))
                except BaseException as e:  # noqa (sys.exit included)
                    ck.violation('C17:%d:list-form-inputs:%s' % (y, cls.form_name), 'list-form-inputs %s raised %r' % (name, e),
                                 {'kind': 'failing-input', 'year': y, 'form': name}, found=True)
                    continue
                text = re.sub(r'^#([^\s#][^\n]*=)', r'\1', out.getvalue(), flags=re.M)
                cp = configparser.ConfigParser()
                try:
                    cp.read_string(text)
                    got = sorted(cp.options(name)) if cp.has_section(name) else None
                except Exception as e:  # noqa
                    got = 'parse error %r' % (e,)
                want = sorted(i.base_name() for i in cls(instance=inst).inputs())
                ck.count(('template', y, name), nontrivial=bool(want))
                if got != want:
                    ck.violation('C17:%d:template:%s' % (y, cls.form_name),
                                 'the list-form-inputs template of %s does not parse back to its inputs' % name,
                                 {'kind': 'failing-input', 'year': y, 'form': name, 'parsed': got if not isinstance(got, list) else
                                  {'missing': sorted(set(want) - set(got)), 'extra': sorted(set(got) - set(want))}}, found=True)
    ck.cov['forms_listed'] = n_forms
    ck.cov['exhaustive'] = True
    ck.sample({'year': 2023, 'class_row': files[-1][1][0][1][:200] if files else None})
    return sf.finish_family(ck, 'C17')
