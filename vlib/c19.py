"""C19 — the fill step transmits values faithfully and files exactly the right forms.

 prove   coq/Props/C19.v: fdf_roundtrip for EVERY byte string; fill_selection (sorted duplicate-free permutation of the forms that need
         filing); too-long / bad-choice values raise
 tie     the model's writer (FDF.entry/body) is compared byte for byte with the real PDFFiller._create_fdf on adversarial data
 search  real solutions (adversarial text injected through the string inputs) are filled with a stand-in for pdftk that captures
         every form-data file and command line: each file is decoded by an independent PDF literal-string reader and must equal the
         mapped text; the forms filled must be exactly those that need filing, once each, in (jurisdiction, sequence) order
"""
import configparser
import os
import random
import re
import types

import sys
from . import common, scenarios, solverfam as sf
sys.path.insert(0, os.path.join(common.ROOT, 'tools'))
from .common import Check

ADVERSARIAL = ['(', ')', '((', ')(', 'a(b', 'a)b', '\\', 'a\\', '\\(', '\\)', '\\\\)', "O'Neil (Jr.)", '"q"', 'x\\ny', 'tab\there', '100% (net)',
               'Smith \\ Jones', ')))(((', '\\101', 'a\rb', 'multi\nline', '', ' ', 'plain']


def pdf_literal_decode(s, i):
    """independent reader of a PDF literal string starting after '(' at s[i]; returns (text, index after ')')"""
    out = []
    depth = 0
    n = len(s)
    while i < n:
        c = s[i]
        if c == '\\':
            i += 1
            d = s[i]
            if d in 'nrtbf':
                out.append({'n': '\n', 'r': '\r', 't': '\t', 'b': '\b', 'f': '\f'}[d])
                i += 1
            elif d in '()\\':
                out.append(d)
                i += 1
            elif d == '\n':
                i += 1
            elif d == '\r':
                i += 1
                if i < n and s[i] == '\n':
                    i += 1
            elif d in '01234567':
                j = i
                v = 0
                while j < n and j < i + 3 and s[j] in '01234567':
                    v = v * 8 + int(s[j])
                    j += 1
                out.append(chr(v % 256))
                i = j
            else:
                out.append(d)
                i += 1
        elif c == '(':
            depth += 1
            out.append(c)
            i += 1
        elif c == ')':
            if depth == 0:
                return ''.join(out), i + 1
            depth -= 1
            out.append(c)
            i += 1
        elif c == '\r':
            out.append('\n')
            i += 1
            if i < n and s[i] == '\n':
                i += 1
        else:
            out.append(c)
            i += 1
    raise ValueError('unterminated literal string')


def parse_fdf(text):
    m = re.search(r'/Fields \[', text)
    if not m:
        raise ValueError('no /Fields')
    i = m.end()
    fields = []
    while True:
        j = text.find('<< /T (', i)
        end = text.find('\n] >> >>', i)
        if j < 0 or (0 <= end < j):
            break
        k, p = pdf_literal_decode(text, j + 7)
        if text[p:p + 5] != ' /V (':
            raise ValueError('bad entry near %r' % text[p:p + 20])
        v, p = pdf_literal_decode(text, p + 5)
        if text[p:p + 3] != ' >>':
            raise ValueError('bad entry end near %r' % text[p:p + 20])
        fields.append((k, v))
        i = p + 3
    return fields


def body_of(text, pf):
    return text[len(pf.fdf_header):len(text) - len(pf.fdf_footer)]


def real_fills(ck, H, pf, rng, tier, label):
    """real solved returns through the real PDFFiller with pdftk replaced by a recorder: forms filled, their order, and every FDF entry
    decoded by an independent reader against the text the mapping assigns to the box ('' for a line the solution does not hold)"""
    # ---------------- (b) real fills with a stand-in pdftk
    n_sc = 12 if tier == 'quick' else 150
    kinds = {}
    for (year, forms, sseed, prof) in scenarios.scenario_stream(rng, 14 * n_sc):
        if kinds.get('filled', 0) >= n_sc:
            break
        if rng.random() < 0.6 and not prof.get('overrides'):
            forms = ['1040', 'nc_d-400']
        advs = {}
        pol = scenarios.Policy(sseed, dict(prof, year=year), prof.get('overrides'))
        if prof.get('overrides'):
            forms = list(prof.get('forms', forms))
        orig_answer = pol.answer

        def answer(inp, H_, pol=pol, orig=orig_answer):
            if type(inp) is H_['inputs'].StringInput and 'initial' not in inp.base_name() and rng.random() < 0.5:
                a = rng.choice(ADVERSARIAL).replace('\n', ' ').replace('\r', ' ')
                return a
            return orig(inp, H_)
        pol.answer = answer
        res = scenarios.run_scenario(H, year, forms, sseed, prof, policy=pol)
        if res['exc'] is not None or not res['ok']:
            kinds['unsolved'] = kinds.get('unsolved', 0) + 1
            continue
        solution = res['solver'].solution()
        captured = []

        def fake_run(cmd, check=True, **kw):
            rec = {'cmd': list(cmd)}
            if 'fill_form' in cmd:
                with open(cmd[cmd.index('fill_form') + 1], newline='') as f:
                    rec['fdf'] = f.read()
            captured.append(rec)
            return types.SimpleNamespace(returncode=0)
        p = pf.PDFFiller(solution, H['forms'].available_forms[year], os.path.join(ck.build, 'out.pdf'))
        old = pf.subprocess.run
        pf.subprocess.run = fake_run
        exc = None
        try:
            p.fill()
        except Exception as e:  # noqa
            exc = e
        finally:
            pf.subprocess.run = old
        ck.count(('fill', year, sseed), nontrivial=len(captured) > 2)
        if exc is not None:
            kinds[type(exc).__name__] = kinds.get(type(exc).__name__, 0) + 1
            if not isinstance(exc, (H['pdf_fields'].PDFValueTooLong, H['pdf_fields'].PDFInvalidChoiceValue)):
                ck.violation(label + ':%d:fill-raised-%s' % (year, type(exc).__name__), 'ty%d fill raised %r' % (year, exc),
                             {'kind': 'failing-input', 'year': year, 'forms': forms, 'seed': sseed, 'profile': prof}, found=True)
            continue
        kinds['filled'] = kinds.get('filled', 0) + 1
        # which forms, in which order
        want = [f for f in p.forms if f.needs_filing(p._values)]
        want.sort(key=lambda f: (f.jurisdiction, f.sequence_no))
        fills = [c for c in captured if 'fill_form' in c['cmd']]
        got_names = [os.path.basename(c['cmd'][c['cmd'].index('output') + 1])[:-4] for c in fills]
        probs = []
        if got_names != [f.name() for f in want]:
            probs.append('forms filled %s, expected %s' % (got_names, [f.name() for f in want]))
        for f in p.forms:
            if (f.pdf_file() is None or isinstance(f, H['form'].InputForm)) and f.name() in got_names:
                probs.append('worksheet / input-only form %s was filled' % f.name())
        if len(set(got_names)) != len(got_names):
            probs.append('a form was filled twice')
        cat = [c for c in captured if 'cat' in c['cmd']]
        if len(cat) != 1 or [os.path.basename(x)[:-4] for x in cat[0]['cmd'][1:cat[0]['cmd'].index('cat')]] != got_names:
            probs.append('the final concatenation does not list the filled forms in order')
        # each FDF decodes to the mapped text
        for c, f in zip(fills, want):
            try:
                dec = dict(parse_fdf(c['fdf']))
            except Exception as e:  # noqa
                probs.append('the FDF of %s is not parsable: %r' % (f.name(), e))
                continue
            for pdf_field in f.pdf_fields():
                fname = pdf_field.field_name if '.' in pdf_field.field_name else '%s.%s' % (f.name(), pdf_field.field_name)
                try:
                    v = p._values[fname]
                    want_s = pdf_field.value(v, p._field_map[fname])
                except H['values'].UnmetDependency:
                    want_s = ''
                if dec.get(pdf_field.pdf_field_name) != want_s:
                    probs.append('%s box %s decodes to %r, mapped text is %r' % (f.name(), pdf_field.pdf_field_name,
                                                                                   dec.get(pdf_field.pdf_field_name), want_s))
                    break
        for pr in probs[:2]:
            ck.violation(label + ':%d:%s' % (year, '-'.join(re.sub(r'[^a-z ]+', ' ', pr.lower()).split()[:4])), 'ty%d: %s' % (year, pr),
                         {'kind': 'failing-input', 'year': year, 'forms': forms, 'seed': sseed, 'profile': prof, 'problems': probs[:4]}, found=True)
    ck.cov['fill_outcomes'] = kinds


def run(tier, seed):
    ck = Check('C19', tier, seed)
    rng = random.Random(seed + 19)
    ck.rule = ('(a) data = dict of adversarial printable-ASCII (+CR/LF/TAB) names and values through the real _create_fdf and the model writer; '
               '(b) fill = real solution of a seeded scenario with adversarial text in every string input, filled with a stand-in pdftk; '
               'non-trivial = data containing a parenthesis or backslash / fill with >= 2 forms')
    ck.trusted = ['Coq 8.16.1 kernel', 'coq/FDF.v: hand model of _fdf_string/_create_fdf and of ISO 32000-1 7.3.4.2 (the decoder is the specification)',
                  'pdftk itself is replaced by a capturing stand-in: what pdftk does with the FDF is not verified',
                  'non-ASCII text (encoding of the FDF file) is outside the property and the model']
    sf.compile_props(ck, 'C19')
    H = scenarios.habutax_modules()
    pf = H['pdf_filler']
    filler = pf.PDFFiller(configparser.ConfigParser(), [], 'out.pdf')
    # ---------------- (a) writer correspondence + independent decode
    datasets = []
    for _ in range(200 if tier == 'quick' else 3000):
        n = rng.randrange(1, 5)
        d = {}
        for _ in range(n):
            k = rng.choice(['f1_1[0]', 'topmostSubform[0].Page1[0].f1_2[0]', 'c(1)', 'n\\m']) + str(len(d))
            v = rng.choice(ADVERSARIAL) + rng.choice(ADVERSARIAL) if rng.random() < 0.6 else ''.join(
                rng.choice('ab()\\\\ \'"%') for _ in range(rng.randrange(0, 40)))
            d[k] = v
        datasets.append(d)
    path = os.path.join(ck.build, 'probe.fdf')
    rows = []
    bodies = []
    for d in datasets:
        filler._create_fdf(d, path)
        with open(path, newline='') as f:
            text = f.read()
        bodies.append(body_of(text, pf))
        nontriv = any(c in ''.join(list(d) + list(d.values())) for c in '()\\')
        ck.count(('data', tuple(d.items())), nontrivial=nontriv)
        try:
            got = parse_fdf(text)
        except Exception as e:  # noqa
            got = 'unparsable: %r' % (e,)
        if got != list(d.items()):
            bad = got if isinstance(got, str) else [(a, b) for a, b in zip(got, d.items()) if a != b][:2]
            ck.violation('C19:fdf-does-not-decode-to-the-mapped-text', 'the FDF written for %r decodes to %r' % (list(d.items())[:2], bad),
                         {'kind': 'failing-input', 'data': d, 'decoded': got, 'fdf_body': bodies[-1][:400]}, found=True)
        rows.append('[%s]' % '; '.join('(%s, %s)' % (cs(k), cs(v)) for k, v in d.items()))
    txt = ['From Coq Require Import List String Ascii ZArith.', 'From HV Require Import FDF FDFProofs.', 'Import ListNotations.',
           'Open Scope string_scope.',
           'Definition sc (l:list nat) : string := string_of_list_ascii (map ascii_of_nat l).',
           'Definition out (s:string) : list nat := map nat_of_ascii (list_ascii_of_string s).',
           'Goal True. idtac "@@B". Abort.',
           'Eval vm_compute in map (fun d => out (body d)) [%s].' % ';\n '.join(rows)]
    ok, out = ck.coqc(ck.write_gen('fdf_cases.v', '\n'.join(txt) + '\n'), timeout=600)
    dis = 0
    if ok:
        seg = out.split('@@B', 1)[1].split(': list (list nat)')[0].split('\n', 1)[1]
        lists = re.findall(r'\[([^\[\]]*)\]', seg)
        model_bodies = [''.join(chr(int(x)) for x in re.findall(r'\d+', l)) for l in lists]
        for mb, rb, d in zip(model_bodies, bodies, datasets):
            if mb != rb:
                dis += 1
                if dis <= 3:
                    ck.notes.append('writer model/code disagreement on %r: model %r code %r' % (d, mb[:120], rb[:120]))
        if len(model_bodies) != len(bodies):
            dis += 1
    ck.oblige('correspondence:fdf-writer-model (%d data sets)' % len(datasets), ok and dis == 0, (out[-300:] if not ok else '%d disagreements' % dis))
    real_fills(ck, H, pf, rng, tier, 'C19')
    # ---------------- too long / bad choice on the real field classes
    PF = H['pdf_fields']

    class Fld(object):
        def to_string(self, v):
            return str(v)
    t = PF.TextPDFField('box', 'l', max_length=5)
    try:
        r = t.value('123456', Fld())
        ck.violation('C19:too-long-value-not-rejected', 'a 6-character value for a 5-character box gave %r' % (r,),
                     {'kind': 'failing-input', 'value': '123456', 'max_length': 5}, found=True)
    except PF.PDFValueTooLong:
        pass
    if t.value('12345', Fld()) != '12345':
        ck.violation('C19:value-altered', 'a fitting value was altered', {'kind': 'failing-input'}, found=True)
    c = PF.ChoicePDFField('box', 'l', ['A', 'B'])
    try:
        r = c.value('C', Fld())
        ck.violation('C19:bad-choice-not-rejected', 'choice C outside [A, B] gave %r' % (r,), {'kind': 'failing-input'}, found=True)
    except PF.PDFInvalidChoiceValue:
        pass
    ck.count(('checks', 'too-long'), nontrivial=True)
    # every shipped text mapping that declares a length limit: a longer value raises, a fitting one passes unchanged (whatever value function it has)
    import gen_forms as _gf
    import pdf_reader as _pr
    n_limits = 0
    seq_checked = 0
    for y in common.YEARS:
        for cls in H['forms'].available_forms[y]:
            try:
                obj = cls(instance=_gf.instances_of(cls)[0])
                pfs = obj.pdf_fields()
            except Exception:  # noqa
                continue
            for pf_ in pfs:
                ml = getattr(pf_, 'max_length', None)
                if not isinstance(pf_, PF.TextPDFField) or not ml:
                    continue
                n_limits += 1
                long_v = 'X' * (ml + 7)
                try:
                    r = pf_.value(long_v, Fld())
                    ck.violation('C19:%d:%s:%s:too-long-accepted' % (y, cls.form_name, pf_.pdf_field_name),
                                 'ty%d %s box %s (limit %d): a %d-character value is not refused but written as %r' % (
                                     y, cls.form_name, pf_.pdf_field_name, ml, len(long_v), r),
                                 {'kind': 'failing-input', 'year': y, 'form': cls.form_name, 'box': pf_.pdf_field_name, 'line': pf_.field_name,
                                  'max_length': ml, 'value': long_v, 'written': r}, found=True)
                except PF.PDFValueTooLong:
                    pass
                except Exception:  # noqa  (a value function that needs a real line object)
                    pass
            # the order in which forms are attached: the sequence number the class declares is the one printed on the IRS template
            if obj.pdf_file() and str(obj.pdf_file()).endswith('.pdf'):
                try:
                    data = open(obj.pdf_file(), 'rb').read()
                except Exception:  # noqa
                    continue
                printed = None
                for num, hdr, body in _pr._streams(data):
                    m_ = re.search(rb'Attachment\s*(?:</[^>]+>\s*<[^>]+>\s*)*Sequence\s*No\.?\s*(?:</[^>]+>\s*<[^>]+>\s*)*([0-9]+[A-Z]?)', body)
                    if m_:
                        printed = m_.group(1).decode()
                        break
                if printed is not None and printed.isdigit():
                    seq_checked += 1
                    ck.count((y, cls.form_name, 'sequence'), nontrivial=True)
                    if int(printed) != int(getattr(cls, 'sequence_no', -1)):
                        ck.violation('C19:%d:%s:sequence-number' % (y, cls.form_name),
                                     'ty%d %s declares attachment sequence number %r; the IRS template prints %s (forms are attached in this order)' % (
                                         y, cls.form_name, getattr(cls, 'sequence_no', None), printed),
                                     {'kind': 'failing-input', 'year': y, 'form': cls.form_name, 'declared': getattr(cls, 'sequence_no', None), 'template': printed,
                                      'how': 'any return that files this form together with one whose number lies between the two values is attached out of order'}, found=True)
    ck.cov['length_limited_text_boxes'] = n_limits
    ck.cov['sequence_numbers_compared_with_templates'] = seq_checked
    ck.sample({'data': datasets[3], 'fdf_body': bodies[3][:200]})
    return sf.finish_family(ck, 'C19')


def cs(s):
    return 'sc [%s]' % '; '.join(str(ord(c)) for c in s)
