"""C13 — prompting is demand-exact; written-back answers make the run repeatable."""
import os
import random
import re

from . import solverfam as sf, solvercorr as sc, scenarios
from .common import Check


def mon_generated(H, R, case):
    out = []
    if not hasattr(R, 'solver'):
        return out
    asked = []
    for ev in R.trace:
        if ev[0] != 'prompt':
            continue
        if not ev[4]:
            out.append('prompted for %s although the input file supplies it' % ev[1])
        if not ev[3]:
            out.append('prompted for %s with no line quoted as needing it' % ev[1])
        if not ev[5]:
            out.append('prompted for %s but a quoted line does not block on it' % ev[1])
        if ev[1] in asked:
            out.append('prompted twice for %s' % ev[1])
        asked.append(ev[1])
    if out or R.exc is not None:
        return out
    refused = any(ev[0] == 'prompt' and ev[2] == 0 for ev in R.trace)
    # write back, re-run
    final_inputs = {}
    cfg = R.store.config
    for sec in cfg.sections():
        for opt in cfg.options(sec):
            final_inputs['%s.%s' % (sec, opt)] = cfg.get(sec, opt)
    if not refused:
        R2 = sc.exec_case(case, H, inputs=final_inputs, prompt={} if case['prompt'] is not None else None)    # any prompt call is recorded and refused
        if any(ev[0] == 'prompt' for ev in R2.trace):
            out.append('re-run on the written-back inputs prompted again for %s' % [e[1] for e in R2.trace if e[0] == 'prompt'][:3])
        elif sf.snapshot(H, R2.solver, R2.ok, R2.exc) != sf.snapshot(H, R.solver, R.ok, R.exc):
            out.append('re-run on the written-back inputs gave a different result')
        # inputs never read are not required
        kept = {k: v for k, v in final_inputs.items() if k in R.inputs_read}
        if R.ok and len(kept) < len(final_inputs):
            R3 = sc.exec_case(case, H, inputs=kept, prompt=None)
            if sf.snapshot(H, R3.solver, R3.ok, R3.exc) != sf.snapshot(H, R.solver, R.ok, R.exc):
                out.append('dropping inputs that no line read changed the result')
    return out


def run(tier, seed):
    ck = Check('C13', tier, seed)
    rng = random.Random(seed + 13)
    ck.rule = ('history = solve (scripted prompt) -> write back -> solve, on seeded random catalogues and real-form scenarios; at every '
               'prompt the quoted lines are re-evaluated on the spot and must block on exactly that input; non-trivial = run with >= 1 '
               'prompt; distinct by content')
    ck.trusted = list(sf.BASE_TRUST) + ['configparser.write/read of the input file is exercised by the real-CLI replays (C20), not modelled']
    sf.compile_props(ck, 'C13')
    n_nat, n_perm, n_real = (1200, 300, 24) if tier == 'quick' else (12000, 3000, 300)
    cases, dis_cases = sf.correspondence(ck, rng, n_nat, n_perm)
    H = sc._habutax()
    sf.run_generated_monitor(ck, H, dis_cases + cases, mon_generated, 'C13')

    # real forms: prompt-time checks + rerun
    Hr = scenarios.habutax_modules()
    kinds = {}
    for (year, forms, sseed, prof) in scenarios.scenario_stream(rng, n_real):
        probs = []

        def on_prompt(missing, needed_by, store, res):
            if store.provides(missing):
                probs.append('prompted for %s although it is supplied' % missing.name())
            if not needed_by:
                probs.append('prompted for %s with no line quoted' % missing.name())
            for f in needed_by:
                k = sf.eval_field(Hr, res['solver'], f, store)
                if k[0] != 'needi' or k[1] != missing.name():
                    probs.append('prompted for %s but quoted line %s does not block on it (%s %s)' % (missing.name(), f.name(), k[0], k[1]))
        res = scenarios.run_scenario(Hr, year, forms, sseed, prof, on_prompt=on_prompt)
        names = [a[0] for a in res['policy'].asked]
        if len(set(names)) != len(names):
            probs.append('an input was asked twice')
        ck.count(('real', year, sseed), nontrivial=len(names) > 0)
        kinds['abort' if res['exc'] is not None else ('solved' if res['ok'] else 'failed')] = kinds.get(
            'abort' if res['exc'] is not None else ('solved' if res['ok'] else 'failed'), 0) + 1
        if res['exc'] is None and not probs:
            final_inputs = {}
            cfg = res['store'].config
            for sec in cfg.sections():
                for opt in cfg.options(sec):
                    final_inputs['%s.%s' % (sec, opt)] = cfg.get(sec, opt, raw=True)
            asked2 = []
            # the written-back file itself: InputStore.write, then habutax's own reader on the next run
            wb = os.path.join(ck.build, 'writeback.ini')
            res['store'].write(wb)
            res2 = scenarios.run_scenario(Hr, year, forms, sseed, prof, initial_file=wb,
                                          on_prompt=lambda m, nb, st, r: asked2.append(m.name()))
            if asked2:
                probs.append('re-run on the written-back inputs prompted again for %s' % asked2[:3])
            elif sf.snapshot(Hr, res2['solver'], res2['ok'], res2['exc']) != sf.snapshot(Hr, res['solver'], res['ok'], res['exc']):
                probs.append('re-run on the written-back inputs gave a different result')
            if res['ok']:
                kept = {k: v for k, v in final_inputs.items() if k in res['inputs_read']}
                res3 = scenarios.run_scenario(Hr, year, forms, sseed, prof, initial=kept, refuse_after=0)
                if sf.snapshot(Hr, res3['solver'], res3['ok'], res3['exc']) != sf.snapshot(Hr, res['solver'], res['ok'], res['exc']):
                    probs.append('dropping inputs that no line read changed the result')
        for p in probs[:2]:
            ck.violation('C13:real:%d:%s' % (year, '-'.join(re.sub(r'[^a-z ]+', ' ', p.lower()).split()[:4])), p,
                         {'kind': 'failing-input', 'year': year, 'forms': forms, 'seed': sseed, 'profile': prof,
                          'problems': probs[:5]}, found=True)
    # the real CLI entry point (habutax.solve with --prompt-missing --writeback-input, stdin scripted): a complete session, then the same
    # file with a few answers deleted INSIDE their sections (every section still present), then the file that session wrote back
    from . import c20
    import configparser
    workdir = os.path.join(ck.build, 'cli_sessions')
    os.makedirs(workdir, exist_ok=True)
    cli_kinds = {}
    class Replaying(object):
        """answers a question the way the first session answered it (the policy's own stream depends on the order of the questions)"""
        def __init__(self, fixed, pol):
            self.fixed, self.pol = fixed, pol

        def answer(self, inp, H):
            return self.fixed[inp.name()] if inp.name() in self.fixed else self.pol.answer(inp, H)
    import itertools
    for idx, (year, forms, sseed, prof) in enumerate(itertools.islice(scenarios.scenario_stream(random.Random(seed + 1313), 40), 4 if tier == 'quick' else 24)):
        path = os.path.join(workdir, 'cli_%d.ini' % idx)
        open(path, 'w').close()
        pol = lambda: scenarios.Policy(sseed, dict(prof, year=year), None)  # noqa
        s1 = c20.Script(Hr, year, pol())
        exc1, _ = c20.cli_session(Hr, year, forms, path, s1)
        if exc1 is not None or not s1.asked:
            cli_kinds['first session aborted'] = cli_kinds.get('first session aborted', 0) + 1
            continue
        sol1 = c20.read_file(path + '.solution') if os.path.exists(path + '.solution') else None      # values by section and key: the order of the lines in the file follows the order of solving
        probs = []
        cp = configparser.ConfigParser(interpolation=None)
        cp.read(path)
        prng = random.Random(sseed)
        # delete answers whose section keeps at least one other key
        cands = [(n.split('.')[0], n.split('.')[1]) for (n, a) in s1.asked if cp.has_section(n.split('.')[0]) and len(cp.options(n.split('.')[0])) > 1]
        prng.shuffle(cands)
        deleted = []
        for sec, opt in cands[:4]:
            if cp.has_option(sec, opt) and len(cp.options(sec)) > 1:
                cp.remove_option(sec, opt)
                deleted.append('%s.%s' % (sec, opt))
        with open(path, 'w') as f:
            cp.write(f)
        first = {n: a for (n, a) in s1.asked}
        s2 = c20.Script(Hr, year, Replaying(first, pol()))
        exc2, _ = c20.cli_session(Hr, year, forms, path, s2)
        asked2 = [n for (n, a) in s2.asked]
        extra_asked = [n for n in asked2 if n.lower() not in [d.lower() for d in deleted]]
        if extra_asked:
            probs.append('the CLI asked for inputs that the file supplies: %s' % extra_asked[:3])
        s3 = c20.Script(Hr, year, Replaying(first, pol()))
        exc3, _ = c20.cli_session(Hr, year, forms, path, s3)
        if exc2 is None and s3.asked:
            probs.append('after a CLI run with write-back (answers added inside existing sections) the re-run asked again for %s' % [n for n, a in s3.asked][:3])
        sol3 = c20.read_file(path + '.solution') if os.path.exists(path + '.solution') else None
        if exc2 is None and exc3 is None and not s3.asked and sol1 is not None and sol3 != sol1:
            probs.append('the CLI re-run on the written-back file produced a different solution file')
        ck.count(('cli', year, sseed), nontrivial=bool(deleted) and bool(asked2))
        cli_kinds['three-session round'] = cli_kinds.get('three-session round', 0) + 1
        for p in probs[:2]:
            ck.violation('C13:cli:%d:%s' % (year, '-'.join(re.sub(r'[^a-z ]+', ' ', p.lower()).split()[:5])), p,
                         {'kind': 'failing-input', 'year': year, 'forms': forms, 'seed': sseed, 'profile': prof, 'deleted_from_file': deleted,
                          'asked_second_session': asked2[:10], 'asked_third_session': [n for n, a in s3.asked][:10],
                          'how': 'habutax.solve(args) with prompt_missing and writeback_input, stdin scripted (vlib/c20.cli_session)'}, found=True)
    ck.cov['cli_sessions'] = cli_kinds
    ck.cov['real_form_scenarios'] = kinds
    ck.sample({'generated_case': cases[1]})
    return sf.finish_family(ck, 'C13')
