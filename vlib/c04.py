"""C04 — a solution is exactly the demand closure of the requested forms."""
import random
from . import solverfam as sf, solvercorr as sc
from .common import Check


def run(tier, seed):
    ck = Check('C04', tier, seed)
    rng = random.Random(seed + 4)
    ck.rule = ('case = seeded random catalogue or real-form scenario; the demand closure is recomputed independently in Python by '
               're-evaluating lines through read-recording wrappers on the final stores and compared with the keys/forms of the '
               'solution; non-trivial = run that pulls in at least one form or line not requested; distinct by JSON text')
    ck.trusted = list(sf.BASE_TRUST) + [
        'cat_wf: a line listed by form F is named "F.line" (true of habutax names by construction, form.py:204-207)']
    sf.compile_props(ck, 'C04')
    n_nat, n_perm, n_real = (1200, 300, 45) if tier == 'quick' else (12000, 3000, 600)
    cases, dis_cases = sf.correspondence(ck, rng, n_nat, n_perm)
    H = sc._habutax()

    def mon(H, R, case):
        if not hasattr(R, 'solver'):
            return []
        return sf.mon_c04(H, R.solver, R.ok, R.store, R.exc, case['request'], case['fields'])
    sf.run_generated_monitor(ck, H, dis_cases + cases, mon, 'C04')
    sf.run_real_monitor(ck, n_real, rng,
                        lambda H, res, sc_: sf.mon_c04(H, res['solver'], res['ok'], res['store'], res['exc'], sc_[1], ()), 'C04')
    ck.sample({'generated_case': cases[len(cases) // 5]})
    return sf.finish_family(ck, 'C04')
