"""C10 — every name a form definition can refer to resolves.

 regen   tools/gen_forms.py: every line body of every form of every year -> deep embedding (fail-closed)
 prove   Gen/C10_<y>.v : names_ok cat decls absent known = true   (kernel computes the reference analysis of
         coq/FormsRefs.v over the regenerated ASTs: all syntactic paths, loop variables over constants expanded,
         open holes only in instance position)
 tie     translator validation (the same ASTs re-evaluate real solutions line by line)
 search  bad references are reported with file:line (the property is static: the witness is the path); real-form
         scenarios are run and any AssertionError / AttributeError / RecursionError / RuntimeError / KeyError leaving
         solve() is a dynamic witness
"""
import json
import os
import random
import re

from . import common, scenarios, catalog, solverfam as sf
from .common import Check

import gen_forms  # noqa (path set by catalog)


def decls_text(H, year, summ):
    InputForm = H['form'].InputForm
    rows = []
    for cls in H['forms'].available_forms[year]:
        f = summ['forms'][cls.form_name]
        vi = list(getattr(cls, 'valid_instances', []) or [])
        rows.append('(%s, FDecl %s %s %s %s %s)' % (
            gen_forms.cstr(cls.form_name),
            gen_forms.clist([gen_forms.cstr(x) for x in f['lines']]),
            gen_forms.clist([gen_forms.cstr(x) for x in f['inputs']]),
            gen_forms.clist([gen_forms.cstr(x) for x in f['thresholds']]),
            gen_forms.clist([gen_forms.cstr(x) for x in vi]),
            'true' if issubclass(cls, InputForm) else 'false'))
    return rows


def run(tier, seed):
    ck = Check('C10', tier, seed)
    rng = random.Random(seed + 10)
    ck.rule = ('obligation = (year, form, line): all references on all syntactic paths of the regenerated AST resolve; evaluated '
               'exhaustively over every line of every year inside the kernel. Support: real-form scenarios, any internal error '
               'leaving solve() is a dynamic witness; non-trivial = line with at least one reference')
    ck.trusted = ['Coq 8.16.1 kernel + vm_compute', 'tools/gen_forms.py (ast translator, fail-closed) - tied by translator validation',
                  'coq/FormsRefs.v reference analysis: soundness w.r.t. the interpreter is proved for the arithmetic fragment only '
                  '(Footprint.footprint_complete + C10_footprint_<y>: a line of the fragment evaluates to a value on every store that holds its '
                  'footprint, and the footprint is among the collected references); for the other lines it is argued (the analysis and the '
                  'interpreter share the AST; every ERead/EThreshold node is visited, loop variables are widened to their constant source or to an open hole)',
                  'oracles/absent_forms.json: forms deliberately not implemented']
    H = scenarios.habutax_modules()
    summ = catalog.generate(ck, H)
    absent = json.load(open(os.path.join(common.ROOT, 'oracles', 'absent_forms.json')))
    findings = [f for f in ck.findings if f.get('property') == 'C10']
    files = []
    wfiles = []
    for y, s in summ.items():
        known = [(f['where']['form'], f['where']['line']) for f in findings
                 if f.get('status') == 'open' and f.get('where', {}).get('year') == y]
        txt = ['From Coq Require Import ZArith QArith List String Bool.', 'From HV Require Import Forms FormsRefs Footprint.',
               'From Gen Require Import Forms%d.' % y, 'Import ListNotations.', 'Open Scope string_scope.',
               'Definition decls : decls := %s.' % gen_forms.clist(decls_text(H, y, s)),
               'Definition absent : absent_forms := %s.' % gen_forms.clist([gen_forms.cstr(x) for x in absent[str(y)]]),
               'Definition known : list (string * string) := %s.' % gen_forms.clist(
                   ['(%s, %s)' % (gen_forms.cstr(a), gen_forms.cstr(b)) for a, b in known]),
               'Goal True. idtac "@@BAD". Abort.',
               'Eval vm_compute in bad_refs cat decls absent.',
               'Goal True. idtac "@@NREFS". Abort.',
               'Eval vm_compute in (List.length (flat_map (fun f => flat_map (line_refs []) (f_lines f)) cat), List.length (flat_map f_lines cat)).',
               'Theorem C10_names_ok_%d : names_ok cat decls absent known = true.' % y,
               'Proof. vm_compute. reflexivity. Qed.',
               'Goal True. idtac "@@PA C10_names_ok_%d". Abort.' % y, 'Print Assumptions C10_names_ok_%d.' % y,
               # the analysis against the interpreter, on the arithmetic fragment: every name of a line's footprint is a collected reference
               'Goal True. idtac "@@FOOT". Abort.',
               'Eval vm_compute in (let cl := footprint_classes cat decls in (List.length (filter (Nat.eqb 1) cl), List.length (filter (Nat.eqb 2) cl), List.length cl)).',
               'Theorem C10_footprint_%d : footprint_covered cat decls = true.' % y,
               'Proof. vm_compute. reflexivity. Qed.',
               'Goal True. idtac "@@PA C10_footprint_%d". Abort.' % y, 'Print Assumptions C10_footprint_%d.' % y]
        files.append((y, known, ck.write_gen('C10_%d.v' % y, '\n'.join(txt) + '\n')))
        # soundness of the collection against the interpreter, for EVERY line (RefsSound.v): a name a line can wait for is a collected reference
        wtxt = ['From Coq Require Import ZArith QArith List String Bool.', 'From HV Require Import Forms FormsRefs RefsSound.',
                'From Gen Require Import Forms%d.' % y, 'Import ListNotations.', 'Open Scope string_scope.',
                'Definition decls : decls := %s.' % gen_forms.clist(decls_text(H, y, s)),
                'Theorem C10_waits_collected_%d : forall f l, In f cat -> In l (f_lines f) -> forall c fuel, (forall q st, noneed (x_tax c q st)) ->' % y,
                '  waits_collected c (vi_of decls f) fuel l.',
                'Proof. apply catalogue_waits_collected. vm_compute. reflexivity. Qed.',
                'Goal True. idtac "@@PA C10_waits_collected_%d". Abort.' % y, 'Print Assumptions C10_waits_collected_%d.' % y]
        wfiles.append((y, ck.write_gen('C10_waits_%d.v' % y, '\n'.join(wtxt) + '\n')))
    res_w = ck.coqc_many([f for _, f in wfiles], timeout=900)
    for y, f in wfiles:
        ok, out = res_w[f]
        ck.harvest_assumptions(out)
        ck.oblige('theorem:C10_waits_collected_%d (every line of the catalogue, every store: a name the interpreter waits for was collected by the analysis; an attribute error or a failed threshold assertion comes only from a node the analysis collected)' % y, ok, out[-300:] if not ok else '')
        if not ok:
            ck.violation('C10:%d:waits-collected' % y, 'ty%d: the reference analysis ran out of its fuel on some line, so its collection is not known to cover what the interpreter can ask for' % y,
                         {'kind': 'proof-or-correspondence', 'theorem_or_correspondence': 'C10_waits_collected_%d' % y}, found=False)
    res = ck.coqc_many([f for _, _, f in files], timeout=900)
    for y, known, f in files:
        ok, out = res[f]
        ck.harvest_assumptions(out)
        bad = []
        if '@@BAD' in out:
            seg = out.split('@@BAD', 1)[1].split('@@', 1)[0]
            bad = re.findall(r'\("([^"]*)",\s*"([^"]*)",\s*(\d+)(?:%nat)?\)', seg)
        m = re.search(r'@@NREFS\s*=\s*\((\d+)(?:%nat)?,\s*(\d+)', out)
        if m:
            ck.cov.setdefault('references_analysed', {})[str(y)] = {'references': int(m.group(1)), 'lines': int(m.group(2))}
            ck.count(('refs', y), n=int(m.group(2)))
        mf = re.search(r'@@FOOT\s*=\s*\((\d+)(?:%nat)?,\s*(\d+)(?:%nat)?,\s*(\d+)', out)
        if mf:
            ck.cov.setdefault('footprint_vs_interpreter', {})[str(y)] = {
                'lines_in_arithmetic_fragment_footprint_covered': int(mf.group(1)), 'footprint_not_covered': int(mf.group(2)), 'lines': int(mf.group(3))}
            ck.oblige('theorem:C10_footprint_%d (%s lines: every name the interpreter can ask for is a collected reference)' % (y, mf.group(1)),
                      ok and int(mf.group(2)) == 0, '')
            if int(mf.group(2)) > 0:
                ck.violation('C10:%d:footprint' % y, 'ty%d: %s line(s) of the arithmetic fragment read a name that the reference analysis did not collect' % (y, mf.group(2)),
                             {'kind': 'proof-or-correspondence', 'theorem_or_correspondence': 'C10_footprint_%d' % y}, found=False)
        unknown = [(a, b, n) for (a, b, n) in bad if (a, b) not in known]
        ck.oblige('theorem:C10_names_ok_%d%s' % (y, ' (modulo %d known findings)' % len(known) if known else ''), ok and not unknown,
                  out[-300:] if not ok else '')
        for (a, b, n) in bad:
            info = summ[y]['forms'].get(a, {}).get('lines', {}).get(b, {})
            refs = [''.join(t if k == 'lit' else '{*}' for k, t in parts) for (kind, parts, ln) in info.get('refs', [])]
            ck.nontrivial.add((y, a, b))
            ck.violation('C10:%d:%s.%s' % (y, a, b),
                         'ty%d %s line %s: %s reference(s) do not resolve on some syntactic path (%s:%s)' % (
                             y, a, b, n, os.path.relpath(info.get('file', '?'), common.REPO), info.get('lineno', '?')),
                         {'kind': 'static-path', 'year': y, 'form': a, 'line': b, 'file': info.get('file'), 'lineno': info.get('lineno'),
                          'references_of_the_line': refs}, found=True)
        ck.sample({'year': y, 'bad_reference_lines': bad[:5]})
    # references into forms that are neither catalogued nor listed as deliberately absent are caught by names_ok above.
    # ---- tie: translator validation + dynamic monitor
    n_real = 30 if tier == 'quick' else 400
    results = []
    INTERNAL = (AssertionError, AttributeError, RecursionError, RuntimeError, KeyError, NameError, IndexError)
    stream = list(scenarios.scenario_stream(rng, n_real))
    # a dependent form requested on its own (its inputs and lines pull the other forms in on demand)
    for (y_, fm_, sd_, pf_) in scenarios.special_scenarios():
        if sd_ == 9003:
            stream.append((y_, ['nc_d-400'], sd_, pf_))
        if sd_ == 9004:
            stream.append((y_, ['1040_sa'], sd_, pf_))
    # four dependents (the most the forms have rows for)
    for y_ in common.YEARS:
        stream.append((y_, ['1040'], 777, {'status': 'MarriedFilingJointly', 'amounts': 'cents', 'wages': 30000, 'n_w2': 1, 'itemize': False, 'foreign': False,
                                         'n_dep': 4, 'n_u17': 2, 'others': False, 'zero_frac': 0.8, 'benign_true': 0.5, 'overrides': {'principal_abode_us': 'yes'}}))
    for (year, forms, sseed, prof) in stream:
        class S(H['solver'].Solver):
            def _attempt_field(self, field):
                self.last = field.name()
                return super()._attempt_field(field)
        res = scenarios.run_scenario(H, year, forms, sseed, prof, solver_cls=S)
        results.append((year, res))
        ck.count(('real', year, sseed), nontrivial=True)
        e = res['exc']
        if e is not None and isinstance(e, INTERNAL) and not isinstance(e, NotImplementedError):
            last = getattr(res['solver'], 'last', '?')
            # the key names the crash itself (line, exception, message): a known finding covers it only if it lists this very signature
            sig = re.sub(r'\s+', ' ', '%s:%s' % (type(e).__name__, str(e)))[:90]
            ck.violation('C10:%d:%s:run:%s' % (year, re.sub(r':\d+', '', last), sig),
                         'ty%d: evaluating %s raised %s (%s) instead of a value or a not-implemented report' % (
                             year, last, type(e).__name__, str(e)[:80]),
                         {'kind': 'failing-input', 'year': year, 'forms': forms, 'seed': sseed, 'profile': prof,
                          'line': last, 'exception': repr(e)[:300], 'answers': res['policy'].asked[:300]}, found=True)
    catalog.validate(ck, H, summ, [(y, r) for (y, r) in results if r['exc'] is None])
    return sf.finish_family(ck, 'C10')
