"""C09 — declaring an unsupported tax situation never yields a solved return.

 oracle  oracles/gates_<year>.json (frozen list of gate inputs) + numeric gates built into this check
 prove   (a) solver side: C01 (a demanded line that signals not-implemented prevents success) - compiled here again;
         (b) Gen/C09_<y>.v: for every (gate, line that reads it) the kernel classifies, by evaluating the regenerated line on the
             store that holds ONLY the gate: 'immediate' (the gate is the first thing the line consults and yes => not implemented;
             by monotonicity of evaluation this holds on every store) or 'path dependent' (something is consulted first);
             theorem C09_immediate_gates_<y>: every gate has at least one immediate line or is listed as path dependent
 search  every gate is flipped to yes in real-form scenarios that read it; the real solver must not report success; numeric
         gates (foreign tax over the Form 1116 limit, more payers than Schedule B rows, HSA contribution over the limit)
"""
import json
import os
import random
import re

from . import common, scenarios, catalog, solverfam as sf
from .common import Check

import gen_forms  # noqa


def readers_of(summ, gate):
    gform, gname = gate.split('.')
    out = []
    for fn, f in summ['forms'].items():
        for ln, l in f['lines'].items():
            for kind, parts, lineno in l['refs']:
                name = ''.join(b if a == 'lit' else '*' for a, b in parts)
                if kind == 'RI' and ((fn == gform and name == gname) or name == gate):
                    out.append((fn, ln))
                    break
                if kind == 'RV' and fn != gform and name == '%s:*.%s' % (gform, gname):
                    out.append((fn, ln))      # read through the input form's mirror line
                    break
    return out


def run(tier, seed):
    ck = Check('C09', tier, seed)
    ck.cov['explanation'] = ('The solver half (an unimplemented demanded line prevents success) is the C01 theorem; Gates.gate_sound proves that a line which '
                             'consults a gate first and refuses yields not-implemented on every store; C09_every_reader_refuses_<y> covers the gates ALL of '
                             'whose reading lines have that shape; StoreMono.line_value_mono (store monotonicity of the whole interpreter) lifts a refusal computed in the kernel on the store that holds only the gate to EVERY store '
                             '(C09_refusal_on_every_store_<y>, any shape of reader, helper functions included); the remaining gates are decided by flipping them to yes on real-form scenarios that read them.')
    rng = random.Random(seed + 9)
    ck.rule = ('case = (year, gate input, real-form scenario that reads it) with the gate flipped to yes, plus numeric-gate scenarios; '
               'obligation = (year, gate, reading line) classified in the kernel; non-trivial = scenario whose baseline (gate = no) solves')
    ck.trusted = ['Coq 8.16.1 kernel + vm_compute', 'tools/gen_forms.py (validated)', 'oracles/gates_<year>.json (frozen, curated)',
                  'monotonicity of the interpreter in the stores is a theorem (StoreMono.line_value_mono: a value or a refusal survives every enlargement of the stores)',
                  'path-dependent gates (something else is consulted before the gate) are decided by the flipped-gate runs only']
    sf.compile_props(ck, 'C01')
    H = scenarios.habutax_modules()
    summ = catalog.generate(ck, H)
    gates_by_year = {}
    files = []
    for y in summ:
        gates = json.load(open(os.path.join(common.ROOT, 'oracles', 'gates_%d.json' % y)))['gates']
        gates_by_year[y] = gates
        rows = []
        meta = []
        for g in gates:
            for (fn, ln) in readers_of(summ[y], g['input']):
                gform, gname = g['input'].split('.')
                qual = g['input'] if True else gname
                rows.append('(%s, %s, %s)' % (gen_forms.cstr(fn), gen_forms.cstr(ln), gen_forms.cstr(qual)))
                meta.append((g['input'], fn, ln))
        txt = [catalog.HEADER % {'y': y},
               'Definition rows : list (string * string * string) := %s.' % gen_forms.clist(rows),
               'Goal True. idtac "@@CLS". Abort.',
               'Eval vm_compute in map (fun r => gate_probe cat (tax_fn %d cfg) (fst (fst r)) (snd (fst r)) (snd r)) rows.' % y]
        files.append((y, meta, ck.write_gen('C09_cls_%d.v' % y, '\n'.join(txt) + '\n')))
    res = ck.coqc_many([f for _, _, f in files], timeout=600)
    thm_files = []
    every_files = []
    mono_now = {}
    classes = {}
    for y, meta, f in files:
        ok, out = res[f]
        if not ok:
            ck.oblige('classify-gates:%d' % y, False, out[-300:])
            continue
        seg = out.split('@@CLS', 1)[1].split(': list')[0]
        codes = [int(x) for x in re.findall(r'\d+', seg.replace('%nat', ''))]
        per_gate = {}
        for (g, fn, ln), c in zip(meta, codes):
            per_gate.setdefault(g, []).append((fn, ln, c))
        classes[y] = per_gate
        req = lambda fn, ln: summ[y]['forms'][fn]['lines'][ln]['required']  # noqa
        imm = [g for g, l in per_gate.items() if any(c == 0 and req(fn, ln) and fn == g.split('.')[0] for fn, ln, c in l)]
        unread = [g['input'] for g in gates_by_year[y] if g['input'] not in per_gate]
        ck.cov.setdefault('gate_classes', {})[str(y)] = {
            'gates': len(gates_by_year[y]),
            'static: a REQUIRED line of the gate\'s own form consults it first and yes => not implemented (every store)': len(imm),
            'dynamic_only': sorted(g for g in per_gate if g not in imm), 'not_read_by_any_line': unread}
        for g in unread:
            ck.violation('C09:%d:%s:unread' % (y, g), 'ty%d: gate %s of the frozen oracle is no longer read by any line' % (y, g),
                         {'kind': 'failing-input', 'year': y, 'gate': g}, found=True)
        # theorem over the immediate class
        rows = ['(%s, %s, %s)' % (gen_forms.cstr(fn), gen_forms.cstr(ln), gen_forms.cstr(g))
                for g in imm for (fn, ln, c) in per_gate[g] if c == 0 and req(fn, ln) and fn == g.split('.')[0]]
        txt = [catalog.HEADER % {'y': y},
               'Definition rows : list (string * string * string) := %s.' % gen_forms.clist(rows),
               'Theorem C09_immediate_gates_%d : forallb (fun r => (gate_probe cat (tax_fn %d cfg) (fst (fst r)) (snd (fst r)) (snd r) =? 0)%%nat) rows = true.' % (y, y),
               'Proof. vm_compute. reflexivity. Qed.',
               'Goal True. idtac "@@PA C09_immediate_gates_%d". Abort.' % y, 'Print Assumptions C09_immediate_gates_%d.' % y]
        thm_files.append((y, len(rows), ck.write_gen('C09_%d.v' % y, '\n'.join(txt) + '\n')))
        # store monotonicity (StoreMono.v): a refusal computed on the store holding ONLY the affirmative gate is a refusal on EVERY store;
        # over all (reader, gate) pairs of singleton forms, whatever the syntactic shape of the reader (helper functions, statements before the gate)
        numbered = {n[len('number_'):] for n in summ[y]['forms'].get('1040', {}).get('inputs', {}) if n.startswith('number_')}
        single = lambda fn: fn not in numbered and not summ[y]['forms'][fn].get('valid_instances')  # noqa
        erows_meta = [(g, fn, ln) for (g, fn, ln) in meta if single(fn)]
        erows = ['(%s, %s, %s)' % (gen_forms.cstr(fn), gen_forms.cstr(ln), gen_forms.cstr(g)) for (g, fn, ln) in erows_meta]
        etxt = [catalog.HEADER % {'y': y}, 'From HV Require Import StoreMono.',
                'Definition rows : list (string * string * string) := %s.' % gen_forms.clist(erows),
                'Definition refuses (r:string * string * string) : bool := gate_refuses cat (tax_fn %d cfg) (fst (fst r)) (snd (fst r)) (snd r).' % y,
                'Definition urows := filter refuses rows.',
                'Goal True. idtac "@@UROWS". Abort.', 'Eval vm_compute in map refuses rows.',
                'Theorem C09_refusal_on_every_store_%d : forall fn ln g, In (fn, ln, g) urows -> refuses_everywhere cat (tax_fn %d cfg) fn ln g.' % (y, y),
                'Proof. apply gate_rows_sound. exact (forallb_filter _ refuses rows). Qed.',
                'Goal True. idtac "@@PA C09_refusal_on_every_store_%d". Abort.' % y, 'Print Assumptions C09_refusal_on_every_store_%d.' % y]
        every_files.append((y, erows_meta, ck.write_gen('C09_everywhere_%d.v' % y, '\n'.join(etxt) + '\n')))
    res_e = ck.coqc_many([f for _, _, f in every_files], timeout=900)
    for y, emeta, f in every_files:
        ok, out = res_e[f]
        ck.harvest_assumptions(out)
        flags = re.findall(r'\b(true|false)\b', out.split('@@UROWS', 1)[1].split(': list')[0]) if ok and '@@UROWS' in out else []
        cov_g, all_g = {}, {}
        if len(flags) == len(emeta):
            for (g, fn, ln), fl in zip(emeta, flags):
                all_g.setdefault(g, []).append((fn, ln))
                if fl == 'true':
                    cov_g.setdefault(g, []).append((fn, ln))
        n_all = {g: len(readers_of(summ[y], g)) for g in all_g}
        every = sorted(g for g in all_g if len(cov_g.get(g, [])) == n_all[g])
        ck.cov.setdefault('gate_classes', {}).setdefault(str(y), {})['store monotonicity (theorem C09_refusal_on_every_store): reading lines that refuse on EVERY store with the gate affirmative, whatever their shape'] = {
            'reader_gate_pairs_covered': sum(len(v) for v in cov_g.values()), 'reader_gate_pairs': len(emeta),
            'gates_with_every_reader_covered': every}
        mono_now[y] = {g: sorted('%s.%s' % p for p in v) for g, v in cov_g.items()}
        ck.oblige('theorem:C09_refusal_on_every_store_%d (%d reader/gate pairs refuse on every store, by StoreMono.line_value_mono)' % (y, sum(len(v) for v in cov_g.values())),
                  ok and len(flags) == len(emeta) and bool(cov_g), out[-300:] if not ok else '')
    res2 = ck.coqc_many([f for _, _, f in thm_files], timeout=600)
    for y, n, f in thm_files:
        ok, out = res2[f]
        ck.harvest_assumptions(out)
        ck.oblige('theorem:C09_immediate_gates_%d (%d gate/line pairs)' % (y, n), ok, out[-300:] if not ok else '')
    # ---- every reader refuses: gates ALL of whose reading lines consult the gate first and answer not_implemented (Gates.gate_sound: every store)
    HEAD2 = ('From Coq Require Import ZArith QArith List String Bool Lia.\nFrom HV Require Import Forms FormsCheck Balance Gates.\n'
             'From Gen Require Import Forms%d.\nImport ListNotations.\nOpen Scope string_scope.\n')
    fz_path = os.path.join(common.ROOT, 'oracles', 'c09_static_gates.json')
    frozen_static = json.load(open(fz_path))['static'] if os.path.exists(fz_path) else {}
    static_now, lost_static = {}, []
    sfiles = []
    for y in summ:
        srows, smeta = [], []
        for g in gates_by_year[y]:
            gform, gname = g['input'].split('.')
            for (fn, ln) in readers_of(summ[y], g['input']):
                lit = gname if fn == gform else g['input']
                srows.append('(%s, %s, %s)' % (gen_forms.cstr(fn), gen_forms.cstr(ln), gen_forms.cstr(lit)))
                smeta.append((g['input'], fn, ln, lit))
        txt = [HEAD2 % y, 'Definition srows : list (string * string * string) := %s.' % gen_forms.clist(srows),
               'Goal True. idtac "@@SHAPES". Abort.',
               'Eval vm_compute in map (fun r => match line_of cat (fst (fst r)) (snd (fst r)) with Some ln => gate_shape (snd r) (l_body ln) | None => 0%nat end) srows.',
               'Goal True. idtac "@@CHAINS". Abort.',
               'Eval vm_compute in map (fun r => match line_of cat (fst (fst r)) (snd (fst r)) with Some ln => gate_shape_chain (snd r) (l_body ln) | None => 0%nat end) srows.']
        sfiles.append((y, smeta, ck.write_gen('C09_shapes_%d.v' % y, '\n'.join(txt) + '\n')))
    res_s = ck.coqc_many([f for _, _, f in sfiles], timeout=600)
    tfiles = []
    cfiles = []
    for y, smeta, f in sfiles:
        ok, out = res_s[f]
        if not ok:
            ck.oblige('gate-shapes:%d' % y, False, out[-300:])
            continue
        codes = [int(x) for x in re.findall(r'\d+', out.split('@@SHAPES', 1)[1].split(': list')[0].replace('%nat', ''))]
        ccodes = [int(x) for x in re.findall(r'\d+', out.split('@@CHAINS', 1)[1].split(': list')[0].replace('%nat', ''))] if '@@CHAINS' in out else [0] * len(codes)
        by_gate = {}
        by_gate_chain = {}
        for (g, fn, ln, lit), c, cc in zip(smeta, codes, ccodes):
            by_gate.setdefault(g, []).append((fn, ln, lit, c))
            by_gate_chain.setdefault(g, []).append((fn, ln, lit, cc))
        full = sorted(g for g, l in by_gate.items() if all(c != 0 for (_, _, _, c) in l))
        # gates whose readers all hold the gate somewhere in an `or` chain that refuses (the weaker theorem: never a value)
        full_chain = sorted(g for g, l in by_gate_chain.items() if g not in full and all(c != 0 for (_, _, _, c) in l))
        static_now[y] = set(full) | set(full_chain)
        ck.cov.setdefault('gate_classes', {}).setdefault(str(y), {})['every reading line holds the gate in an or-chain that refuses: never a value (theorem C09_every_reader_blocks)'] = full_chain
        if full_chain:
            crows = ['(%s, %s, %s)' % (gen_forms.cstr(fn), gen_forms.cstr(ln), gen_forms.cstr(lit)) for g in full_chain for (fn, ln, lit, c) in by_gate_chain[g]]
            ctxt = [HEAD2 % y, 'Definition rows : list (string * string * string) := %s.' % gen_forms.clist(crows),
                    'Definition shaped (r:string * string * string) : bool :=\n  match line_of cat (fst (fst r)) (snd (fst r)) with Some ln => negb (gate_shape_chain (snd r) (l_body ln) =? 0)%nat | None => false end.',
                    'Lemma rows_shaped : forallb shaped rows = true.\nProof. vm_compute. reflexivity. Qed.',
                    'Theorem C09_every_reader_blocks_%d : forall f l g ln, In (f, l, g) rows -> line_of cat f l = Some ln ->\n'
                    '  forall (c:ctx) fuel, slookup (qualify c g) (x_inps c) = Some (PBool true) -> forall v, line_value c fuel ln <> RVal v.' % y,
                    'Proof.\n  intros f l g ln Hin Hl c fuel Hg.\n  pose proof (proj1 (forallb_forall shaped rows) rows_shaped _ Hin) as S. unfold shaped in S. cbn [fst snd] in S. rewrite Hl in S.\n'
                    '  apply (gate_blocks c ln g fuel); [|exact Hg]. intros E. rewrite E in S. discriminate.\nQed.',
                    'Goal True. idtac "@@PA C09_every_reader_blocks_%d". Abort.' % y, 'Print Assumptions C09_every_reader_blocks_%d.' % y]
            cfiles.append((y, len(full_chain), len(crows), ck.write_gen('C09_blocks_%d.v' % y, '\n'.join(ctxt) + '\n')))
        for g in sorted(frozen_static.get(str(y), [])):
            if g not in full and g not in static_now.get(y, set()) and any(x['input'] == g for x in gates_by_year[y]):
                lost_static.append((y, g, [(fn, ln) for (fn, ln, lit, c) in by_gate.get(g, []) if c == 0]))
        ck.cov.setdefault('gate_classes', {}).setdefault(str(y), {})['every reading line refuses on every store (theorem C09_every_reader_refuses)'] = full
        rows = ['(%s, %s, %s)' % (gen_forms.cstr(fn), gen_forms.cstr(ln), gen_forms.cstr(lit)) for g in full for (fn, ln, lit, c) in by_gate[g]]
        txt = [HEAD2 % y, 'Definition rows : list (string * string * string) := %s.' % gen_forms.clist(rows),
               'Definition shaped (r:string * string * string) : bool :=\n  match line_of cat (fst (fst r)) (snd (fst r)) with Some ln => negb (gate_shape (snd r) (l_body ln) =? 0)%nat | None => false end.',
               'Lemma rows_shaped : forallb shaped rows = true.\nProof. vm_compute. reflexivity. Qed.',
               '(* whichever line consults such a gate, on whatever store: with the gate affirmative its value is "not implemented" - and by C01 the return is then not reported solved *)',
               'Theorem C09_every_reader_refuses_%d : forall f l g ln, In (f, l, g) rows -> line_of cat f l = Some ln ->\n'
               '  forall (c:ctx) fuel, slookup (qualify c g) (x_inps c) = Some (PBool true) -> (8 <= fuel)%%nat -> line_value c fuel ln = RUnimpl.' % y,
               'Proof.\n  intros f l g ln Hin Hl c fuel Hg Hf.\n  pose proof (proj1 (forallb_forall shaped rows) rows_shaped _ Hin) as S. unfold shaped in S. cbn [fst snd] in S. rewrite Hl in S.\n'
               '  apply (gate_sound c ln g fuel); [|exact Hg|exact Hf]. intros E. rewrite E in S. discriminate.\nQed.',
               'Goal True. idtac "@@PA C09_every_reader_refuses_%d". Abort.' % y, 'Print Assumptions C09_every_reader_refuses_%d.' % y]
        tfiles.append((y, len(full), len(rows), ck.write_gen('C09_refuses_%d.v' % y, '\n'.join(txt) + '\n')))
    res_t = ck.coqc_many([f for _, _, _, f in tfiles], timeout=600)
    for y, ng, nr, f in tfiles:
        ok, out = res_t[f]
        ck.harvest_assumptions(out)
        ck.oblige('theorem:C09_every_reader_refuses_%d (%d gates, %d reading lines)' % (y, ng, nr), ok and ng > 0, out[-300:] if not ok else '')
    res_c = ck.coqc_many([f for _, _, _, f in cfiles], timeout=600)
    for y, ng, nr, f in cfiles:
        ok, out = res_c[f]
        ck.harvest_assumptions(out)
        ck.oblige('theorem:C09_every_reader_blocks_%d (%d more gates, %d reading lines: never a value while the gate is affirmative)' % (y, ng, nr), ok, out[-300:] if not ok else '')
    if os.environ.get('C09_FREEZE'):
        json.dump({'comment': 'gates all of whose reading lines refuse on every store (theorem C09_every_reader_refuses) on the baseline tree; written by C09_FREEZE=1 ./check C09',
                   'static': {str(y): sorted(v) for y, v in static_now.items()}}, open(fz_path, 'w'), indent=1)
    for (y, g, bad_lines) in lost_static:
        ck.oblige('gate-theorem:%d:%s' % (y, g), False, 'reading lines that no longer refuse first: %s' % bad_lines[:3])
        # failing input: a real return that consults the gate, answers yes, and is still reported solved
        found = None
        for (year, forms, sseed, prof) in scenarios.scenario_stream(random.Random(seed + 99), 40):
            if year != y:
                continue
            base = scenarios.run_scenario(H, year, forms, sseed, prof)
            if base['exc'] is not None or not base['ok']:
                continue
            names = [nm for (nm, a, nb) in base['policy'].asked if nm.split('.')[0].split(':')[0] + '.' + nm.split('.')[1] == g and a == 'no']
            for nm in names[:1]:
                r = scenarios.run_scenario(H, year, forms, sseed, prof, overrides={nm: 'yes'})
                if r['exc'] is None and r['ok']:
                    found = {'kind': 'failing-input', 'year': year, 'forms': forms, 'seed': sseed, 'profile': prof, 'override': {nm: 'yes'}, 'gate': g}
            if found:
                break
        if found:
            ck.violation('C09:%d:%s' % (y, g), 'ty%d: answering yes to %s (which the solver consulted) still gives a solved return' % (y, g), found, found=True)
        else:
            ck.violation('C09:%d:%s' % (y, g), 'ty%d: gate %s: a line that reads it no longer answers not-implemented first (%s); theorem C09_every_reader_refuses_%d no longer covers it' % (
                y, g, bad_lines[:2], y), {'kind': 'proof-or-correspondence', 'theorem_or_correspondence': 'C09_every_reader_refuses_%d for %s' % (y, g)}, found=False)
    # ---- flipped-gate runs on the real solver
    n_sc = 60 if tier == 'quick' else 600
    exercised = {y: {} for y in summ}
    for (year, forms, sseed, prof) in scenarios.scenario_stream(rng, n_sc):
        if year not in summ:
            continue
        forms = ['1040', 'nc_d-400'] if rng.random() < 0.5 else ['1040']
        base = scenarios.run_scenario(H, year, forms, sseed, prof)
        if base['exc'] is not None or not base['ok']:
            continue
        gate_names = {g['input'] for g in gates_by_year[year] if not g.get('conditional')}   # a conditional gate blocks only in the stated situation
        for (name, ans, nb) in base['policy'].asked:
            key = name.split('.')[0].split(':')[0] + '.' + name.split('.')[1]
            if key not in gate_names or ans != 'no':
                continue
            if exercised[year].get(key, 0) >= (2 if tier == 'quick' else 12):
                continue
            exercised[year][key] = exercised[year].get(key, 0) + 1
            r = scenarios.run_scenario(H, year, forms, sseed, prof, overrides={name: 'yes'})
            ck.count((year, key, sseed), nontrivial=True)
            if r['exc'] is None and r['ok']:
                ck.violation('C09:%d:%s' % (year, key),
                             'ty%d: answering yes to %s (which the solver consulted) still gives a solved return' % (year, name),
                             {'kind': 'failing-input', 'year': year, 'forms': forms, 'seed': sseed, 'profile': prof,
                              'override': {name: 'yes'}, 'gate': key}, found=True)
    # conditional gates: flipped in the scenario in which they apply (recorded with the gate in the oracle)
    cond_exercised = {}
    base_prof = {'amounts': 'cents', 'n_w2': 1, 'itemize': False, 'foreign': False, 'n_dep': 0, 'n_u17': 0, 'others': False, 'zero_frac': 0.8, 'benign_true': 0.5, 'wages': 60000}
    for year in summ:
        for g in gates_by_year[year]:
            sc_ = g.get('scenario')
            if not g.get('conditional') or not sc_:
                continue
            gform, gname = g['input'].split('.')
            prof = dict(base_prof, status=sc_.get('status', 'Single'), itemize=bool(sc_.get('itemize')))
            forms_ = ['1040']
            r0 = scenarios.run_scenario(H, year, forms_, 9100, prof, overrides=dict(sc_['overrides'], **{gname: 'no'}))
            if r0['exc'] is not None or not r0['ok']:
                cond_exercised.setdefault(str(year), {})[g['input']] = 'scenario does not solve with the gate negative (not exercised)'
                continue
            consulted0 = [nm for (nm, a, nb) in r0['policy'].asked if nm.split('.')[-1] == gname]
            if not consulted0:
                cond_exercised.setdefault(str(year), {})[g['input']] = 'gate not consulted in its scenario (not exercised)'
                continue
            r1 = scenarios.run_scenario(H, year, forms_, 9100, prof, overrides=dict(sc_['overrides'], **{gname: 'yes'}))
            ck.count((year, g['input'], 'conditional-gate'), nontrivial=True)
            cond_exercised.setdefault(str(year), {})[g['input']] = 'exercised'
            if r1['exc'] is None and r1['ok']:
                ck.violation('C09:%d:%s' % (year, g['input']),
                             'ty%d: answering yes to %s in the situation where it applies (%s) still gives a solved return' % (year, g['input'], g['conditional'][:80]),
                             {'kind': 'failing-input', 'year': year, 'forms': forms_, 'seed': 9100, 'profile': prof,
                              'overrides': dict(sc_['overrides'], **{gname: 'yes'}), 'gate': g['input']}, found=True)
    ck.cov['conditional_gates'] = cond_exercised
    # numeric gates
    numeric = [
        ('foreign-tax-over-1116-limit', {'1099-int:0.box_6': '950.00', 'number_1099-int': '1'}, {'foreign': True}),
        ('more-payers-than-schedule-b-rows', {'number_1099-int': '20', 'box_1': '400.00'}, {}),
        # fifteen payers of which the first fourteen stay under $1,500 and the fifteenth carries the total over it
        ('more-interest-payers-than-schedule-b-rows-last-one-crosses-1500',
         {'number_1099-int': '15', 'number_1099-div': '0', 'number_1099-oid': '0', 'box_1': '100.00', 'box_3': '0.00', '1099-int:14.box_1': '200.00'}, {}),
        ('more-dividend-payers-than-schedule-b-rows-last-one-crosses-1500',
         {'number_1099-div': '15', 'number_1099-int': '0', 'box_1a': '100.00', 'box_1b': '0.00', '1099-div:14.box_1a': '200.00', 'ordinary_dividends_incorrect': 'no',
          'qualified_dividends_incorrect': 'no'}, {}),
    ]
    # 2021 only: mortgage insurance premiums with an adjusted gross income over $100,000 need the limitation worksheet (not implemented)
    numeric.append(('mortgage-insurance-premiums-with-agi-over-100000',
                    {'itemize': 'yes', 'number_1098': '1', '1098:0.box_1': '9000.00', '1098:0.box_5': '800.00', '1098:0.box_6': '0.00', 'loan_limitations': 'no',
                     'mortgage_insurance_premiums_special': 'no', 'state_local_real_estate_taxes': '9000.00', 'charitable_cash_check': '9000.00',
                     'general_sales_tax': 'no', 'w-2:0.box_1': '125000.00', 'charitable_other_than_cash_check': '0.00'}, {'itemize': True, 'wages': 125000, 'others': False, 'years': [2021]}))
    hsa = {'schedule_1_income_adjustments': 'yes', 'hsa_contribution_you': 'yes', 'hsa_contribution_spouse': 'no', 'age_under_55': 'yes',
           'hsa_full_year': 'yes', 'hdhp_plan_family': 'no', 'part_2_needed': 'no', 'part_3_needed': 'no', 'qualified_distribution': 'no',
           'archer_msa': '0.00', 'principal_abode_us': 'yes'}
    numeric += [('hsa-contribution-over-limit', dict(hsa, hsa_contributions='9999.00', employer_contribution='0.00'), {'others': False}),
                ('hsa-contribution-over-limit-with-employer-money', dict(hsa, hsa_contributions='3000.00', employer_contribution='1500.00'), {'others': False})]
    special_hsa = {y_: (sd_, pf_) for (y_, fm_, sd_, pf_) in scenarios.special_scenarios() if sd_ == 9001}
    for year in summ:
        for label, ov, pmod in numeric:
            if year not in pmod.get('years', [year]):
                continue
            prof = {'status': 'Single', 'amounts': 'cents', 'wages': 60000, 'n_w2': 1, 'n_dep': 0, 'others': True}
            prof.update({k_: v_ for k_, v_ in pmod.items() if k_ != 'years'})
            sseed_ = 4242
            if label.startswith('hsa') and year in special_hsa:
                # the fixed HSA scenario (which solves), as a single filer, with the contribution pushed over the limit
                sseed_, base_prof = special_hsa[year]
                prof = dict(base_prof, status='Single')
                ov = dict(base_prof.get('overrides', {}), **ov)
                prof.pop('overrides', None)
            r = scenarios.run_scenario(H, year, ['1040'], sseed_, prof, overrides=ov)
            ck.count((year, label), nontrivial=True)
            consulted = any(k.split('.')[-1] in ov or k in ov for (k, a, nb) in r['policy'].asked)
            if r['exc'] is None and r['ok'] and consulted:
                ck.violation('C09:%d:%s' % (year, label), 'ty%d: %s still gives a solved return' % (year, label),
                             {'kind': 'failing-input', 'year': year, 'overrides': ov, 'profile': prof}, found=True)
    ck.cov['gates_flipped_on_real_runs'] = {str(y): len(v) for y, v in exercised.items()}
    ck.cov['gates_not_exercised_dynamically'] = {str(y): sorted(g['input'] for g in gates_by_year[y] if g['input'] not in exercised[y]) for y in summ}
    ck.sample({'year': 2023, 'gate': gates_by_year.get(2023, [{}])[0], 'classes': classes.get(2023, {}).get(gates_by_year.get(2023, [{'input': ''}])[0].get('input'))})
    return sf.finish_family(ck, 'C09')
