"""Generated Rocq obligations of C16 (see c16.py)."""
import json
import os
import re

from . import common
import gen_forms  # noqa

HEAD = """From Coq Require Import ZArith QArith Qminmax Lqa List String Bool Lia Permutation.
From HV Require Import Forms FormsCheck Xexp XexpProofs Rounding Balance Mono Perm.
From Gen Require Import Forms%(y)d.
Import ListNotations.
Open Scope string_scope.
"""

# (name, form, places, source kind, source name, chain lines in dependency order, expected direction of the last line)
def chains(y):
    wages_src = '1' if y == 2021 else '1z'
    ded = ('12a', ['12c', '14', '15']) if y == 2021 else ('12', ['14', '15'])
    return [
        ('wages_raise_taxable_income', '1040', 2, 'line', wages_src, ['9', '11', '15'], 'Up'),
        ('tax_raises_total_tax', '1040', 2, 'line', '16', ['18', '22', '24'], 'Up'),
        ('deduction_lowers_taxable_income', '1040', 2, 'line', ded[0], ded[1], 'Down'),
        ('credit_lowers_total_tax', '1040', 2, 'line', '19', ['21', '22', '24'], 'Down'),
        ('withholding_raises_payments', '1040', 2, 'line', '25a', ['25d', '33'], 'Up'),
        ('medical_expense_raises_itemized', '1040_sa', 2, 'input', 'medical_dental_expenses', ['1', '4', '17'], 'Up'),
        ('real_estate_tax_raises_taxes_paid', '1040_sa', 2, 'input', 'state_local_real_estate_taxes', ['5b', '5d'], 'Up'),
        ('cash_gift_raises_itemized', '1040_sa', 2, 'input', 'charitable_cash_check', ['11', '14', '17'], 'Up'),
        ('agi_lowers_medical_deduction', '1040_sa', 2, 'line', '2', ['3', '4'], 'Down'),
    ]


def chain_text(y, k, spec):
    name, form, p, skind, sname, chain, expect = spec
    fs = gen_forms.cstr(form)
    t = ['(* %s *)' % name]
    chain_list = gen_forms.clist([gen_forms.cstr(x) for x in chain])
    for j, ln in enumerate(chain):
        t.append('Definition K%d_T%d := Eval vm_compute in top_or0 (top_of cat %s %s).' % (k, j, fs, gen_forms.cstr(ln)))
    if skind == 'line':
        t.append('Definition K%d_dl0 (n:string) : option dir := if String.eqb n %s then Some Up else if smem n %s then None else Some Const.' % (
            k, gen_forms.cstr(sname), chain_list))
        t.append('Definition K%d_di (n:string) : option dir := Some Const.' % k)
    else:
        t.append('Definition K%d_dl0 (n:string) : option dir := if smem n %s then None else Some Const.' % (k, chain_list))
        t.append('Definition K%d_di (n:string) : option dir := if String.eqb n %s then Some Up else Some Const.' % (k, gen_forms.cstr(sname)))
    for j, ln in enumerate(chain):
        t.append('Definition K%d_d%d := Eval vm_compute in top_dir K%d_dl%d K%d_di K%d_T%d.' % (k, j + 1, k, j, k, k, j))
        t.append('Definition K%d_dl%d (n:string) : option dir := if String.eqb n %s then K%d_d%d else K%d_dl%d n.' % (
            k, j + 1, gen_forms.cstr(ln), k, j + 1, k, j))
    last = len(chain)
    hyps = ' -> '.join('tsem ev ei %d K%d_T%d (ev %s) -> tsem ev\' ei\' %d K%d_T%d (ev\' %s)' % (p, k, j, gen_forms.cstr(ln), p, k, j, gen_forms.cstr(ln))
                       for j, ln in enumerate(chain))
    t.append('Theorem C16_chain_%d_%d : forall ev ev\' ei ei\' : string -> Q,\n'
             '  (forall n, orelated (K%d_dl0 n) (ev n) (ev\' n)) -> (forall n, orelated (K%d_di n) (ei n) (ei\' n)) ->\n  %s ->\n'
             '  related %s (ev %s) (ev\' %s).' % (y, k, k, k, hyps, expect, gen_forms.cstr(chain[-1]), gen_forms.cstr(chain[-1])))
    pr = ['Proof.', '  intros ev ev\' ei ei\' H0 Hi %s.' % ' '.join('Ha%d Hb%d' % (j, j) for j in range(last)),
          '  assert (Pp : (0 <= %d)%%Z) by lia.' % p]
    for j, ln in enumerate(chain):
        pr.append('  assert (E%d : top_dir K%d_dl%d K%d_di K%d_T%d = K%d_d%d) by (vm_compute; reflexivity).' % (j + 1, k, j, k, k, j, k, j + 1))
        pr.append('  pose proof (top_dir_sound K%d_dl%d K%d_di ev ev\' ei ei\' H%d Hi %d K%d_T%d _ _ Pp Ha%d Hb%d) as R%d. rewrite E%d in R%d.' % (
            k, j, k, j, p, k, j, j, j, j + 1, j + 1, j + 1))
        pr.append('  assert (H%d : forall n, orelated (K%d_dl%d n) (ev n) (ev\' n)).' % (j + 1, k, j + 1))
        pr.append('  { intros n. unfold K%d_dl%d. destruct (String.eqb n %s) eqn:En; [apply String.eqb_eq in En; subst n; exact R%d|apply H%d]. }' % (
            k, j + 1, gen_forms.cstr(ln), j + 1, j))
    pr.append('  assert (Ed : K%d_d%d = Some %s) by reflexivity. rewrite Ed in R%d. exact R%d.' % (k, last, expect, last, last))
    pr.append('Qed.')
    t += pr
    return '\n'.join(t)


def slope_text(y):
    t = []
    for n in ['25d', '33', '34', '37']:
        t.append('Definition s%s := Eval vm_compute in top_or0 (top_of cat "1040" "%s").' % (n, n))
    t.append('Lemma net_eq ev ei : grid 2 (ev "33") -> grid 2 (ev "24") -> tsem ev ei 2 s34 (ev "34") -> tsem ev ei 2 s37 (ev "37") ->\n'
             '  ev "34" - ev "37" == ev "33" - ev "24".')
    t.append('Proof. intros G33 G24 H34 H37. unfold s34 in H34; unfold s37 in H37.\n'
             '  tsem_split H34; tsem_split H37; cbn [xeval] in *; num_cases; try congruence.\n'
             '  all: rpush_in H34 2%Z; rpush_in H37 2%Z; lra.\nQed.')
    t.append('Lemma paid_eq ev ei : grid 2 (ev "25a") -> grid 2 (ev "25b") -> grid 2 (ev "25c") -> grid 2 (ev "26") -> grid 2 (ev "32") ->\n'
             '  tsem ev ei 2 s25d (ev "25d") -> tsem ev ei 2 s33 (ev "33") -> ev "33" == ev "25a" + ev "25b" + ev "25c" + ev "26" + ev "32".')
    t.append('Proof. intros Ga Gb Gc G26 G32 H25 H33. assert (P2 : (0 <= 2)%Z) by lia.\n'
             '  assert (G25 := tsem_grid ev ei 2 _ _ P2 H25). unfold s25d in H25; unfold s33 in H33.\n'
             '  tsem_split H25; tsem_split H33; cbn [xeval] in *.\n'
             '  rpush_in H25 2%Z; rpush_in H33 2%Z; lra.\nQed.')
    lines = ['24', '25a', '25b', '25c', '25d', '26', '32', '33', '34', '37']
    fix1 = ' -> '.join('line_fix cat c fuel "1040" "%s" (ev "%s")' % (n, n) for n in lines)
    fix2 = ' -> '.join('line_fix cat c\' fuel "1040" "%s" (ev\' "%s")' % (n, n) for n in lines)
    oks1 = ' -> '.join('top_ok c ev ei s%s' % n for n in ['25d', '33', '34', '37'])
    oks2 = ' -> '.join('top_ok c\' ev\' ei\' s%s' % n for n in ['25d', '33', '34', '37'])
    t.append('Theorem C16_slope_%d (c c\':ctx) (ev ev\' ei ei\':string -> Q) (fuel:nat) (d:Q) :\n  (100 <= fuel)%%nat ->\n  %s ->\n  %s ->\n  %s -> %s ->\n'
             '  ev\' "25a" == ev "25a" + d -> ev\' "24" == ev "24" -> ev\' "25b" == ev "25b" -> ev\' "25c" == ev "25c" -> ev\' "26" == ev "26" -> ev\' "32" == ev "32" ->\n'
             '  (ev\' "34" - ev\' "37") - (ev "34" - ev "37") == d.' % (y, fix1, fix2, oks1, oks2))
    names = ' '.join('A%s' % n for n in lines) + ' ' + ' '.join('B%s' % n for n in lines)
    pr = ['Proof. intros Hf %s O25 O33 O34 O37 O25\' O33\' O34\' O37\' Ea E24 Eb Ec E26 E32.' % names]

    def grid(c, pfx, n):
        return '(line_fix_grid cat %s fuel "1040" "%s" _ 2 %s%s ltac:(vm_compute; reflexivity))' % (c, n, pfx, n)

    def ts(c, e, i, pfx, n, ok):
        return '(line_fix_tsem cat %s fuel "1040" "%s" _ %s %s s%s 2 %s%s ltac:(vm_compute; reflexivity) ltac:(vm_compute; reflexivity) Hf %s)' % (c, n, e, i, n, pfx, n, ok)
    pr.append('  pose proof (net_eq ev ei %s %s %s %s) as N1.' % (grid('c', 'A', '33'), grid('c', 'A', '24'), ts('c', 'ev', 'ei', 'A', '34', 'O34'), ts('c', 'ev', 'ei', 'A', '37', 'O37')))
    pr.append('  pose proof (net_eq ev\' ei\' %s %s %s %s) as N2.' % (grid("c'", 'B', '33'), grid("c'", 'B', '24'), ts("c'", "ev'", "ei'", 'B', '34', "O34'"), ts("c'", "ev'", "ei'", 'B', '37', "O37'")))
    pr.append('  pose proof (paid_eq ev ei %s %s %s %s %s %s %s) as P1.' % (grid('c', 'A', '25a'), grid('c', 'A', '25b'), grid('c', 'A', '25c'), grid('c', 'A', '26'), grid('c', 'A', '32'),
                                                                               ts('c', 'ev', 'ei', 'A', '25d', 'O25'), ts('c', 'ev', 'ei', 'A', '33', 'O33')))
    pr.append('  pose proof (paid_eq ev\' ei\' %s %s %s %s %s %s %s) as P2.' % (grid("c'", 'B', '25a'), grid("c'", 'B', '25b'), grid("c'", 'B', '25c'), grid("c'", 'B', '26'), grid("c'", 'B', '32'),
                                                                                  ts("c'", "ev'", "ei'", 'B', '25d', "O25'"), ts("c'", "ev'", "ei'", 'B', '33', "O33'")))
    pr.append('  lra.\nQed.')
    t += pr
    t.append('(* whole dollars added to the amounts withheld move the rounded total by exactly that much *)\n'
             'Theorem C16_shift_dollars_%d (x:Q) (n:Z) : qround 2 (x + inject_Z n) == qround 2 x + inject_Z n.\nProof. exact (qround2_shift_dollars x n). Qed.' % y)
    t.append('Goal True. idtac "@@PA C16_slope_%d". Abort.\nPrint Assumptions C16_slope_%d.' % (y, y))
    return '\n'.join(t)


def renumber_text(y, all_lines):
    rows = gen_forms.clist(['(%s, %s)' % (gen_forms.cstr(f), gen_forms.cstr(l)) for f, l in all_lines])
    t = ['Definition has_shape (fl:string * string) : nat :=\n'
         '  match line_of cat (fst fl) (snd fl) with\n'
         '  | Some ln => match s1_shape (l_body ln), l_type ln with Some (k, _), TFloat _ => S k | _, _ => 0%nat end\n'
         '  | None => 0%nat end.',
         'Goal True. idtac "@@SHAPES". Abort.',
         'Eval vm_compute in map has_shape %s.' % rows,
         'Goal True. idtac "@@ENDSHAPES". Abort.',
         '(* every money line of this year\'s catalogue whose body has the aggregation shape stores the same value under any renumbering of the copies *)',
         'Theorem C16_renumber_%d : forall fm ln l k pre post x cnt p, line_of cat fm ln = Some l ->\n'
         '  s1_shape (l_body l) = Some (k, (pre, post, x, cnt)) -> l_type l = TFloat p ->\n'
         '  forall (c c\':ctx) m (N:nat) (f:nat -> Q) (pi:nat -> nat),\n'
         '  slookup (qualify c cnt) (x_inps c) = Some (PInt (Z.of_nat N)) -> slookup (qualify c\' cnt) (x_inps c\') = Some (PInt (Z.of_nat N)) -> (0 < N)%%nat ->\n'
         '  (forall j, (j < N)%%nat -> slookup (qualify c (s1_name pre post j)) (x_vals c) = Some (PNum (f j))) ->\n'
         '  (forall j, (j < N)%%nat -> slookup (qualify c\' (s1_name pre post j)) (x_vals c\') = Some (PNum (f (pi j)))) ->\n'
         '  Permutation (map pi (seq 0 N)) (seq 0 N) ->\n'
         '  exists q, line_value c (8 + m) l = RVal (PNum q) /\\ line_value c\' (8 + m) l = RVal (PNum q).\n'
         'Proof. intros fm ln l k pre post x cnt p _ Hs Ht c c\' m N f pi. exact (line_renumber l c c\' m k pre post x cnt N f pi p Hs Ht). Qed.' % y,
         'Goal True. idtac "@@PA C16_renumber_%d". Abort.\nPrint Assumptions C16_renumber_%d.' % (y, y)]
    return '\n'.join(t)


TAX = """From Coq Require Import ZArith List Bool.
From HV Require Import TaxModel TaxProofs.
From Gen Require Import Tax%(y)d.
Open Scope Z_scope.
Lemma cfg_checked : cfg_ok %(y)d cfg = true.
Proof. vm_compute. reflexivity. Qed.
Lemma boundary_checked : all_status (boundary_ok %(y)d) = true.
Proof. vm_compute. reflexivity. Qed.
Theorem C16_tax_monotone_%(y)d : forall st x x', (st < 5)%%nat -> 0 <= x <= x' -> x' <= max_income * 100 ->
  exists t t', figure_tax cfg x st = Some t /\\ figure_tax cfg x' st = Some t' /\\ t <= t'.
Proof. exact (figure_tax_monotone %(y)d cfg cfg_checked boundary_checked). Qed.
Goal True. idtac "@@PA C16_tax_monotone_%(y)d". Abort.
Print Assumptions C16_tax_monotone_%(y)d.
"""


def aggregating_lines(summ, y):
    """lines that read a copy of a form through a computed copy number"""
    out = []
    for f, info in sorted(summ[y]['forms'].items()):
        for l, li in sorted(info['lines'].items()):
            for (k, parts, ln) in li['refs']:
                lits = [b for a, b in parts if a == 'lit']
                if k == 'RV' and any(a != 'lit' for a, b in parts) and lits and re.match(r'^[\w-]+:$', lits[0]):
                    out.append((f, l, li['type']))
                    break
    return out


def tax_monotone_search(H, y):
    """real figure_tax: a pair x < x' with tax(x) > tax(x') near a row or bracket boundary"""
    import importlib
    mod = importlib.import_module('habutax.forms.ty%d.f1040_figure_tax' % y)
    fs = list(H['enum'].filing_status_2021 if y == 2021 else H['enum'].filing_status)
    pts = set()
    for row in getattr(mod, 'TAX_TABLE', []):
        for v in row[:2]:
            pts.update([v - 0.01, v, v + 0.01, v + 25])
    def walk(o):
        if isinstance(o, dict):
            for v in o.values():
                walk(v)
        elif isinstance(o, (tuple, list)):
            if o and all(isinstance(v, (int, float)) for v in o):
                for v in o[:2]:
                    if 0 <= v < 1e11:
                        pts.update([v - 50, v - 0.01, v, v + 0.01, v + 50])
            else:
                for v in o:
                    walk(v)
    walk(getattr(mod, 'TAX_WORKSHEET_VALUES', ()))
    xs = sorted(p for p in pts if p >= 0)
    for st in fs:
        prev = None
        for x in xs:
            try:
                t = mod.figure_tax(x, st)
            except Exception:  # noqa
                prev = None
                continue
            if prev is not None and t < prev[1] - 1e-9:
                return {'status': st.name, 'income_low': prev[0], 'tax_low': prev[1], 'income_high': x, 'tax_high': t}
            prev = (x, t)
    return None


def prove(ck, summ, H=None):
    fz_path = os.path.join(common.ROOT, 'oracles', 'c16_theorems.json')
    frozen = set(json.load(open(fz_path))['proved']) if os.path.exists(fz_path) else set()
    files = []
    for y in summ:
        hd = HEAD % {'y': y}
        agg = aggregating_lines(summ, y)
        files.append((y, 'renumber', None, ck.write_gen('C16_renumber_%d.v' % y, hd + renumber_text(y, [(f, l) for f, l, t in agg]) + '\n')))
        files.append((y, 'slope', None, ck.write_gen('C16_slope_%d.v' % y, hd + slope_text(y) + '\n')))
        files.append((y, 'tax', None, ck.write_gen('C16_tax_%d.v' % y, TAX % {'y': y})))
        for k, spec in enumerate(chains(y)):
            files.append((y, 'chain', k, ck.write_gen('C16_chain_%d_%d.v' % (y, k), hd + chain_text(y, k, spec) + '\n')))
    res = ck.coqc_many([f for _, _, _, f in files], timeout=900)
    proved = set()
    cov = {}
    for y, kind, k, f in files:
        ok, out = res[f]
        ck.harvest_assumptions(out)
        name = {'renumber': 'C16_renumber_%d' % y, 'slope': 'C16_slope_%d' % y, 'tax': 'C16_tax_monotone_%d' % y}.get(kind) or 'C16_chain_%d_%d(%s)' % (y, k, chains(y)[k][0])
        if kind == 'chain' and not ok and name not in frozen:
            # a chain that never held for this year's line layout is not an obligation
            cov.setdefault(str(y), {}).setdefault('chains_not_applicable', []).append(chains(y)[k][0])
            continue
        ck.oblige(name, ok, out[-400:] if not ok else '')
        if ok:
            proved.add(name)
        if kind == 'renumber' and ok:
            agg = aggregating_lines(summ, y)
            shapes = [int(x) for x in re.findall(r'\d+', out.split('@@SHAPES', 1)[1].split('@@ENDSHAPES')[0].split(': list')[0].replace('%nat', ''))]
            covered = ['%s.%s' % (f, l) for (f, l, t), s in zip(agg, shapes) if s > 0]
            cov.setdefault(str(y), {}).update({'aggregating_lines': len(agg), 'covered_by_renumber_theorem': covered,
                                               'left_to_metamorphic_runs': ['%s.%s' % (f, l) for (f, l, t), s in zip(agg, shapes) if s == 0]})
            ck.oblige('renumber-coverage:%d (at least line 25a)' % y, '1040.25a' in covered, str(covered))
        if not ok:
            found = None
            if kind == 'tax' and H is not None:
                found = tax_monotone_search(H, y)
            key = 'C16:%d:%s' % (y, name)
            if found:
                ck.violation(key, 'ty%d: figure_tax is not monotone: %s income %.2f -> tax %.2f but income %.2f -> tax %.2f' % (
                    y, found['status'], found['income_low'], found['tax_low'], found['income_high'], found['tax_high']),
                    dict(found, kind='failing-input', year=y, how_to_run='call figure_tax of the year on both incomes'), found=True)
            else:
                ck.violation(key, 'ty%d: theorem %s no longer checks' % (y, name),
                             {'kind': 'proof-or-correspondence', 'theorem_or_correspondence': name, 'detail': out[-300:]}, found=False)
    for name in sorted(frozen - proved):
        y = int(re.search(r'_(20\d\d)', name).group(1))
        if y in summ and not any(o[0] == name for o in ck.obligations):
            ck.oblige(name, False, 'proved on the baseline, not generated now')
            ck.violation('C16:%d:%s' % (y, name), 'ty%d: theorem %s held on the baseline and is no longer proved' % (y, name),
                         {'kind': 'proof-or-correspondence', 'theorem_or_correspondence': name}, found=False)
    if os.environ.get('C16_FREEZE'):
        json.dump({'comment': 'C16 theorems proved on the baseline tree; written by C16_FREEZE=1 ./check C16, never at check time', 'proved': sorted(proved)},
                  open(fz_path, 'w'), indent=1)
    ck.cov['theorems'] = dict(cov, proved=len(proved), frozen=len(frozen))


# ------------------------------------------------------------------------------------------- a concrete pair
def slope_instance(ck, H, summ, pairs):
    """C16_slope_<y> applied to a REAL pair of solved returns (base, d more dollars withheld on a W-2): the hypotheses are met by reachable states"""
    from . import catalog
    enums = gen_forms.Enums(H['enum'])
    files = []
    for y, idx, (s0, s1, delta) in [(y_, i_, p_) for y_ in sorted(pairs) for i_, p_ in enumerate(pairs[y_])]:
        if y not in summ:
            continue

        def store(s):
            return gen_forms.clist(['(%s, %s)' % (gen_forms.cstr(k), catalog.pv_of(v, enums)) for k, v in s._v.values.items()])

        def inputs(s):
            out = []
            cfgp = s._i.config if hasattr(s, '_i') else None
            if cfgp is None:
                return '[]'
            for sec in cfgp.sections():
                for opt in cfgp.options(sec):
                    spec = s._input_map.get('%s.%s' % (sec, opt))
                    raw = cfgp.get(sec, opt)
                    if spec is not None and spec.valid(raw):
                        out.append('(%s, %s)' % (gen_forms.cstr('%s.%s' % (sec, opt)), catalog.pv_of(spec.value(raw), enums)))
            return gen_forms.clist(out)
        forms_txt = gen_forms.clist([gen_forms.cstr(x) for x in s0.forms.keys()])
        t = [HEAD % {'y': y}, 'From HV Require Import TaxModel.', 'From Gen Require Import Tax%d C16_slope_%d.' % (y, y), 'Open Scope Q_scope.', 'Open Scope string_scope.',
             'Definition normv (v:pv) : pv := match v with PNum q => PNum (Qred q) | _ => v end.',
             'Definition valsA := Eval vm_compute in map (fun kv => (fst kv, normv (snd kv))) %s.' % store(s0),
             'Definition valsB := Eval vm_compute in map (fun kv => (fst kv, normv (snd kv))) %s.' % store(s1),
             'Definition inpsA := Eval vm_compute in map (fun kv => (fst kv, normv (snd kv))) %s.' % inputs(s0),
             'Definition inpsB := Eval vm_compute in map (fun kv => (fst kv, normv (snd kv))) %s.' % inputs(s1),
             'Definition cA : ctx := Ctx cat "1040" None valsA inpsA %s (tax_fn %d cfg).' % (forms_txt, y),
             'Definition cB : ctx := Ctx cat "1040" None valsB inpsB %s (tax_fn %d cfg).' % (forms_txt, y),
             'Definition look (l:list (string * pv)) (n:string) : Q := match slookup ("1040." ++ n) l with Some (PNum q) => q | _ => 0 end.',
             'Ltac reads_tac := split; intros n Hn; cbn in Hn;',
             '  repeat (destruct Hn as [<-|Hn]; [eexists; split; [vm_compute; reflexivity|vm_compute; reflexivity]|]); try contradiction.',
             'Example C16_slope_on_a_real_pair :',
             '  (look valsB "34" - look valsB "37") - (look valsA "34" - look valsA "37") == %s.' % gen_forms.cq(repr(float(delta))),
             'Proof.',
             '  apply (C16_slope_%d cA cB (look valsA) (look valsB) (look inpsA) (look inpsB) 5000%%nat); try lia; try (vm_compute; reflexivity).' % y,
             '  all: unfold top_ok, s25d, s33, s34, s37; reads_tac.',
             'Qed.']
        files.append((y, ck.write_gen('C16_slope_instance_%d_%d.v' % (y, idx), '\n'.join(t) + '\n')))
    res = ck.coqc_many([f for _, f in files], timeout=900)
    shown = {}
    for y, f in files:
        ok, out = res[f]
        shown[y] = shown.get(y, False) or ok
        if not ok:
            ck.notes.append('slope instance %d did not go through: %s' % (y, out[-160:].replace('\n', ' ')))
    for y, ok in sorted(shown.items()):       # a demonstration, not the property: one of up to three candidate pairs has to go through
        if ok:
            ck.oblige('C16_slope_%d holds its hypotheses on a real pair of returns' % y, True)
    ck.cov['theorem_instances_on_real_pairs'] = {str(y): v for y, v in shown.items()}
