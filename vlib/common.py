"""Shared machinery of every check: build dirs, coqc driver, obligations, evidence, known findings.

Everything here is run by /verif/check with /venv/bin/python, PYTHONPATH forced to the repo.
"""
import hashlib
import json
import os
import re
import shutil
import subprocess
import sys
import time

ROOT = os.path.dirname(os.path.dirname(os.path.abspath(__file__)))
REPO = os.environ.get('HABUTAX_REPO', '/repo')
COQ_DIR = os.path.join(ROOT, 'coq')
PY = '/venv/bin/python'
YEARS = (2021, 2022, 2023)

FORBIDDEN = re.compile(
    r'\b(Admitted|admit|Axiom|Axioms|Parameter|Parameters|Conjecture|Conjectures|Hypothesis|Hypotheses|Variable|Variables'
    r'|Admit Obligations|Unset Guard Checking|Unset Positivity Checking|Unset Universe Checking'
    r'|bypass_check|type-in-type|impredicative-set|native_compute)\b')


def sh(cmd, timeout=600, cwd=None, env=None, input=None):
    e = dict(os.environ)
    if env:
        e.update(env)
    try:
        p = subprocess.run(cmd, shell=isinstance(cmd, str), cwd=cwd, env=e, input=input,
                           stdout=subprocess.PIPE, stderr=subprocess.STDOUT, timeout=timeout, text=True)
        return p.returncode, p.stdout
    except subprocess.TimeoutExpired as te:
        out = te.stdout or ''
        if isinstance(out, bytes):
            out = out.decode('utf8', 'replace')
        return 124, out + '\n[timeout after %ss]' % timeout


def repo_env():
    return {'PYTHONPATH': REPO, 'PYTHONHASHSEED': '0', 'PYTHONDONTWRITEBYTECODE': '1',
            'HABUTAX_VERIF': '1', 'PYTHONWARNINGS': 'ignore'}


def file_hash(path):
    h = hashlib.sha256()
    with open(path, 'rb') as f:
        h.update(f.read())
    return h.hexdigest()[:16]


def ensure_base_built():
    """(Re)build the hand-written theories if any .v is newer than its .vo.  Full .vo build, never -vos."""
    mk = os.path.join(COQ_DIR, 'Makefile')
    if not os.path.exists(mk) or os.path.getmtime(mk) < os.path.getmtime(os.path.join(COQ_DIR, '_CoqProject')):
        rc, out = sh('coq_makefile -f _CoqProject -o Makefile', cwd=COQ_DIR, timeout=60)
        if rc != 0:
            raise RuntimeError('coq_makefile failed:\n' + out)
    # serialise concurrent checks
    import fcntl
    lock = open(os.path.join(COQ_DIR, '.build.lock'), 'w')
    fcntl.flock(lock, fcntl.LOCK_EX)
    try:
        rc, out = sh('timeout 3000 make -j16', cwd=COQ_DIR, timeout=3100)
    finally:
        fcntl.flock(lock, fcntl.LOCK_UN)
        lock.close()
    if rc != 0:
        raise RuntimeError('base Coq build failed:\n' + out[-4000:])
    return out


class Check(object):
    def __init__(self, prop, tier, seed, level='proof'):
        self.prop = prop
        self.tier = tier
        self.seed = seed
        self.level = level
        self.t0 = time.time()
        self.build = os.path.join(ROOT, 'build', prop)
        shutil.rmtree(self.build, ignore_errors=True)
        os.makedirs(os.path.join(self.build, 'gen'), exist_ok=True)
        self.obligations = []   # (name, ok, detail)
        self.assumptions_seen = {}  # theorem -> Print Assumptions text
        self.trusted = []
        self.assume = []
        self.samples = []
        self.cov = {}
        self.evaluations = 0
        self.nontrivial = set()
        self.rule = ''
        self.violations = []    # dicts: key, what, replay(obj), found(bool)
        self.known_hit = []
        self.notes = []
        self.checker_cmds = []
        self.findings = load_findings()

    # ---------------------------------------------------------------- Coq
    def gen_path(self, name):
        return os.path.join(self.build, 'gen', name)

    def write_gen(self, name, text):
        p = self.gen_path(name)
        with open(p, 'w') as f:
            f.write(text)
        return p

    def coqc(self, path, timeout=600):
        """Compile one generated file against the hand-written theories.  Returns (ok, output)."""
        cmd = ['timeout', str(timeout), 'coqc', '-q', '-Q', COQ_DIR, 'HV', '-Q', os.path.join(self.build, 'gen'), 'Gen', path]
        self.checker_cmds.append(' '.join(cmd))
        rc, out = sh(cmd, timeout=timeout + 20, cwd=self.build)
        return rc == 0, out

    def coqc_many(self, paths, timeout=600, jobs=16):
        """Compile independent generated files in parallel. Returns {path: (ok, out)}."""
        from concurrent.futures import ThreadPoolExecutor
        res = {}
        with ThreadPoolExecutor(max_workers=jobs) as ex:
            futs = {p: ex.submit(self.coqc, p, timeout) for p in paths}
            for p, f in futs.items():
                res[p] = f.result()
        return res

    def audit_sources(self, extra_paths=()):
        """grep the whole development (hand-written + this run's generated files) for forbidden vernacular."""
        bad = []
        paths = [os.path.join(COQ_DIR, f) for f in sorted(os.listdir(COQ_DIR)) if f.endswith('.v')]
        gen = os.path.join(self.build, 'gen')
        paths += [os.path.join(gen, f) for f in sorted(os.listdir(gen)) if f.endswith('.v')]
        paths += list(extra_paths)
        for p in paths:
            with open(p) as f:
                src = f.read()
            src_nc = strip_coq_comments(src)
            for m in FORBIDDEN.finditer(src_nc):
                w = m.group(1)
                if w in ('Variable', 'Variables', 'Hypothesis', 'Hypotheses'):
                    # allowed only inside a Section
                    if in_section(src_nc, m.start()):
                        continue
                bad.append('%s: %s' % (os.path.relpath(p, ROOT), w))
        self.oblige('audit:no-forbidden-vernacular', not bad, '; '.join(bad[:10]))
        return bad

    def harvest_assumptions(self, out):
        """Parse Print Assumptions output following lines 'PA <name>' printed by idtac/Print."""
        # Coq prints either "Closed under the global context" or "Axioms:\n name : type ..."
        blocks = re.split(r'^(?=@@PA )', out, flags=re.M)
        for b in blocks:
            m = re.match(r'@@PA (\S+)\n(.*)', b, flags=re.S)
            if m:
                self.assumptions_seen[m.group(1)] = ' '.join(m.group(2).split())[:600]

    # ---------------------------------------------------------------- bookkeeping
    def oblige(self, name, ok, detail=''):
        self.obligations.append((name, bool(ok), detail))
        return ok

    def sample(self, obj, limit=12):
        if len(self.samples) < limit:
            self.samples.append(obj)

    def count(self, key=None, nontrivial=True, n=1):
        self.evaluations += n
        if key is not None and nontrivial:
            self.nontrivial.add(key)

    def violation(self, key, what, replay, found=True):
        """Record a violation; matched against known_findings by key."""
        for f in self.findings:
            if f.get('property') == self.prop and f.get('status') == 'open' and (f.get('key') == key or key in f.get('also_keys', [])):
                if f.get('key') not in [k for k, _ in self.known_hit]:
                    self.known_hit.append((f.get('key'), f.get('what', what)))
                return False
        if any(v['key'] == key for v in self.violations):
            return True
        self.violations.append({'key': key, 'what': what, 'replay': replay, 'found': found})
        return True

    def finish(self):
        os.makedirs(os.path.join(ROOT, 'evidence'), exist_ok=True)
        os.makedirs(os.path.join(ROOT, 'replay'), exist_ok=True)
        lines = []
        for key, what in self.known_hit:
            lines.append('KNOWN-FINDING: property=%s %s [%s]' % (self.prop, what, key))
        # stale open findings (not reproduced) are reported, never a violation
        hit = {k for k, _ in self.known_hit}
        for f in self.findings:
            if f.get('property') == self.prop and f.get('status') == 'open' and f.get('key') not in hit \
                    and f.get('tier', 'quick') in ('quick', self.tier):
                self.notes.append('stale known finding (not reproduced this run): %s' % f.get('key'))
        n = 0
        for v in self.violations:
            n += 1
            safe = re.sub(r'[^A-Za-z0-9_.-]+', '_', v['key'])[:80]
            rp = os.path.join(ROOT, 'replay', '%s-%s.json' % (self.prop, safe))
            obj = dict(v['replay']) if isinstance(v['replay'], dict) else {'detail': v['replay']}
            obj.setdefault('property', self.prop)
            obj.setdefault('key', v['key'])
            obj.setdefault('what', v['what'])
            obj['failing_input_found'] = bool(v['found'])
            with open(rp, 'w') as f:
                json.dump(obj, f, indent=1, default=str)
            tail = '' if v['found'] else ' no-failing-input-found'
            lines.append('VIOLATION property=%s replay=%s%s' % (self.prop, rp, tail))
        total = len(self.obligations)
        ok = sum(1 for o in self.obligations if o[1])
        cov = dict(self.cov)
        cov.update({
            'obligations': total,
            'discharged': ok,
            'checker_cmd': '; '.join(self.checker_cmds[:6]) + (' ; … (%d coqc invocations)' % len(self.checker_cmds) if len(self.checker_cmds) > 6 else '') or 'none',
            'trusted_base': self.trusted,
            'evaluations': self.evaluations,
            'distinct_nontrivial': len(self.nontrivial),
            'rule': self.rule,
            'samples': self.samples if self.samples else [{'note': 'no samples recorded'}],
            'failed_obligations': [{'name': o[0], 'detail': o[2][:500]} for o in self.obligations if not o[1]][:40],
            'print_assumptions': self.assumptions_seen,
            'known_findings_reproduced': [k for k, _ in self.known_hit],
            'notes': self.notes[:40],
        })
        ev = {
            'property_id': self.prop, 'tier': self.tier, 'seed': self.seed, 'level': self.level,
            'coverage': cov, 'assumptions': self.assume, 'wall_s': round(time.time() - self.t0, 2),
            'violations': len(self.violations),
        }
        evdir = os.environ.get('VERIF_EVIDENCE_DIR') or os.path.join(ROOT, 'evidence')
        os.makedirs(evdir, exist_ok=True)
        with open(os.path.join(evdir, self.prop + '.json'), 'w') as f:
            json.dump(ev, f, indent=1, default=str)
        for l in lines:
            print(l)
        print('%s %s: obligations %d/%d, evaluations %d (non-trivial distinct %d), known findings %d, violations %d, %.1fs'
              % (self.prop, self.tier, ok, total, self.evaluations, len(self.nontrivial), len(self.known_hit),
                 len(self.violations), time.time() - self.t0))
        sys.stdout.flush()
        return 1 if self.violations else 0


def strip_coq_comments(src):
    out = []
    depth = 0
    i = 0
    n = len(src)
    instr = False
    while i < n:
        c = src[i]
        if depth == 0 and c == '"':
            instr = not instr
            out.append(c)
            i += 1
            continue
        if not instr and src.startswith('(*', i):
            depth += 1
            i += 2
            continue
        if not instr and depth > 0 and src.startswith('*)', i):
            depth -= 1
            i += 2
            continue
        if depth == 0:
            out.append(c)
        i += 1
    return ''.join(out)


def in_section(src, pos):
    opened = len(re.findall(r'^\s*Section\s+\w+\s*\.', src[:pos], flags=re.M))
    closed = 0
    for m in re.finditer(r'^\s*End\s+(\w+)\s*\.', src[:pos], flags=re.M):
        name = m.group(1)
        if re.search(r'^\s*Section\s+%s\s*\.' % re.escape(name), src[:m.start()], flags=re.M):
            closed += 1
    return opened > closed


def load_findings():
    p = os.path.join(ROOT, 'known_findings.jsonl')
    res = []
    if os.path.exists(p):
        with open(p) as f:
            for line in f:
                line = line.strip()
                if line and not line.startswith('#'):
                    res.append(json.loads(line))
    return res


def coq_z(n):
    n = int(n)
    return '(%d)' % n if n < 0 else '%d' % n


def coq_str(s):
    return '"' + s.replace('"', '""') + '"'


# ------------------------------------------------------------------ watchdog for the real solver (harness side, no change to /repo)
class SolveDidNotFinish(Exception):
    """raised by the harness when one Solver.solve() passes through its main loop more often than any terminating solve can"""


WATCHDOG_PASSES = 60000


def install_watchdog(solver_mod):
    """Every pass of Solver.solve()'s main loop asks the line tracker for its met dependents once.  Counting those calls per
    tracker bounds the number of passes of ONE solve: a mutated solver that spins without evaluating anything (no attempt, no prompt)
    is stopped with SolveDidNotFinish instead of hanging the check."""
    DT = solver_mod.DependencyTracker
    if getattr(DT, '_verif_watchdog', False):
        return
    orig = DT.met_dependents

    def met_dependents(self):
        n = self.__dict__.get('_verif_passes', 0) + 1
        self.__dict__['_verif_passes'] = n
        if n > WATCHDOG_PASSES:
            raise SolveDidNotFinish('more than %d passes of the main loop' % WATCHDOG_PASSES)
        return orig(self)
    DT.met_dependents = met_dependents
    DT._verif_watchdog = True
