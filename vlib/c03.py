"""C03 — every stored value is a fixed point of its definition (complete or partial solutions)."""
import random
from . import solverfam as sf, solvercorr as sc
from .common import Check


def run(tier, seed):
    ck = Check('C03', tier, seed)
    rng = random.Random(seed + 3)
    ck.rule = ('case = seeded random catalogue or real-form scenario; after the run every stored line is re-evaluated through its own '
               'definition on the final stores (bit-exact for floats); attempt order varied by random ranks; non-trivial = run with at '
               'least one blocked read / prompt / failure; distinct by JSON text')
    ck.trusted = list(sf.BASE_TRUST)
    sf.compile_props(ck, 'C03')
    n_nat, n_perm, n_real = (1200, 300, 45) if tier == 'quick' else (12000, 3000, 600)
    cases, dis_cases = sf.correspondence(ck, rng, n_nat, n_perm)
    H = sc._habutax()

    def mon(H, R, case):
        return sf.mon_c03(H, R.solver, R.ok, R.store, R.exc) if hasattr(R, 'solver') else []
    sf.run_generated_monitor(ck, H, dis_cases + cases, mon, 'C03')
    sf.run_real_monitor(ck, n_real, rng, lambda H, res, sc_: sf.mon_c03(H, res['solver'], res['ok'], res['store'], res['exc']) + sf.mon_solution_text(H, res['solver'], res['ok'], res['store'], res['exc']), 'C03')
    ck.sample({'generated_case': cases[len(cases) // 3]})
    return sf.finish_family(ck, 'C03')
