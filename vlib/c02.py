"""C02 — every computed line equals what the official form instructs for it.

 oracle  the accessibility text of every widget of the bundled IRS templates, parsed on every run by tools/instr.py (strict grammar:
         add / combine / subtract (with floor) / multiply by a rate or amount / smaller or larger of / enter the amount from line);
         oracles/instr_overrides.json for instructions that are conditional by their position on the form
 regen   tools/gen_forms.py -> Gen/Forms<y>.v ; Arith.compile turns a line body of the arithmetic fragment into an expression
         (ArithProofs.compile_sound: the stored value of such a line is the rounding of that expression, on every store)
 prove   Gen/C02_<y>.v: one lemma per (line, instruction):  forall env, <gate lines are blank> -> code expression == instruction
         expression, closed by a fixed tactic (case split on max/min, lra over Q).  Decision pass first, then the theorem pass.
 search  a failed lemma: the real line is evaluated through Field.value on seeded stores and compared with the instruction
"""
import json
import os
import random
import re
from fractions import Fraction

from . import common, scenarios, catalog, solverfam as sf
from .common import Check

import gen_forms  # noqa
import pdf_reader  # noqa
import instr  # noqa
import nc_text  # noqa

TACTIC = """Ltac qcases :=
  repeat match goal with
  | |- context[Qmax ?x ?y] => let H := fresh in let E := fresh in destruct (Q.max_spec x y) as [[H E]|[H E]]; rewrite E in *; clear E
  | |- context[Qmin ?x ?y] => let H := fresh in let E := fresh in destruct (Q.min_spec x y) as [[H E]|[H E]]; rewrite E in *; clear E
  | |- context[Qle_bool ?x ?y] => let E := fresh in destruct (Qle_bool x y) eqn:E; [apply Qle_bool_iff in E | apply Qle_bool_false in E]
  end.
Ltac line_tac := intros; cbn [aeval] in *; qcases; lra.
"""

HEAD = """From Coq Require Import ZArith QArith Qminmax Lqa List String Bool.
From HV Require Import Forms FormsCheck Arith ArithProofs.
From Gen Require Import Forms%(y)d.
Import ListNotations.
Open Scope string_scope.
Definition code_of (f l:string) (ext:bool) : option aexp :=
  match find_form cat f with
  | Some fm => match find_line (f_lines fm) l with Some ln => compile ext (l_body ln) | None => None end
  | None => None
  end.
Definition blank_lines (f:string) : list string :=
  match find_form cat f with Some fm => map l_name (filter (fun l => always_blank (l_body l)) (f_lines fm)) | None => [] end.
"""


MONITOR_ONLY = {}


def candidates(H, year, overrides):
    out = []
    MONITOR_ONLY[year] = []
    stats = {'widgets_with_arithmetic_words': 0, 'parsed': 0, 'overridden': 0}
    for cls in H['forms'].available_forms[year]:
        obj = cls(instance=gen_forms.instances_of(cls)[0])
        if not obj.pdf_file():
            continue
        try:
            t = pdf_reader.read_template(obj.pdf_file())
        except Exception:  # noqa
            continue
        names = [f.base_name() for f in obj.fields() if isinstance(f, H['fields'].FloatField) or isinstance(f, H['fields'].IntegerField)]
        if t['source'] != 'xfa':
            # N.C. templates: no accessibility text; the printed captions of the page are the instructions
            try:
                caps = nc_text.captions(obj.pdf_file())
            except Exception:  # noqa
                continue
            mapped = set(pf.field_name for pf in obj.pdf_fields() if isinstance(pf, H['pdf_fields'].TextPDFField) and getattr(pf, '_value_fn', None) is None)
            for lab, cap in caps.items():
                if re.search(r'\b(Add|Subtract|Multiply|enter the amount from)\b', cap, re.I):
                    stats['widgets_with_arithmetic_words'] += 1
                if lab not in mapped or lab not in names:
                    continue
                term = nc_text.parse(cap, names)
                if term is None or any(n not in names for n in instr.lines_of(term)):
                    continue
                stats['parsed'] += 1
                stats['parsed_from_printed_captions(N.C.)'] = stats.get('parsed_from_printed_captions(N.C.)', 0) + 1
                out.append({'form': cls.form_name, 'line': lab, 'term': term, 'text': ('%s. %s' % (lab, cap))[:200], 'obj': obj})
            continue
        seen = set()
        for pf in obj.pdf_fields():
            w = t['fields'].get(pf.pdf_field_name)
            if not w or '.' in pf.field_name or getattr(pf, '_value_fn', None) is not None or pf.field_name in seen:
                continue
            if not isinstance(pf, H['pdf_fields'].TextPDFField):
                continue
            sp = w['speak']
            if re.search(r'\b(Add|Subtract|Multiply|smaller|larger|Enter the amount from line|Combine)\b', sp, re.I):
                stats['widgets_with_arithmetic_words'] += 1
            key = '%d:%s.%s' % (year, cls.form_name, pf.field_name)
            ov = overrides.get(key) or overrides.get('*:%s.%s' % (cls.form_name, pf.field_name))
            if ov is not None:
                if ov.get('exclude'):
                    continue
                term = tuple(ov['term'][:1]) + tuple(tuple(x) if isinstance(x, list) and ov['term'][0] not in ('sum', 'sumfloor', 'sumceil0') else x for x in ov['term'][1:])
                stats['overridden'] += 1
            else:
                term = instr.parse(sp, names)
            if term is None:
                continue
            if pdf_reader.line_label(sp) and pdf_reader.line_label(sp) != pf.field_name:
                continue        # the text belongs to another line (C18 aliases)
            if any(n not in names for n in instr.lines_of(term)):
                continue
            seen.add(pf.field_name)
            stats['parsed'] += 1
            if not instr.has_coq_term(term):
                MONITOR_ONLY.setdefault(year, []).append({'form': cls.form_name, 'line': pf.field_name, 'term': term, 'text': sp[:200]})
                stats['parsed_but_only_compared_on_real_returns'] = stats.get('parsed_but_only_compared_on_real_returns', 0) + 1
                continue
            out.append({'form': cls.form_name, 'line': pf.field_name, 'term': term, 'text': sp[:200], 'obj': obj})
    return out, stats



REACH = """Fixpoint glookup (n:string) (g:list (string * list string)) : list string :=
  match g with [] => [] | (k, v) :: r => if String.eqb n k then v else glookup n r end.
Fixpoint smem2 (n:string) (l:list string) : bool := match l with [] => false | x :: r => String.eqb n x || smem2 n r end.
(* breadth-first: [front] = nodes reached so far *)
Fixpoint reach (fuel:nat) (g:list (string * list string)) (front:list string) (dst:string) : bool :=
  match fuel with
  | O => false
  | S k => if smem2 dst front then true
           else reach k g (fold_left (fun acc n => fold_left (fun a x => if smem2 x a then a else (a ++ [x])%list) (glookup n g) acc) front front) dst
  end.
"""


def ref_graph(summ, y):
    """node 'form[:instance].line' -> the lines its body names literally (static references, every syntactic path)"""
    g = {}
    for f, info in summ[y]['forms'].items():
        insts = info.get('valid_instances') or [None]
        if info.get('valid_instances') is None and info.get('instance0') is not None:
            continue          # numbered copies (w-2:0 ...): reached only through computed names
        for inst in insts:
            own = f if inst is None else '%s:%s' % (f, inst)
            for l, li in info['lines'].items():
                tgt = []
                for (k, parts, ln) in li['refs']:
                    if k != 'RV' or not all(a == 'lit' for a, b in parts):
                        continue
                    name = ''.join(b for a, b in parts)
                    tgt.append(name if '.' in name else '%s.%s' % (own, name))
                g['%s.%s' % (own, l)] = sorted(set(tgt))
    return g


def carry_obligations(H, summ, y):
    """(source node(s), destination node, sentence) from the templates' 'enter here and on Form ..., line N' sentences"""
    out = []
    ov_path = os.path.join(common.ROOT, 'oracles', 'instr_overrides.json')
    extra = json.load(open(ov_path)).get('carries', {}) if os.path.exists(ov_path) else {}
    for o in extra.get('*', []) + extra.get(str(y), []):
        sf_, sl_ = o['src'].rsplit('.', 1)
        df_, dl_ = o['dst'].rsplit('.', 1)
        if sf_ in summ[y]['forms'] and df_ in summ[y]['forms'] and sl_ in summ[y]['forms'][sf_]['lines'] and dl_ in summ[y]['forms'][df_]['lines']:
            out.append({'src': o['src'], 'dst': o['dst'], 'text': o['text'][:200], 'equal': bool(o.get('equal'))})
    for cls in H['forms'].available_forms[y]:
        obj = cls(instance=gen_forms.instances_of(cls)[0])
        if not obj.pdf_file() or cls.form_name not in summ[y]['forms']:
            continue
        try:
            t = pdf_reader.read_template(obj.pdf_file())
        except Exception:  # noqa
            continue
        info = summ[y]['forms'][cls.form_name]
        if t['source'] != 'xfa':
            try:
                caps = nc_text.captions(obj.pdf_file())
            except Exception:  # noqa
                continue
            for lab, cap in caps.items():
                if lab not in info['lines']:
                    continue
                here = '%s.%s' % (cls.form_name, lab)
                for (dform, dline) in nc_text.carries(cap):
                    if dform in summ[y]['forms'] and dline in summ[y]['forms'][dform]['lines']:
                        out.append({'src': here, 'dst': '%s.%s' % (dform, dline), 'text': ('%s. %s' % (lab, cap))[:200]})
                for (sform, sline) in nc_text.froms(cap):
                    if sform in summ[y]['forms'] and sline in summ[y]['forms'][sform]['lines']:
                        out.append({'src': '%s.%s' % (sform, sline), 'dst': here, 'text': ('%s. %s' % (lab, cap))[:200], 'equal': True})
            continue
        for pf in obj.pdf_fields():
            w = t['fields'].get(pf.pdf_field_name)
            if not w or '.' in pf.field_name or not isinstance(pf, H['pdf_fields'].TextPDFField):
                continue
            lab = pdf_reader.line_label(w['speak'])
            if lab is None or lab != pf.field_name or pf.field_name not in info['lines']:
                continue
            for (dform, dline) in instr.carries(w['speak']):
                if dform not in summ[y]['forms'] or dline not in summ[y]['forms'][dform]['lines']:
                    continue                      # destination form not implemented (Schedule 2) or line absent
                insts = info.get('valid_instances') or [None]
                for inst in insts:
                    src = '%s.%s' % (cls.form_name if inst is None else '%s:%s' % (cls.form_name, inst), pf.field_name)
                    out.append({'src': src, 'dst': '%s.%s' % (dform, dline), 'text': w['speak'][:160]})
    return out



XHEAD = """From Coq Require Import ZArith QArith Qminmax Lqa List String Bool Lia.
From HV Require Import Forms FormsCheck Xexp XexpProofs Rounding Balance.
From Gen Require Import Forms%(y)d.
Import ListNotations.
Open Scope string_scope.
Definition xblank_lines (f:string) : list string :=
  match find_form cat f with
  | Some fm => map l_name (filter (fun l => match l_body l with
                                            | [SReturn (EIf _ EUnimpl (EConst PNone))] | [SReturn (EIf _ (EConst PNone) EUnimpl)] => true
                                            | _ => false end) (f_lines fm))
  | None => [] end.
Ltac xblanks ev Hb :=
  repeat match goal with |- context[ev ?n] => lazymatch goal with H : ev n == 0 |- _ => fail | _ => idtac end;
    assert (ev n == 0) by (apply Hb; cbn; repeat (first [left; reflexivity | right])) end.
Ltac xline_tac p :=
  let H := fresh "H" in let Hb := fresh "Hb" in
  intros ev ei q Hb H; tsem_split H; rewrite H;
  first [ apply qround_eq_compat | (transitivity (qround p 0); [symmetry; apply qround_0 | apply qround_eq_compat]) ];
  cbn [xeval] in *; xblanks ev Hb; num_cases; try congruence; mm_cases; lra.
"""


def x_item(i, c, p, theorem, y):
    fs, ls = gen_forms.cstr(c['form']), gen_forms.cstr(c['line'])
    t = ['Definition XT_%d := Eval vm_compute in top_or0 (top_of cat %s %s).' % (i, fs, ls),
         'Definition XB_%d := Eval vm_compute in xblank_lines %s.' % (i, fs)]
    stmt = ('forall ev ei q, (forall n, In n XB_%d -> ev n == 0) -> tsem ev ei %d XT_%d q -> q == qround %d (xeval ev ei %s)' % (
        i, p, i, p, instr.to_xexp(c['term'])))
    if theorem:
        t.append('Lemma C02x_%d_%d : %s.\nProof. unfold XT_%d, XB_%d. xline_tac %d%%Z. Qed.' % (y, i, stmt, i, i, p))
    else:
        t.append('Goal %s.\nProof. unfold XT_%d, XB_%d. first [solve [xline_tac %d%%Z]; idtac "@@XOK %d" | idtac "@@XFAIL %d"]. Abort.' % (stmt, i, i, p, i, i))
    return '\n'.join(t)


STATUS_WORDS = [('married filing jointly', 'MFJ'), ('married filing separately', 'MFS'), ('head of household', 'HoH'),
                ('qualifying surviving spouse', 'QSS'), ('qualifying widow(er)', 'QSS'), ('single', 'S')]


def parse_status_table(sp):
    """'5. Enter the following amount for your filing status: Married filing jointly, $250,000. Married filing separately, $125,000.
    Single, Head of household, or Qualifying surviving spouse, $200,000.'  ->  {'MFJ': 250000, ...} (None unless all five statuses get exactly one amount)"""
    m = re.search(r'Enter the following amount for your filing status:\s*(.*)$', sp, re.S)
    if not m:
        return None
    table = {}
    for seg in re.findall(r'([A-Za-z][A-Za-z ,()]*?),?\s*\$([\d,]+(?:\.\d\d)?)\s*\.', m.group(1)):
        words, amount = seg[0].lower(), float(seg[1].replace(',', ''))
        rest = words
        for w, key in STATUS_WORDS:
            if w in rest:
                if key in table:
                    return None
                table[key] = amount
                rest = rest.replace(w, ' ')
        if re.sub(r'\b(or|and)\b|[ ,]', '', rest):
            return None             # words the grammar does not know: no obligation rather than a guess
    return table if set(table) == {'MFJ', 'MFS', 'HoH', 'QSS', 'S'} else None


def status_table_pass(ck, H, summ):
    """lines whose official instruction is a table of amounts by filing status: the regenerated line is evaluated in the kernel for each of the
    five statuses (theorem C02_status_tables_<y>, finite and exhaustive) and the real line is replayed on the same store"""
    from . import c08
    files = []
    for y in summ:
        fs = list(H['enum'].filing_status_2021 if y == 2021 else H['enum'].filing_status)
        enums = gen_forms.Enums(H['enum'])
        probes = []
        for cls in H['forms'].available_forms[y]:
            obj = cls(instance=gen_forms.instances_of(cls)[0])
            if not obj.pdf_file() or getattr(cls, 'valid_instances', None):
                continue
            try:
                t = pdf_reader.read_template(obj.pdf_file())
            except Exception:  # noqa
                continue
            if t['source'] != 'xfa':
                continue
            for pf in obj.pdf_fields():
                w = t['fields'].get(pf.pdf_field_name)
                if not w or '.' in pf.field_name or getattr(pf, '_value_fn', None) is not None or not isinstance(pf, H['pdf_fields'].TextPDFField):
                    continue
                table = parse_status_table(w['speak'])
                if table is None or (pdf_reader.line_label(w['speak']) and pdf_reader.line_label(w['speak']) != pf.field_name):
                    continue
                for sk, amount in table.items():
                    forms = [cls.form_name] + ([] if cls.form_name == '1040' else ['1040'])
                    probes.append({'item': 'status table', 'status': sk, 'member': fs[c08.STATUS[sk]], 'amount': amount, 'how': 'shows', 'form': cls.form_name,
                                   'instance': None, 'line': pf.field_name, 'vals': {}, 'inps': {'1040.filing_status': fs[c08.STATUS[sk]]}, 'forms': forms,
                                   'expect': float(amount), 'cite': w['speak'][:160]})
        if not probes:
            continue
        txt = [catalog.HEADER % {'y': y},
               'Definition probes : list probe := %s.' % gen_forms.clist([c08.probe_coq(p, enums) for p in probes]),
               'Goal True. idtac "@@BAD". Abort.',
               'Eval vm_compute in bad_probes cat (tax_fn %d cfg) probes.' % y,
               'Theorem C02_status_tables_%d : probes_ok cat (tax_fn %d cfg) probes = true.' % (y, y),
               'Proof. vm_compute. reflexivity. Qed.',
               'Goal True. idtac "@@PA C02_status_tables_%d". Abort.' % y, 'Print Assumptions C02_status_tables_%d.' % y]
        files.append((y, probes, ck.write_gen('C02_status_%d.v' % y, '\n'.join(txt) + '\n')))
    res = ck.coqc_many([f for _, _, f in files], timeout=600)
    n_tot = 0
    for y, probes, f in files:
        ok, out = res[f]
        ck.harvest_assumptions(out)
        bad = []
        if '@@BAD' in out:
            seg = out.split('@@BAD', 1)[1].split('@@', 1)[0].split(': list')[0]
            bad = [int(x) for x in re.findall(r'\d+', seg.replace('%nat', ''))]
        ck.oblige('theorem:C02_status_tables_%d (%d line x status probes)' % (y, len(probes)), ok or bool(bad), out[-300:] if not ok else '')
        n_tot += len(probes)
        for i, p in enumerate(probes):
            ck.count((y, 'status-table', p['form'], p['line'], p['status']), nontrivial=True)
            real = c08.replay_real(H, y, p)
            real_ok = real[0] == 'val' and isinstance(real[1], (int, float)) and abs(float(real[1]) - p['expect']) < 1e-9
            if i in bad or not real_ok:
                ck.violation('C02:%d:%s.%s:status-table:%s' % (y, p['form'], p['line'], p['status']),
                             'ty%d %s line %s for %s: the template says %s ("%s"); the real line gives %s%s' % (
                                 y, p['form'], p['line'], p['status'], p['amount'], p['cite'][:90], real, '' if i in bad else ' (the model agreed with the template!)'),
                             {'kind': 'failing-input', 'year': y, 'form': p['form'], 'line': p['line'], 'status': p['status'], 'instruction': p['cite'],
                              'inputs_store': {'1040.filing_status': str(getattr(p['member'], 'name', p['member']))}, 'expected': p['expect'],
                              'observed_on_real_line': str(real)}, found=True)
    ck.cov['status_table_instructions'] = {'line x status probes': n_tot}


def x_pass(ck, summ, per_year):
    """the same lemmas stated on the stored value through Xexp.tsem: their tie to the interpreter is XexpProofs.xtop_sound (proved)"""
    files = []
    for y, cands in per_year.items():
        txt = [XHEAD % {'y': y}, 'Goal True. idtac "@@XTOPS". Abort.',
               'Eval vm_compute in map (fun fl => match top_of cat (fst fl) (snd fl) with Some _ => 1%%nat | None => 0%%nat end) %s.' %
               gen_forms.clist(['(%s, %s)' % (gen_forms.cstr(c['form']), gen_forms.cstr(c['line'])) for c in cands]),
               'Goal True. idtac "@@XENDTOPS". Abort.']
        for i, c in enumerate(cands):
            t = summ[y]['forms'][c['form']]['lines'][c['line']]['type']
            c['places'] = int(t.split(':')[1]) if t.startswith('float') and ':' in t else (2 if t.startswith('float') else None)
            if c['places'] is not None:
                txt.append(x_item(i, c, c['places'], False, y))
        files.append((y, ck.write_gen('C02_xdec_%d.v' % y, '\n'.join(txt) + '\n')))
    res = ck.coqc_many([f for _, f in files], timeout=1200)
    tfiles = []
    out_info = {}
    for y, f in files:
        ok, out = res[f]
        if not ok:
            ck.oblige('x-decision-pass:%d' % y, False, out[-300:])
            continue
        cands = per_year[y]
        tops = [int(x) for x in re.findall(r'\d+', out.split('@@XTOPS', 1)[1].split('@@XENDTOPS')[0].split(': list')[0].replace('%nat', ''))]
        oks = set(int(x) for x in re.findall(r'@@XOK (\d+)', out))
        good = [i for i, c in enumerate(cands) if i < len(tops) and tops[i] == 1 and i in oks and c.get('places') is not None]
        for i in good:
            cands[i]['xproved'] = True
        out_info[str(y)] = {'lines_read_by_xtop': sum(tops), 'lemma_through_xtop_sound': len(good)}
        txt = [XHEAD % {'y': y}] + [x_item(i, cands[i], cands[i]['places'], True, y) for i in good]
        if good:
            txt.append('Goal True. idtac "@@PA C02x_%d_%d". Abort.\nPrint Assumptions C02x_%d_%d.' % (y, good[0], y, good[0]))
        tfiles.append((y, len(good), ck.write_gen('C02_x_%d.v' % y, '\n'.join(txt) + '\n')))
    res2 = ck.coqc_many([f for _, _, f in tfiles], timeout=1200)
    for y, n, f in tfiles:
        ok, out = res2[f]
        ck.harvest_assumptions(out)
        ck.oblige('x-theorem-pass:%d (%d lemmas on the stored value, tie proved by xtop_sound)' % (y, n), ok, out[-300:] if not ok else '')
    ck.cov['proved_end_to_end'] = out_info


def real_eval(H, obj, line, env):
    field = [f for f in obj.fields() if f.base_name() == line][0]

    class M(dict):
        def __getitem__(self, k):
            if '.' in k:
                raise KeyError(k)
            return dict.__getitem__(self, k)
    try:
        return ('val', field.value(M(), M({k: float(v) for k, v in env.items()})))
    except KeyError as e:
        return ('needs', str(e))
    except Exception as e:  # noqa
        return ('exc', '%s: %s' % (type(e).__name__, e))


def demand_value(H, year, r, qname, depth=0):
    """the REAL value of a line that the solved return r did not evaluate: Field.value of the shipped definition, on the return's own
    values and answers; lines and inputs it needs and the return lacks are evaluated / answered the same way (same answer policy)."""
    solver = r['solver']
    vals = solver._v.values
    classes = {c.form_name: c for c in H['forms'].available_forms[year]}
    cache = {}
    asked = []

    def form_obj(fq):
        fname, _, inst = fq.partition(':')
        if fq in getattr(solver, 'forms', {}):
            return solver.forms[fq]
        try:
            return classes[fname](solver=solver, instance=(int(inst) if inst.isdigit() else inst) if inst else None)
        except TypeError:
            return classes[fname](solver=solver)

    def line(q, d):
        if q in vals:
            return vals[q]
        if q in cache:
            return cache[q]
        if d > 40:
            raise RecursionError(q)
        fq, _, base = q.rpartition('.')
        fo = form_obj(fq)
        field = [f for f in fo.fields() if f.base_name() == base][0]

        class V(object):
            def __getitem__(self, k):
                return line(k if '.' in k else '%s.%s' % (fq, k), d + 1)

        class I(object):
            def __getitem__(self, k):
                k = k if '.' in k else '%s.%s' % (fq, k)
                try:
                    return r['store'][k]
                except Exception:  # noqa
                    pass
                f2, _, b2 = k.rpartition('.')
                inp = [x for x in form_obj(f2).inputs() if x.base_name() == b2][0]
                a = r['policy'].answer(inp, H)
                asked.append((k, a))
                return inp.value(a)
        cache[q] = field.value(I(), V())
        return cache[q]
    return line(qname, depth), asked


def tol_of(summ, y, c):
    """a stored line is the instruction's amount rounded to the line's places: half a unit of the last place (a cent for 2 places, as before)"""
    if y in summ:
        t = summ[y]['forms'][c['form']]['lines'][c['line']]['type']
        places = int(t.split(':')[1]) if t.startswith('float') and ':' in t else 2
    else:       # an untranslated year: the places of the real field object
        fld = [f for f in c['obj'].fields() if f.base_name() == c['line']] if c.get('obj') is not None else []
        places = getattr(fld[0], '_places', 2) if fld else 2
    return (Fraction(1, 100) if places >= 2 else Fraction(1, 2 * 10 ** places)) + Fraction(1, 10 ** 6)


def search_witness(H, c, rng, reads, blank=(), tol=Fraction(1, 100) + Fraction(1, 10 ** 6)):
    """seeded stores over the lines read; returns (env, observed, expected) on which code and instruction differ by more than a cent"""
    names = sorted(set(instr.lines_of(c['term'])) | set(reads))
    for attempt in range(400):
        env = {}
        for n in names:
            r = rng.random()
            env[n] = Fraction(0) if (r < 0.25 or n in blank) else Fraction(rng.randrange(0, 5000000), 100) if r < 0.9 else Fraction(rng.randrange(-200000, 0), 100)
        got = real_eval(H, c['obj'], c['line'], env)
        if got[0] != 'val' or not isinstance(got[1], float):
            continue
        want = instr.evaluate(c['term'], env)
        if abs(Fraction(got[1]) - want) > tol:
            return env, got[1], want
    return None


def run(tier, seed):
    ck = Check('C02', tier, seed)
    rng = random.Random(seed + 2)
    ck.rule = ('obligation = (year, form, line) whose template widget carries an arithmetic instruction that the strict grammar parses AND '
               'whose body lies in the arithmetic fragment: a Rocq lemma for ALL stores. Lines with an instruction the grammar cannot '
               'parse, or a body outside the fragment, carry no obligation and are counted. non-trivial = every obligation')
    ck.trusted = ['Coq 8.16.1 kernel; Lqa (lra over Q)', 'tools/gen_forms.py (validated), tools/pdf_reader.py, tools/pdf_text.py, tools/nc_text.py, tools/instr.py (the phrase grammars)',
                  'ArithProofs.compile_sound is proved for the core fragment; sums over constant lists and `a-b if a>b else 0.0` are recognised by '
                  'the extended fragment whose soundness is only validated (translator validation)',
                  'exact-decimal reading: rounding of each stored line to its places is part of the statement (the lemma equates the '
                  'expressions before rounding); binary64 effects are outside',
                  'coverage: IRS templates (accessibility text) and N.C. templates (printed captions decoded by tools/pdf_text.py + tools/nc_text.py); worksheets without a PDF are not covered']
    H = scenarios.habutax_modules()
    summ = catalog.generate(ck, H)
    fz_path = os.path.join(common.ROOT, 'oracles', 'c02_obligations.json')
    frozen = set(json.load(open(fz_path))['proved']) if os.path.exists(fz_path) else set()
    proved_now = set()
    seen_now = set()
    ov_path = os.path.join(common.ROOT, 'oracles', 'instr_overrides.json')
    overrides = json.load(open(ov_path))['overrides'] if os.path.exists(ov_path) else {}
    per_year = {}
    files = []
    for y in summ:
        cands, stats = candidates(H, y, overrides)
        per_year[y] = cands
        ck.cov.setdefault('instruction_coverage', {})[str(y)] = stats
        rows = ['(%s, %s)' % (gen_forms.cstr(c['form']), gen_forms.cstr(c['line'])) for c in cands]
        txt = [HEAD % {'y': y}, TACTIC,
               'Goal True. idtac "@@BLANK". Abort.',
               'Eval vm_compute in map (fun f => (f_name f, blank_lines (f_name f))) cat.',
               'Goal True. idtac "@@CLS". Abort.',
               'Eval vm_compute in map (fun fl => match code_of (fst fl) (snd fl) false, code_of (fst fl) (snd fl) true with Some _, _ => 2%%nat | None, Some _ => 1%%nat | _, _ => 0%%nat end) %s.' % gen_forms.clist(rows)]
        for i, c in enumerate(cands):
            txt += ['Definition code_%d := Eval vm_compute in code_of %s %s true.' % (i, gen_forms.cstr(c['form']), gen_forms.cstr(c['line'])),
                    'Definition blanks_%d := Eval vm_compute in blank_lines %s.' % (i, gen_forms.cstr(c['form'])),
                    'Goal forall env : string -> Q, (forall n, In n blanks_%d -> env n == 0) -> match code_%d with Some a => aeval env a == aeval env %s | None => True end.' % (
                        i, i, instr.to_aexp(c['term'])),
                    'Proof. intros env Hb; unfold blanks_%d in Hb; cbn [code_%d aeval]; '
                    'repeat match goal with |- context[env ?n] => lazymatch goal with H : env n == 0 |- _ => fail | _ => idtac end; '
                    'assert (env n == 0) by (apply Hb; cbn; repeat (first [left; reflexivity | right])) end; '
                    'first [solve [line_tac]; idtac "@@OK %d" | idtac "@@FAIL %d"]. Abort.' % (i, i, i, i)]
        files.append((y, ck.write_gen('C02_dec_%d.v' % y, '\n'.join(txt) + '\n')))
    res = ck.coqc_many([f for _, f in files], timeout=1200)
    thm_files = []
    for y, f in files:
        ok, out = res[f]
        cands = per_year[y]
        if not ok:
            ck.oblige('decision-pass:%d' % y, False, out[-400:])
            continue
        blanks = {}
        bseg = out.split('@@BLANK', 1)[1].split('@@CLS', 1)[0]
        for fm, lst in re.findall(r'\("([^"]+)",\s*\[([^\]]*)\]\)', bseg):
            blanks[fm] = set(re.findall(r'"([^"]+)"', lst))
        cls = [int(x) for x in re.findall(r'\d+', out.split('@@CLS', 1)[1].split(': list')[0].replace('%nat', ''))]
        oks = set(int(x) for x in re.findall(r'@@OK (\d+)', out))
        fails = set(int(x) for x in re.findall(r'@@FAIL (\d+)', out))
        n_obl = 0
        good = []
        explored_outside = 0
        for i, c in enumerate(cands):
            seen_now.add('%d:%s.%s' % (y, c['form'], c['line']))
            c['cls'] = cls[i] if i < len(cls) else 0
            if c['cls'] == 0:
                # body outside the fragment: no lemma. A line that
                # HAD a lemma on the baseline (oracles/c02_obligations.json) and lost it is reported (the proof no longer checks).
                reads = [''.join(b for a, b in parts if a == 'lit') for (k, parts, ln) in summ[y]['forms'][c['form']]['lines'][c['line']]['refs'] if k == 'RV']
                key = 'C02:%d:%s.%s' % (y, c['form'], c['line'])
                if '%d:%s.%s' % (y, c['form'], c['line']) not in frozen:
                    continue    # never had a lemma: its instruction is conditional on form structure the term language cannot express
                wit = search_witness(H, c, rng, [r for r in reads if '.' not in r and '*' not in r], blanks.get(c['form'], set()), tol_of(summ, y, c))
                explored_outside += 1
                if wit:
                    env, got, want = wit
                    ck.violation(key, 'ty%d %s line %s computes %s where the instruction "%s" gives %s (the body left the proved fragment; found by exploration)' % (
                        y, c['form'], c['line'], got, c['text'][:90], float(want)),
                        {'kind': 'failing-input', 'year': y, 'form': c['form'], 'line': c['line'], 'instruction_text': c['text'],
                         'instruction_term': list(c['term']), 'other_lines': {k: float(v) for k, v in env.items()},
                         'observed': got, 'expected': float(want)}, found=True)
                else:
                    ck.oblige('lemma:%d:%s.%s' % (y, c['form'], c['line']), False, 'body left the arithmetic fragment')
                    ck.violation(key, 'ty%d %s line %s: the body no longer lies in the arithmetic fragment, so the lemma equating it with "%s" is gone' % (
                        y, c['form'], c['line'], c['text'][:90]),
                        {'kind': 'proof-or-correspondence', 'theorem_or_correspondence': 'C02 lemma %d %s.%s' % (y, c['form'], c['line']),
                         'instruction_term': list(c['term'])}, found=False)
                continue
            n_obl += 1
            ck.count((y, c['form'], c['line']), nontrivial=True)
            if i in oks:
                good.append(i)
                proved_now.add('%d:%s.%s' % (y, c['form'], c['line']))
                ck.oblige('lemma:%d:%s.%s %s' % (y, c['form'], c['line'], '(core fragment)' if c['cls'] == 2 else '(extended fragment)'), True)
            else:
                reads = [''.join(b for a, b in parts if a == 'lit') for (k, parts, ln) in summ[y]['forms'][c['form']]['lines'][c['line']]['refs'] if k == 'RV']
                wit = search_witness(H, c, rng, [r for r in reads if '.' not in r and '*' not in r], blanks.get(c['form'], set()), tol_of(summ, y, c))
                ck.oblige('lemma:%d:%s.%s' % (y, c['form'], c['line']), False, 'instruction: %s' % (c['term'],))
                key = 'C02:%d:%s.%s' % (y, c['form'], c['line'])
                if wit:
                    env, got, want = wit
                    ck.violation(key, 'ty%d %s line %s computes %s where the instruction "%s" gives %s' % (
                        y, c['form'], c['line'], got, c['text'][:90], float(want)),
                        {'kind': 'failing-input', 'year': y, 'form': c['form'], 'line': c['line'], 'instruction_text': c['text'],
                         'instruction_term': list(c['term']), 'other_lines': {k: float(v) for k, v in env.items()},
                         'observed': got, 'expected': float(want),
                         'how_to_run': 'evaluate Field.value of the line on a value store holding other_lines'}, found=True)
                else:
                    ck.violation(key, 'ty%d %s line %s: the lemma equating the code with "%s" no longer checks' % (y, c['form'], c['line'], c['text'][:90]),
                                 {'kind': 'proof-or-correspondence', 'theorem_or_correspondence': 'C02 lemma %d %s.%s' % (y, c['form'], c['line']),
                                  'instruction_term': list(c['term'])}, found=False)
        ck.cov.setdefault('obligations_by_year', {})[str(y)] = {
            'lines_with_parsed_instruction': len(cands), 'body_in_fragment': n_obl,
            'core_fragment(compile_sound proved)': sum(1 for c in cands if c.get('cls') == 2),
            'explored_outside_fragment': explored_outside,
            'no_obligation_body_outside_fragment': [('%s.%s' % (c['form'], c['line'])) for c in cands if c.get('cls') == 0][:60]}
        # theorem pass: the lemmas that hold, Qed-closed
        txt = [HEAD % {'y': y}, TACTIC]
        for i in good:
            c = cands[i]
            txt += ['Definition code_%d := Eval vm_compute in code_of %s %s true.' % (i, gen_forms.cstr(c['form']), gen_forms.cstr(c['line'])),
                    'Definition blanks_%d := Eval vm_compute in blank_lines %s.' % (i, gen_forms.cstr(c['form'])),
                    'Lemma C02_%d_%d : forall env : string -> Q, (forall n, In n blanks_%d -> env n == 0) -> match code_%d with Some a => aeval env a == aeval env %s | None => True end.' % (
                        y, i, i, i, instr.to_aexp(c['term'])),
                    'Proof. intros env Hb; unfold blanks_%d in Hb; cbn [code_%d aeval]; '
                    'repeat match goal with |- context[env ?n] => lazymatch goal with H : env n == 0 |- _ => fail | _ => idtac end; '
                    'assert (env n == 0) by (apply Hb; cbn; repeat (first [left; reflexivity | right])) end; line_tac. Qed.' % (i, i)]
        if good:
            txt += ['Goal True. idtac "@@PA C02_%d_%d". Abort.' % (y, good[0]), 'Print Assumptions C02_%d_%d.' % (y, good[0])]
        thm_files.append((y, len(good), ck.write_gen('C02_%d.v' % y, '\n'.join(txt) + '\n')))
    x_pass(ck, summ, per_year)
    status_table_pass(ck, H, summ)
    # carry sentences: the destination line must (statically, through intermediate lines) read the source line - for every copy of a per-person form
    carry_files = []
    carry_bad = []
    carry_all = {}
    for y in summ:
        obs = carry_obligations(H, summ, y)
        carry_all[y] = obs
        if not obs:
            continue
        g = ref_graph(summ, y)
        gtxt = gen_forms.clist(['(%s, %s)' % (gen_forms.cstr(k), gen_forms.clist([gen_forms.cstr(x) for x in v])) for k, v in sorted(g.items())])
        txt = ['From Coq Require Import List String Bool.', 'Import ListNotations.', 'Open Scope string_scope.', REACH,
               'Definition graph : list (string * list string) := %s.' % gtxt]
        for k, o in enumerate(obs):
            txt.append('Goal True. idtac "@@CARRY %d". Abort.' % k)
            txt.append('Eval vm_compute in reach 40 graph [%s] %s.' % (gen_forms.cstr(o['dst']), gen_forms.cstr(o['src'])))
        carry_files.append((y, obs, ck.write_gen('C02_carry_%d.v' % y, '\n'.join(txt) + '\n')))
    res_c = ck.coqc_many([f for _, _, f in carry_files], timeout=600)
    for y, obs, f in carry_files:
        ok, out = res_c[f]
        if not ok:
            ck.oblige('carry-pass:%d' % y, False, out[-300:])
            continue
        n_ok = 0
        for k, o in enumerate(obs):
            seg = out.split('@@CARRY %d\n' % k, 1)[1].split('@@CARRY', 1)[0] if ('@@CARRY %d\n' % k) in out else ''
            good_k = '= true' in seg
            n_ok += good_k
            ck.count((y, 'carry', o['src'], o['dst']), nontrivial=True)
            ck.oblige('carry:%d:%s -> %s' % (y, o['src'], o['dst']), good_k, o['text'])
            if not good_k:
                carry_bad.append((y, o))
        ck.cov.setdefault('carry_sentences', {})[str(y)] = {'obligations': len(obs), 'hold': n_ok}
    res2 = ck.coqc_many([f for _, _, f in thm_files], timeout=1200)
    for y, n, f in thm_files:
        ok, out = res2[f]
        ck.harvest_assumptions(out)
        ck.oblige('theorem-pass:%d (%d lemmas Qed)' % (y, n), ok, out[-300:] if not ok else '')
    # lines proved on the baseline that are no longer even candidates (widget text no longer parsed, line or mapping gone)
    for k in sorted(frozen - seen_now):
        y, fl = k.split(':', 1)
        if int(y) in summ:
            ck.oblige('lemma:%s' % k, False, 'no longer a candidate')
            ck.violation('C02:%s' % k, 'ty%s %s: the line had an instruction lemma on the baseline and is no longer a candidate (line, mapping or template text gone)' % (y, fl),
                         {'kind': 'proof-or-correspondence', 'theorem_or_correspondence': 'C02 lemma %s' % k}, found=False)
    ck.cov['baseline_obligations'] = {'frozen': len(frozen), 'proved_now': len(proved_now), 'new_since_baseline': sorted(proved_now - frozen)[:40]}
    if os.environ.get('C02_FREEZE'):
        json.dump({'comment': 'lines whose instruction lemma is proved on the baseline tree; written by C02_FREEZE=1 ./check C02, never at check time',
                   'proved': sorted(proved_now)}, open(fz_path, 'w'), indent=1)
    # tie
    results = []
    for (year, forms, sseed, prof) in scenarios.scenario_stream(rng, 12 if tier == 'quick' else 150):
        r = scenarios.run_scenario(H, year, forms, sseed, prof)
        if r['exc'] is None:
            results.append((year, r))
    # every parsed instruction (whatever the shape of the body) against the values of REAL solved returns - also for a year whose
    # forms the fail-closed translator refused (no lemma can be stated there, but the templates and the real code are still compared)
    for y_ in common.YEARS:
        if y_ not in per_year:
            try:
                per_year[y_], _st = candidates(H, y_, overrides)
            except Exception:  # noqa
                per_year[y_] = []
    n_cmp = 0
    for (year, r) in results:
        if not r['ok'] or year not in per_year:
            continue
        vals = r['solver']._v.values
        for c in list(per_year[year]) + MONITOR_ONLY.get(year, []):
            key = '%s.%s' % (c['form'], c['line'])
            if key not in vals or not isinstance(vals[key], float):
                continue
            env = {}
            ok_env = True
            for n in instr.lines_of(c['term']):
                v = vals.get('%s.%s' % (c['form'], n))
                if isinstance(v, bool) or not isinstance(v, (int, float)):
                    ok_env = False
                    break
                env[n] = Fraction(repr(float(v)))
            if not ok_env:
                continue
            want = instr.evaluate(c['term'], env)
            n_cmp += 1
            if abs(Fraction(repr(vals[key])) - want) > tol_of(summ, year, c):
                ck.violation('C02:%d:%s' % (year, key),
                             'ty%d %s line %s is %r in a solved return where the instruction "%s" gives %s' % (year, c['form'], c['line'], vals[key], c['text'][:90], float(want)),
                             {'kind': 'failing-input', 'year': year, 'form': c['form'], 'line': c['line'], 'instruction_text': c['text'],
                              'instruction_term': list(c['term']), 'line_values': {k_: float(v_) for k_, v_ in env.items()}, 'observed': vals[key], 'expected': float(want),
                              'inputs': [(a_[0], a_[1]) for a_ in r['policy'].asked][:400]}, found=True)
    # carries: "enter the total here and on Form X, line N" / "(From Form X, Line N)" on REAL solved returns - both ends equal
    n_eq = 0
    carry_witness = {}
    for (year, r) in results:
        if not r['ok']:
            continue
        vals = r['solver']._v.values
        for o in carry_all.get(year, []):
            if not o.get('equal') or o['src'] not in vals or o['dst'] not in vals:
                continue
            a, b = vals[o['src']], vals[o['dst']]
            if isinstance(a, bool) or isinstance(b, bool) or not isinstance(a, (int, float)) or not isinstance(b, (int, float)):
                continue
            n_eq += 1
            if abs(a - b) > 0.005 and (year, o['src'], o['dst']) not in carry_witness:
                carry_witness[(year, o['src'], o['dst'])] = {'observed_source': a, 'observed_destination': b,
                                                             'inputs': [(a_[0], a_[1]) for a_ in r['policy'].asked][:400],
                                                             'forms_requested': r.get('forms_requested')}
    reported = set()
    for (y, o) in carry_bad:
        k3 = (y, o['src'], o['dst'])
        reported.add(k3)
        w = carry_witness.get(k3)
        if w is None and o.get('equal'):
            # the source was never evaluated (nothing reads it): evaluate its real definition on each solved return that holds the destination
            for (year, r) in results:
                if year != y or not r['ok'] or o['dst'] not in r['solver']._v.values:
                    continue
                if not any(k_.startswith(o['src'].rpartition('.')[0] + '.') for k_ in r['solver']._v.values):
                    continue          # the source form takes no part in this return (the carry's condition is not met)
                b = r['solver']._v.values[o['dst']]
                try:
                    a, extra = demand_value(H, y, r, o['src'])
                except Exception:  # noqa
                    continue
                if isinstance(a, (int, float)) and not isinstance(a, bool) and isinstance(b, (int, float)) and abs(a - b) > 0.005:
                    w = {'observed_source': a, 'observed_destination': b, 'source_evaluated': 'by Field.value of the shipped line on the values and answers of this return (the solve never evaluated it)',
                         'inputs': [(a_[0], a_[1]) for a_ in r['policy'].asked][:400], 'further_answers_used': extra[:60]}
                    break
        rep = {'kind': 'failing-input' if w else 'proof-or-correspondence', 'theorem_or_correspondence': 'C02 carry %d %s -> %s' % (y, o['src'], o['dst']),
               'sentence': o['text'], 'year': y}
        if w:
            rep.update(w)
        ck.violation('C02:%d:carry:%s' % (y, o['src']),
                     'ty%d: the template of %s says "%s" but %s never reads %s (on any path, directly or through other lines)%s' % (
                         y, (o['dst'] if o.get('equal') and 'From Form' in o['text'] else o['src']).split('.')[0], o['text'][-90:], o['dst'], o['src'],
                         ('; in a solved return %s is %r and %s is %r' % (o['src'], w['observed_source'], o['dst'], w['observed_destination'])) if w else ''),
                     rep, found=bool(w))
    for k3, w in carry_witness.items():
        if k3 in reported:
            continue
        y, src, dst = k3
        ck.violation('C02:%d:carry:%s' % (y, src), 'ty%d: %s is %r but %s, which the template says carries it, is %r in a solved return' % (
            y, src, w['observed_source'], dst, w['observed_destination']), dict(w, kind='failing-input', year=y, source=src, destination=dst), found=True)
    ck.cov['carries_equal_on_real_returns'] = n_eq
    # N.C. D-400 lines 20a / 20b ("North Carolina income tax withheld: a. your tax withheld, b. spouse's tax withheld"; D-401: the N.C. tax
    # withheld shown on Forms W-2 and 1099): recomputed from the state boxes of the SAME solution - every copy, both state lines of the
    # 1099s, by owner - and compared with the two lines
    n_w = 0
    BOXES = {'w-2': [('box_15', 'box_17')], '1099-g': [('box_10a_1', 'box_11_1'), ('box_10a_2', 'box_11_2')],
             '1099-int': [('box_15_1', 'box_17_1'), ('box_15_2', 'box_17_2')], '1099-div': [('box_14_1', 'box_16_1'), ('box_14_2', 'box_16_2')],
             '1099-r': [('box_14_1_state', 'box_14_1'), ('box_14_2_state', 'box_14_2')]}
    for (year, r) in results:
        if not r['ok']:
            continue
        vals = r['solver']._v.values
        if 'nc_d-400.20a' not in vals or 'nc_d-400.20b' not in vals:
            continue
        mine, spouse = Fraction(0), Fraction(0)
        complete = True
        for form, pairs in BOXES.items():
            k_ = 0
            while ('%s:%d.belongs_to' % (form, k_)) in vals:
                owner = getattr(vals['%s:%d.belongs_to' % (form, k_)], 'name', str(vals['%s:%d.belongs_to' % (form, k_)]))
                for (st, amt) in pairs:
                    sv, av = vals.get('%s:%d.%s' % (form, k_, st)), vals.get('%s:%d.%s' % (form, k_, amt))
                    if sv is not None and getattr(sv, 'name', str(sv)) == 'NC':
                        if not isinstance(av, (int, float)) or isinstance(av, bool):
                            complete = False
                            continue
                        if owner == 'spouse':
                            spouse += Fraction(repr(float(av)))
                        else:
                            mine += Fraction(repr(float(av)))
                k_ += 1
        if not complete:
            continue
        n_w += 1
        for line, want in (('20a', mine), ('20b', spouse)):
            got = vals['nc_d-400.' + line]
            if abs(Fraction(repr(float(got))) - want) > Fraction(1, 2) + Fraction(1, 10 ** 6):
                ck.violation('C02:%d:nc_d-400.%s' % (year, line),
                             'ty%d nc_d-400 line %s is %r in a solved return whose forms show %s of N.C. tax withheld for that owner' % (year, line, got, float(want)),
                             {'kind': 'failing-input', 'year': year, 'form': 'nc_d-400', 'line': line, 'observed': got, 'expected': float(want),
                              'state_boxes': {k2: str(getattr(v2, 'name', v2)) for k2, v2 in vals.items() if any(k2.endswith('.' + b) for ps in BOXES.values() for p2 in ps for b in p2)},
                              'inputs': [(a_[0], a_[1]) for a_ in r['policy'].asked][:400]}, found=True)
    ck.cov['nc_withholding_lines_recomputed_on_real_returns'] = n_w
    ck.cov['instruction_vs_real_returns'] = {'comparisons': n_cmp, 'instructions_compared_only_this_way': {str(y): len(v) for y, v in MONITOR_ONLY.items()}}
    catalog.validate(ck, H, summ, results)
    if per_year.get(2023):
        c = per_year[2023][0]
        ck.sample({'year': 2023, 'line': '%s.%s' % (c['form'], c['line']), 'text': c['text'], 'term': list(c['term'])})
    return sf.finish_family(ck, 'C02')
