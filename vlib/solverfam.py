"""Shared runner for the properties decided by the solver kernel theorems (C01, C03, C04, C05, C06, C13).

 prove      coq/Props/Cnn.v compiled against the hand-written theories (theorems closed by `exact`, Print Assumptions)
 tie        coq/Solver.v executed (vm_compute) on generated catalogues and compared with the real habutax solver
 search     the property's executable monitor runs on the REAL solver: generated catalogues + real-form scenarios
"""
import json
import os
import random
import re
import shutil

from . import common, solvercorr as sc, scenarios
from .common import Check, ROOT


class Recorder(object):
    """Mapping wrapper recording the fully-qualified keys a line definition reads."""
    def __init__(self, mapping, form, log):
        self.mapping, self.form, self.log = mapping, form, log

    def __getitem__(self, key):
        if '.' not in key:
            key = '%s.%s' % (self.form.name(), key)
        self.log.append(key)
        return self.mapping[key]

    def get(self, key, default=None):       # same contract as collections.abc.Mapping.get: only KeyError means "absent"
        try:
            return self[key]
        except KeyError:
            return default

    def __contains__(self, key):
        try:
            self[key]
        except KeyError:
            return False
        return True


def eval_field(H, solver, field, store):
    """Re-evaluate one line on the current stores; returns (kind, payload, line_reads, input_reads)."""
    lr, ir = [], []
    try:
        v = field.value(Recorder(store, field.form(), ir), Recorder(solver._v, field.form(), lr))
        return 'val', v, lr, ir
    except H['values'].UnmetDependency as e:
        return 'needv', e.dependency, lr, ir
    except H['inputs'].MissingInput as e:
        return 'needi', e.input_name, lr, ir
    except H['inputs'].MissingInputSpecification as e:
        return 'needspec', e.input_name, lr, ir
    except H['fields'].FieldNotImplemented:
        return 'unimpl', None, lr, ir
    except Exception as e:  # noqa
        return 'crash', type(e).__name__, lr, ir


def same_value(a, b):
    if type(a) is not type(b) and not (hasattr(a, 'name') and hasattr(b, 'name')):
        return False
    if hasattr(a, 'name') and hasattr(b, 'name'):
        return a.name == b.name
    if isinstance(a, float):
        return a.hex() == b.hex()
    return a == b


# ------------------------------------------------------------------ monitors (work on any solver object)
def mon_c01(H, s, ok, store, exc):
    out = []
    if exc is not None:
        return out
    fdiag, idiag = s.unmet_field_dependencies(), s.unmet_input_dependencies()
    unv = [n for n in s._solving_fields if n not in s._v.values]
    if ok:
        if s.unimplemented_fields():
            out.append('solved but unimplemented lines %s' % s.unimplemented_fields()[:3])
        if any(fdiag.values()) or any(idiag.values()):
            out.append('solved but waiters remain %s %s' % (list(fdiag)[:3], list(idiag)[:3]))
        if unv:
            out.append('solved but demanded lines have no value: %s' % sorted(unv)[:4])
        # every required line of every participating form has a value
        for fname, form in s.forms.items():
            for f in form.required_fields():
                if f.name() not in s._v.values:
                    out.append('solved but required line %s has no value' % f.name())
                    break
        # independent re-evaluation: no line of the solution is unimplemented / blocked on the final stores
        for n in list(s._v.values)[:400]:
            k = eval_field(H, s, s._field_map[n], store)
            if k[0] != 'val':
                out.append('solved but line %s re-evaluates to %s %s' % (n, k[0], k[1]))
                break
    else:
        named = set(s.unimplemented_fields())
        for d, ws in fdiag.items():
            named.update(ws)
        for d, ws in idiag.items():
            named.update(ws)
        miss = [n for n in unv if n not in named]
        if miss:
            out.append('failed but lines without a value are not named by any diagnostic: %s' % sorted(miss)[:4])
        if not s.unimplemented_fields() and not any(fdiag.values()) and not any(idiag.values()):
            out.append('failed without any diagnostic')
    return out


def mon_c03(H, s, ok, store, exc):
    out = []
    if exc is not None:
        return out
    for n, v in list(s._v.values.items()):
        k = eval_field(H, s, s._field_map[n], store)
        if k[0] != 'val' or not same_value(k[1], v):
            out.append('stored %s = %r but its definition re-evaluates to %s %r on the final stores' % (n, v, k[0], k[1]))
            if len(out) > 2:
                break
    return out


def mon_solution_text(H, s, ok, store, exc):
    """what Solver.solution() says (text) reads back, through each line's own from_string, as the stored value"""
    out = []
    if exc is not None:
        return out
    try:
        cfgp = s.solution()
    except Exception as e:  # noqa
        return ['Solver.solution() raised %r' % (e,)]
    for n, v in list(s._v.values.items()):
        sec, opt = n.split('.', 1)
        if not cfgp.has_option(sec, opt):
            continue
        try:
            w = s._field_map[n].from_string(cfgp.get(sec, opt))
        except Exception as e:  # noqa
            out.append('the solution text of %s cannot be read back: %r' % (n, e))
            break
        okv = same_value(w, v) or (isinstance(v, str) and isinstance(w, str) and
                                   '\n'.join(x.strip() for x in w.strip().split('\n')) == '\n'.join(x.strip() for x in v.strip().split('\n')))
        if not okv:
            out.append('stored %s = %r but Solver.solution() says %r' % (n, v, w))
            break
    return out


def mon_lost_waiter(H, s, ok, store, exc):
    """after a finished solve no line is still registered as waiting on a dependency that has been met"""
    out = []
    if exc is not None:
        return out
    try:
        for dep, waiters in s.unmet_field_dependencies().items():
            if waiters and dep in s._v.values:
                out.append('line(s) %s still wait on %s although it holds a value (%r): the waiter was never released' % (
                    sorted(set(w if isinstance(w, str) else w.name() for w in waiters))[:3], dep, s._v.values[dep]))
                break
        for dep, waiters in s.unmet_input_dependencies().items():
            if waiters and store.config.has_option(*dep.split('.', 1)) if '.' in dep else False:
                out.append('line(s) still wait on input %s although it is supplied' % dep)
                break
    except Exception as e:  # noqa
        out.append('diagnostics raised %r' % (e,))
    return out


def demand_closure(H, s, store, request, fields):
    """Independent closure computation on the final stores (reads recorded through wrappers)."""
    formof = lambda n: n.split('.')[0]  # noqa
    dem, forms = set(), set()
    todo = []

    def add_form(fn):
        if fn in forms or fn not in s.forms:
            return
        forms.add(fn)
        for f in s.forms[fn].required_fields():
            todo.append(f.name())
    for r in request:
        add_form(r)
    for f in fields:
        todo.append(f)
    while todo:
        n = todo.pop()
        if n in dem:
            continue
        dem.add(n)
        if n not in s._field_map:
            continue
        k = eval_field(H, s, s._field_map[n], store)
        for d in k[2]:
            add_form(formof(d))
            todo.append(d)
        if k[0] == 'needv':
            add_form(formof(k[1]))
            todo.append(k[1])
    return dem, forms


def mon_c04(H, s, ok, store, exc, request=(), fields=()):
    out = []
    if exc is not None or not ok:
        if exc is None:
            dem, _ = demand_closure(H, s, store, request, fields)
            extra = [n for n in s._v.values if n not in dem]
            if extra:
                out.append('partial solution holds lines outside the demand closure: %s' % sorted(extra)[:4])
        return out
    dem, forms = demand_closure(H, s, store, request, fields)
    have = set(s._v.values)
    if have != dem:
        out.append('solution lines != demand closure: extra %s missing %s' % (sorted(have - dem)[:4], sorted(dem - have)[:4]))
    sol_forms = set(n.split('.')[0] for n in have)
    if set(s.forms) != forms:
        out.append('participating forms != forms of the closure: extra %s missing %s' % (
            sorted(set(s.forms) - forms)[:4], sorted(forms - set(s.forms))[:4]))
    if not sol_forms <= set(s.forms):
        out.append('solution mentions forms that are not participating: %s' % sorted(sol_forms - set(s.forms))[:3])
    # the public accessor: Solver.solution() lists exactly the stored lines (option names are lower-cased by configparser)
    try:
        cfgp = s.solution()
        listed = set('%s.%s' % (sec, opt) for sec in cfgp.sections() for opt in cfgp.options(sec))
        want = set('%s.%s' % (n.split('.')[0], n.split('.', 1)[1].lower()) for n in have)
        if listed != want:
            out.append('Solver.solution() does not list exactly the solved lines: extra %s missing %s' % (
                sorted(listed - want)[:4], sorted(want - listed)[:4]))
    except Exception as e:  # noqa
        out.append('Solver.solution() raised %r' % (e,))
    return out


def snapshot(H, s, ok, exc):
    """Order-insensitive observable result."""
    if exc is not None:
        return ('abort',)
    return ('done', bool(ok),
            tuple(sorted((k, (v.name if hasattr(v, 'name') and not isinstance(v, (int, float, str)) else
                              (v.hex() if isinstance(v, float) else v), type(v).__name__)) for k, v in s._v.values.items())),
            tuple(sorted(s.forms)),
            tuple(sorted(set(s.unimplemented_fields()))),
            tuple(sorted((d, tuple(sorted(set(w)))) for d, w in s.unmet_field_dependencies().items() if w)),
            tuple(sorted((d, tuple(sorted(set(w)))) for d, w in s.unmet_input_dependencies().items() if w)))


# ------------------------------------------------------------------ the runner
def compile_props(ck, prop):
    src = os.path.join(common.COQ_DIR, 'Props', '%s.v' % prop)
    dst = ck.gen_path('%s.v' % prop)
    shutil.copy(src, dst)
    with open(src) as f:
        text = f.read()
    names = re.findall(r'^(?:Theorem|Example|Corollary)\s+(\w+)', text, flags=re.M)
    ok, out = ck.coqc(dst, timeout=600)
    ck.harvest_assumptions(out)
    for n in names:
        ck.oblige('theorem:%s' % n, ok, '' if ok else out[-600:])
    for n, pa in ck.assumptions_seen.items():
        if 'Closed under the global context' not in pa:
            ck.trusted.append('%s depends on: %s' % (n, pa[:300]))
    return ok, names


def gen_cases(rng, n, malformed_every=4):
    return [sc.gen_case(rng, malformed=(i % malformed_every == malformed_every - 1)) for i in range(n)]


def load_corpus(name):
    d = os.path.join(ROOT, 'corpus', name)
    out = []
    if os.path.isdir(d):
        for fn in sorted(os.listdir(d)):
            if fn.endswith('.json'):
                with open(os.path.join(d, fn)) as f:
                    out.append(json.load(f))
    return out


def correspondence(ck, rng, n_nat, n_perm):
    corpus = load_corpus('solver')
    cases = corpus + gen_cases(rng, n_nat)
    dis, stats, bad = sc.run_batch(ck, cases, 'nat')
    cases2 = gen_cases(rng, n_perm)
    dis2, stats2, bad2 = sc.run_batch(ck, cases2, 'perm', rank_perm_rng=random.Random(rng.random()))
    total = len(cases) + len(cases2)
    ck.cov['traces_validated_against_impl'] = total - len(dis) - len(dis2)
    ck.cov['correspondence_distribution'] = {'natural_order': stats, 'random_ranks': stats2, 'corpus': len(corpus)}
    ok = not dis and not dis2 and not bad and not bad2
    ck.oblige('correspondence:solver-model (%d programs)' % total, ok,
              'disagreements %d, uncompiled case files %d %s' % (len(dis) + len(dis2), len(bad) + len(bad2),
                                                                 (bad + bad2)[0][1][-300:] if (bad + bad2) else ''))
    for idx, case, p, c in (dis + dis2)[:3]:
        ck.notes.append('model/code disagreement on generated case: py=%s coq=%s' % (str(p)[:200], str(c)[:200]))
    return cases + cases2, [d[1] for d in dis + dis2]


def run_generated_monitor(ck, H, cases, monitor, label):
    """monitor(H, R, case) -> list of problem strings."""
    bad = 0
    for case in cases:
        try:
            R = sc.exec_case(case, H)
            probs = monitor(H, R, case)
        except Exception as e:  # noqa
            probs = ['monitor raised %r' % (e,)]
        nontriv = R.exc is not None or not R.ok or any(e[0] == 'prompt' for e in R.trace) if 'R' in dir() else True
        ck.count(json.dumps(case, sort_keys=True)[:4000], nontrivial=bool(nontriv))
        if probs:
            bad += 1
            ck.violation('%s:generated:%s' % (label, '-'.join(re.sub(r'[^a-z ]+', ' ', probs[0].lower()).split()[:4])), probs[0],
                         {'kind': 'failing-input', 'engine': 'generated catalogue on the real solver', 'case': case,
                          'problems': probs,
                          'how_to_run': './check --replay <this file>'}, found=True)
    return bad


def run_real_monitor(ck, n, rng, monitor, label, years=common.YEARS):
    """monitor(H, res, scenario) -> problems, on real-form scenarios."""
    H = scenarios.habutax_modules()
    cov = {}
    for (year, forms, seed, prof) in scenarios.scenario_stream(rng, n, years):
        res = scenarios.run_scenario(H, year, forms, seed, prof)
        kind = 'abort' if res['exc'] is not None else ('solved' if res['ok'] else 'failed')
        cov[kind] = cov.get(kind, 0) + 1
        ck.count(('real', year, tuple(forms), seed), nontrivial=True)
        try:
            probs = monitor(H, res, (year, forms, seed, prof))
        except Exception as e:  # noqa
            probs = ['monitor raised %r' % (e,)]
        if probs:
            ck.violation('%s:real:%d:%s' % (label, year, '-'.join(re.sub(r'[^a-z ]+', ' ', probs[0].lower()).split()[:4])), probs[0],
                         {'kind': 'failing-input', 'engine': 'real forms', 'year': year, 'forms': forms, 'seed': seed,
                          'profile': prof, 'answers': res['policy'].asked[:400], 'problems': probs}, found=True)
    ck.cov.setdefault('real_form_scenarios', {}).update(cov)
    return H


def finish_family(ck, label):
    failed = [o for o in ck.obligations if not o[1]]
    if failed and not ck.violations:
        ck.violation('%s:unproved' % label,
                     '%s: obligations no longer check: %s' % (label, ', '.join(o[0] for o in failed[:4])),
                     {'kind': 'proof-or-correspondence', 'theorem_or_correspondence': [o[0] for o in failed],
                      'detail': [o[2] for o in failed][:3]}, found=False)
    ck.audit_sources()
    return ck.finish()


BASE_TRUST = [
    'Coq 8.16.1 kernel; vm_compute only for the closed Examples and for executing the model in the correspondence (no native_compute)',
    'coq/Solver.v is a hand-written model of habutax/solver.py, values.py (ValueStore.__getitem__) and the read path of inputs.py; '
    'tied by executing model and real solver on the same generated catalogues (full attempt/prompt trace compared)',
    'line definitions are modelled as finite reader trees (deterministic, read-only); for the shipped forms this is what the '
    'catalogue translator checks (see C10), here it holds by construction of the generated programs',
    'sort_keys is not modelled: the theorems hold for EVERY rank function; the correspondence feeds the real sort order as ranks',
]
