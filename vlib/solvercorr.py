"""Correspondence between coq/Solver.v and the real habutax.solver.Solver on generated catalogues.

One JSON description of a random catalogue drives both sides: rendered to real habutax Form subclasses
(real IntegerField / IntegerInput / InputStore / Solver) and to Gallina [prog] terms evaluated by vm_compute.
Compared (flat integer encoding, identical on both sides): verdict, solution in store order, unimplemented list,
both trackers' _unmet dicts in order, forms dict order, input store, full attempt/prompt trace; or exception class.
"""
import zlib
import configparser
import importlib
import json
import os
import random
import re
import sys

from . import common

LINE_NAMES = ['1', '2', '2a', '3', '10', '11', 'k', 'total', '7b', '1z']
INPUT_NAMES = ['x', 'y', 'n', 'w2', 'amt']
FORM_NAMES = ['f', 'g2', 'g10', 'h', '1040', 's1', 'w']
UNSUPPORTED = 'nosuch'


def _habutax():
    for m in [k for k in sys.modules if k.startswith('habutax')]:
        del sys.modules[m]
    sys.path.insert(0, common.REPO)
    try:
        mods = {n: importlib.import_module('habutax.' + n) for n in ('solver', 'form', 'fields', 'inputs', 'values')}
    finally:
        sys.path.pop(0)
    common.install_watchdog(mods['solver'])
    return mods


# ------------------------------------------------------------------ generation
def gen_tree(rng, ctx, depth, vars_):
    """ctx: dict(local_lines, local_inputs, foreign_lines, foreign_inputs, malformed)"""
    r = rng.random()
    if depth <= 0 or r < 0.22:
        q = rng.random()
        if q < 0.08:
            return {'op': 'unimpl'}
        if ctx['malformed'] and q < 0.12:
            return {'op': 'crash', 'code': rng.randrange(1, 4)}
        if ctx['malformed'] and q < 0.15:
            return {'op': 'badtype'}
        k = rng.randrange(0, min(3, len(vars_)) + 1)
        return {'op': 'ret', 'c': rng.randrange(-5, 20), 'vars': rng.sample(vars_, k) if vars_ else []}
    if r < 0.36 and vars_:
        return {'op': 'if', 'var': rng.choice(vars_), 'c': rng.randrange(-2, 12),
                't': gen_tree(rng, ctx, depth - 1, vars_), 'e': gen_tree(rng, ctx, depth - 1, vars_)}
    var = 'v%d' % len(vars_)
    q = rng.random()
    if q < 0.55:
        pool = []
        w = rng.random()
        if w < 0.55 and ctx['local_lines']:
            pool = ctx['local_lines']
        elif ctx['foreign_lines']:
            pool = ctx['foreign_lines']
        elif ctx['local_lines']:
            pool = ctx['local_lines']
        if ctx['malformed'] and rng.random() < 0.06:
            name = rng.choice([UNSUPPORTED + '.1', rng.choice(ctx['forms']) + '.zz9'])
        elif pool:
            name = rng.choice(pool)
        else:
            return {'op': 'ret', 'c': 1, 'vars': []}
        return {'op': 'readv', 'name': name, 'var': var, 'k': gen_tree(rng, ctx, depth - 1, vars_ + [var])}
    pool = ctx['local_inputs'] if (rng.random() < 0.7 and ctx['local_inputs']) else ctx['foreign_inputs']
    if ctx['malformed'] and rng.random() < 0.05:
        name = rng.choice([UNSUPPORTED + '.x', rng.choice(ctx['forms']) + '.nope'])
    elif pool:
        name = rng.choice(pool)
    elif ctx['local_inputs']:
        name = rng.choice(ctx['local_inputs'])
    else:
        return {'op': 'ret', 'c': 2, 'vars': list(vars_[:1])}
    return {'op': 'readi', 'name': name, 'var': var, 'k': gen_tree(rng, ctx, depth - 1, vars_ + [var])}


def gen_case(rng, malformed=False, size=None):
    nforms = size or rng.randrange(1, 6)
    names = rng.sample(FORM_NAMES, nforms)
    forms = []
    for nm in names:
        multi = rng.random() < 0.3
        fd = {'name': nm, 'multi': multi,
              'inputs': rng.sample(INPUT_NAMES, rng.randrange(0, 4)),
              'lines': rng.sample(LINE_NAMES, rng.randrange(1, 7))}
        forms.append(fd)

    def inst_names(fd):
        return ['%s:%d' % (fd['name'], k) for k in (0, 1, 2)] if fd['multi'] else [fd['name']]
    all_insts = [n for fd in forms for n in inst_names(fd)]
    for fd in forms:
        foreign_lines, foreign_inputs = [], []
        for other in forms:
            if other is fd:
                continue
            for inst in inst_names(other):
                foreign_lines += ['%s.%s' % (inst, l) for l in other['lines']]
                foreign_inputs += ['%s.%s' % (inst, i) for i in other['inputs']]
        if fd['multi']:   # siblings
            for inst in inst_names(fd):
                foreign_lines += ['%s.%s' % (inst, l) for l in fd['lines'][:2]]
        ctx = {'local_lines': list(fd['lines']), 'local_inputs': list(fd['inputs']),
               'foreign_lines': foreign_lines, 'foreign_inputs': foreign_inputs,
               'malformed': malformed, 'forms': [f['name'] for f in forms if not f['multi']] or [forms[0]['name']]}
        nreq = rng.randrange(1, len(fd['lines']) + 1)
        depth = rng.choice([1, 2, 2, 3, 3, 4])
        fd['required'] = [{'name': l, 'body': gen_tree(rng, ctx, depth, [])} for l in fd['lines'][:nreq]]
        fd['optional'] = [{'name': l, 'body': gen_tree(rng, ctx, depth, [])} for l in fd['lines'][nreq:]]
    req = []
    for _ in range(rng.choice([1, 1, 1, 2, 2, 3])):
        fd = rng.choice(forms)
        req.append(rng.choice(inst_names(fd)))
    if malformed and rng.random() < 0.05:
        req.append(UNSUPPORTED)
    if rng.random() < 0.85:
        req = list(dict.fromkeys(req))
    fields = []
    if rng.random() < 0.12:
        fd = rng.choice(forms)
        inst = rng.choice(inst_names(fd))
        if inst in req or malformed:
            fields.append('%s.%s' % (inst, rng.choice(fd['lines'])))
    inputs = {}
    prompt = None if rng.random() < 0.4 else {}
    for fd in forms:
        for inst in inst_names(fd):
            for i in fd['inputs']:
                key = '%s.%s' % (inst, i)
                q = rng.random()
                if q < 0.62:
                    inputs[key] = str(rng.randrange(-3, 15))
                elif malformed and q < 0.66:
                    inputs[key] = 'zz'
                elif prompt is not None and rng.random() < 0.85:
                    prompt[key] = str(rng.randrange(-3, 15))
    return {'forms': forms, 'request': req, 'fields': fields, 'inputs': inputs, 'prompt': prompt,
            'malformed': malformed}


# ------------------------------------------------------------------ universe / ids
def tree_names(t, acc):
    if t['op'] in ('readv', 'readi'):
        acc.append((t['op'], t['name']))
        tree_names(t['k'], acc)
    elif t['op'] == 'if':
        tree_names(t['t'], acc)
        tree_names(t['e'], acc)


def universe(case):
    """All form-instance names, line names and input names that can ever be mentioned; ids in sorted order."""
    by_name = {fd['name']: fd for fd in case['forms']}
    insts = []

    def add_inst(n):
        if n not in insts:
            insts.append(n)
    for r in case['request']:
        add_inst(r)
    for f in case['fields']:
        add_inst(f.split('.')[0])
    for k in case['inputs']:
        add_inst(k.split('.')[0])
    for k in (case['prompt'] or {}):
        add_inst(k.split('.')[0])
    lines, inputs = [], []
    i = 0
    while i < len(insts):
        inst = insts[i]
        i += 1
        base = inst.split(':')[0]
        fd = by_name.get(base)
        if fd is None:
            continue
        for l in fd['required'] + fd['optional']:
            nm = '%s.%s' % (inst, l['name'])
            if nm not in lines:
                lines.append(nm)
            acc = []
            tree_names(l['body'], acc)
            for op, n in acc:
                full = n if '.' in n else '%s.%s' % (inst, n)
                add_inst(full.split('.')[0])
                tgt = lines if op == 'readv' else inputs
                if full not in tgt:
                    tgt.append(full)
        for inn in fd['inputs']:
            nm = '%s.%s' % (inst, inn)
            if nm not in inputs:
                inputs.append(nm)
    for f in case['fields']:
        if f not in lines:
            lines.append(f)
    for k in list(case['inputs']) + list(case['prompt'] or {}):
        if k not in inputs:
            inputs.append(k)
    ids = {}
    for n in insts:
        ids[('form', n)] = len(ids)
    for n in lines:
        ids[('line', n)] = len(ids)
    for n in inputs:
        ids[('input', n)] = len(ids)
    return insts, lines, inputs, ids


# ------------------------------------------------------------------ python side
class VerifCrash(Exception):
    def __init__(self, code):
        self.code = code
        super().__init__('crash %d' % code)


def make_fn(tree):
    def ev(t, s, i, v, env):
        op = t['op']
        if op == 'ret':
            return t['c'] + sum(env[x] for x in t['vars'])
        if op == 'unimpl':
            return s.not_implemented()
        if op == 'crash':
            raise VerifCrash(t['code'])
        if op == 'badtype':
            return 'text'
        if op == 'readv':
            env = dict(env)
            # a third of the reads go through Mapping.get with a default: a line that is not computed yet must still make the reader wait
            # (the accessors are Mappings; .get swallows KeyError only, and 'not yet computed' / 'missing input' are not KeyErrors)
            if zlib.crc32(t['name'].encode()) % 3 == 0:
                env[t['var']] = v.get(t['name'], 987654)
            else:
                env[t['var']] = v[t['name']]
            return ev(t['k'], s, i, v, env)
        if op == 'readi':
            env = dict(env)
            if zlib.crc32(t['name'].encode()) % 3 == 1:
                env[t['var']] = i.get(t['name'], 987654)
            else:
                env[t['var']] = i[t['name']]
            return ev(t['k'], s, i, v, env)
        if op == 'if':
            return ev(t['t'] if env[t['var']] < t['c'] else t['e'], s, i, v, env)
        raise RuntimeError(op)
    return lambda s, i, v: ev(tree, s, i, v, {})


def build_classes(case, H):
    Form, Jur = H['form'].Form, H['form'].Jurisdiction
    IntegerInput, IntegerField = H['inputs'].IntegerInput, H['fields'].IntegerField
    classes = []
    for fd in case['forms']:
        def mk(fd):
            class F(Form):
                form_name = fd['name']
                tax_year = 2099
                description = 'generated'
                long_description = 'generated form'
                jurisdiction = Jur.US
                sequence_no = 0

                def __init__(self, **kwargs):
                    ins = [IntegerInput(n) for n in fd['inputs']]
                    req = [IntegerField(l['name'], make_fn(l['body'])) for l in fd['required']]
                    opt = [IntegerField(l['name'], make_fn(l['body'])) for l in fd['optional']]
                    super().__init__(F, ins, req, opt, **kwargs)

                def needs_filing(self, values):
                    return False
            return F
        classes.append(mk(fd))
    return classes


class Exec(object):
    """One execution of the real solver on a generated case."""
    pass


def exec_case(case, H, rank_override=None, request=None, inputs=None, prompt='case', fields=None):
    solver_mod = H['solver']
    cfg = configparser.ConfigParser()
    for k, val in (case['inputs'] if inputs is None else inputs).items():
        sec, opt = k.split('.')
        if not cfg.has_section(sec):
            cfg.add_section(sec)
        cfg.set(sec, opt, val)
    R = Exec()
    R.inputs_read = set()

    class RecStore(H['inputs'].InputStore):
        def __getitem__(self, key):
            R.inputs_read.add(key)
            return super().__getitem__(key)
    store = RecStore(cfg)
    R.trace = []          # ('attempt', name) | ('prompt', input, answered, [needed_by], absent_before, readers_ok)
    R.unimpl_raised = []
    prompt_map = case['prompt'] if prompt == 'case' else prompt
    R.store = store

    def prompt_fn(missing, needed_by):
        nb = [f.name() for f in needed_by]
        absent = not store.provides(missing)
        readers_ok = True
        for f in needed_by:        # each quoted line must, right now, block on exactly this input
            try:
                f.value(H['form'].FormAccessor(store, f.form()), H['form'].FormAccessor(R.solver._v, f.form()))
                readers_ok = False
            except H['inputs'].MissingInput as mi:
                if mi.input_name != missing.name():
                    readers_ok = False
            except Exception:  # noqa
                readers_ok = False
        if missing.name() in prompt_map:
            R.trace.append(('prompt', missing.name(), 1, nb, absent, readers_ok))
            return (prompt_map[missing.name()], True)
        R.trace.append(('prompt', missing.name(), 0, nb, absent, readers_ok))
        return (None, False)

    class LoggingSolver(solver_mod.Solver):
        def _attempt_field(self, field):
            R.trace.append(('attempt', field.name()))
            return super()._attempt_field(field)

    old_sort = solver_mod.sort_keys
    if rank_override is not None:
        def sk(key):
            if not isinstance(key, str):
                key = key.name()
            return rank_override[key]
        solver_mod.sort_keys = sk
    old_limit = sys.getrecursionlimit()
    sys.setrecursionlimit(400)
    R.exc = None
    R.ok = None
    try:
        s = LoggingSolver(store, build_classes(case, H), prompt=prompt_fn if prompt_map is not None else None)
        R.solver = s
        try:
            R.ok = s.solve(list(case['request'] if request is None else request),
                           field_names=list(case['fields'] if fields is None else fields))
        except BaseException as e:  # noqa
            R.exc = e
    finally:
        solver_mod.sort_keys = old_sort
        sys.setrecursionlimit(old_limit)
    return R


def encode(R, ids, H):
    store = R.store
    e = R.exc
    if e is not None:
        if isinstance(e, NotImplementedError):
            return [0, 1, 0] + enc_inp(store, ids, H)
        if isinstance(e, AssertionError):
            return [0, 2, 0] + enc_inp(store, ids, H)
        if isinstance(e, RuntimeError):   # input not defined by its form (RecursionError before the fix)
            return [0, 3, 0] + enc_inp(store, ids, H)
        if isinstance(e, H['inputs'].InvalidInput):
            return [0, 4, ids[('input', e.input_name)]] + enc_inp(store, ids, H)
        if isinstance(e, KeyError):
            return [0, 5, 0] + enc_inp(store, ids, H)
        if isinstance(e, VerifCrash):
            return [0, 6, e.code] + enc_inp(store, ids, H)
        if isinstance(e, TypeError):
            return [0, 6, 99] + enc_inp(store, ids, H)
        return ['EXC', repr(e)]
    s = R.solver
    out = [1, 1 if R.ok else 0]
    vals = list(s._v.values.items())
    out.append(len(vals))
    for k, v in vals:
        out += [ids[('line', k)], v]
    un = s.unimplemented_fields()
    out += [len(un)] + [ids[('line', n)] for n in un]
    for tr, kind in ((s._field_dependencies, 'line'), (s._input_dependencies, 'input')):
        out.append(len(tr._unmet))
        for d, ws in tr._unmet.items():
            out += [ids[(kind, d)], len(ws)] + [ids[('line', w.name())] for w in ws]
    out += [len(s.forms)] + [ids[('form', n)] for n in s.forms]
    out += enc_inp(store, ids, H)
    out.append(len(R.trace))
    for ev in R.trace:
        if ev[0] == 'attempt':
            out += [1, ids[('line', ev[1])]]
        else:
            out += [2, ids[('input', ev[1])], ev[2], len(ev[3])] + [ids[('line', n)] for n in ev[3]]
    return out


def run_python(case, H, ids, rank_override=None):
    return encode(exec_case(case, H, rank_override=rank_override), ids, H)


def enc_inp(store, ids, H):
    """input store in ConfigParser order: (id, provided/valid flag, value)"""
    cfg = store.config
    items = []
    for sec in cfg.sections():
        for opt in cfg.options(sec):
            key = '%s.%s' % (sec, opt)
            raw = cfg.get(sec, opt)
            try:
                v = int(raw.strip()) if raw.strip() else 0
                items.append([ids[('input', key)], 1, v])
            except ValueError:
                items.append([ids[('input', key)], 0, 0])
    out = [len(items)]
    for it in items:
        out += it
    return out


# ------------------------------------------------------------------ coq side
def coq_tree(t, inst, ids):
    op = t['op']
    if op == 'ret':
        e = '(%d)' % t['c']
        for x in t['vars']:
            e = '(%s + %s)' % (e, x)
        return 'Ret %s' % e
    if op == 'unimpl':
        return 'Unimpl'
    if op == 'crash':
        return 'Crash %d' % t['code']
    if op == 'badtype':
        return 'Crash 99'
    if op in ('readv', 'readi'):
        full = t['name'] if '.' in t['name'] else '%s.%s' % (inst, t['name'])
        kind = 'line' if op == 'readv' else 'input'
        return '%s %d%%N (fun %s => %s)' % ('ReadV' if op == 'readv' else 'ReadI', ids[(kind, full)], t['var'],
                                            coq_tree(t['k'], inst, ids))
    if op == 'if':
        return '(if %s <? (%d) then %s else %s)' % (t['var'], t['c'], coq_tree(t['t'], inst, ids),
                                                    coq_tree(t['e'], inst, ids))
    raise RuntimeError(op)


def dense_ranks(names, sort_keys):
    keyed = sorted(set(names), key=sort_keys)
    ranks = {}
    r = -1
    last = object()
    for n in keyed:
        k = sort_keys(n)
        if k != last:
            r += 1
            last = k
        ranks[n] = r
    return ranks


def render_coq(case, idx, insts, lines, inputs, ids, ranks, fuel=400):
    by_name = {fd['name']: fd for fd in case['forms']}
    bodies, forms_m, fol, foi, rk = [], [], [], [], []
    for inst in insts:
        fd = by_name.get(inst.split(':')[0])
        if fd is None:
            continue
        forms_m.append('  | %d%%N => Some (FormInfo [%s] [%s] [%s])' % (
            ids[('form', inst)],
            '; '.join('%d%%N' % ids[('input', '%s.%s' % (inst, i))] for i in fd['inputs']),
            '; '.join('%d%%N' % ids[('line', '%s.%s' % (inst, l['name']))] for l in fd['required']),
            '; '.join('%d%%N' % ids[('line', '%s.%s' % (inst, l['name']))] for l in fd['optional'])))
        for l in fd['required'] + fd['optional']:
            bodies.append('  | %d%%N => %s' % (ids[('line', '%s.%s' % (inst, l['name']))], coq_tree(l['body'], inst, ids)))
    for l in lines:
        fol.append('  | %d%%N => %d%%N' % (ids[('line', l)], ids[('form', l.split('.')[0])]))
        rk.append('  | %d%%N => %d%%N' % (ids[('line', l)], ranks[l]))
    for i in inputs:
        foi.append('  | %d%%N => %d%%N' % (ids[('input', i)], ids[('form', i.split('.')[0])]))
        rk.append('  | %d%%N => %d%%N' % (ids[('input', i)], ranks[i]))
    inp = []
    for k, val in case['inputs'].items():
        try:
            inp.append('(%d%%N, Some (%d))' % (ids[('input', k)], int(val)))
        except ValueError:
            inp.append('(%d%%N, None)' % ids[('input', k)])
    ans = ['  | %d%%N => Some (%d)' % (ids[('input', k)], int(v)) for k, v in (case['prompt'] or {}).items()]
    m = 'Case%d' % idx
    txt = ['Module %s.' % m,
           'Definition body (f:name) : prog := match f with\n%s\n  | _ => Crash 0 end.' % '\n'.join(bodies),
           'Definition form (f:name) : option forminfo := match f with\n%s\n  | _ => None end.' % '\n'.join(forms_m),
           'Definition fol (d:name) : name := match d with\n%s\n  | _ => 0%%N end.' % '\n'.join(fol),
           'Definition foi (d:name) : name := match d with\n%s\n  | _ => 0%%N end.' % '\n'.join(foi),
           'Definition rank (d:name) : N := match d with\n%s\n  | _ => 0%%N end.' % '\n'.join(rk),
           'Definition ans (i:name) : option V := match i with\n%s\n  | _ => None end.' % '\n'.join(ans),
           'Definition result := solve (Cat form body fol foi) rank %d [%s] [%s] [%s] %s ans.' % (
               fuel,
               '; '.join('%d%%N' % ids[('form', r)] for r in case['request']),
               '; '.join('%d%%N' % ids[('line', f)] for f in case['fields']),
               '; '.join(inp), 'true' if case['prompt'] is not None else 'false'),
           'End %s.' % m]
    return '\n'.join(txt)


HEADER = 'From Coq Require Import ZArith NArith List Bool.\nFrom HV Require Import Solver.\nImport ListNotations.\nOpen Scope Z_scope.\n'


def cases_file(mods):
    """mods: list of (idx, text).  One result line per case, tagged."""
    out = [HEADER]
    for idx, text in mods:
        out.append(text)
        out.append('Goal True. idtac "@@R %d". Abort.' % idx)
        out.append('Eval vm_compute in render Case%d.result.' % idx)
    return '\n'.join(out) + '\n'


def parse_results(out):
    res = {}
    for blk in out.split('@@R ')[1:]:
        head, _, rest = blk.partition('\n')
        idx = int(head.strip())
        body = rest.split(': list Z')[0]
        res[idx] = [int(x) for x in re.findall(r'-?\d+', body.replace('%Z', ''))]
    return res


def run_batch(ck, cases, tag, shard=60, fuel=400, rank_perm_rng=None):
    """cases: list of JSON cases.  Returns list of (idx, case, py, coq) disagreements and stats."""
    H = _habutax()
    files = []
    py = {}
    stats = {'solved': 0, 'failed': 0, 'abort': 0, 'prompts': 0, 'with_wait': 0}
    metas = {}
    for base in range(0, len(cases), shard):
        mods = []
        for idx in range(base, min(base + shard, len(cases))):
            case = cases[idx]
            insts, lines, inputs, ids = universe(case)
            names = lines + inputs
            if rank_perm_rng is not None:
                perm = list(names)
                rank_perm_rng.shuffle(perm)
                ranks = {n: i // 2 for i, n in enumerate(perm)}   # some ties
                override = {n: (ranks[n],) for n in names}
            else:
                ranks = dense_ranks(names, H['solver'].sort_keys)
                override = None
            try:
                py[idx] = run_python(case, H, ids, rank_override=override)
            except Exception as e:  # harness/solver raised something unforeseen: a disagreement by definition
                py[idx] = ['EXC', repr(e)]
            metas[idx] = (ids,)
            mods.append((idx, render_coq(case, idx, insts, lines, inputs, ids, ranks, fuel)))
        files.append(ck.write_gen('solver_%s_%d.v' % (tag, base // shard), cases_file(mods)))
    res = ck.coqc_many(files, timeout=900)
    coq = {}
    bad_files = []
    for f in files:
        ok, out = res[f]
        if not ok:
            bad_files.append((f, out[-400:]))
            continue
        coq.update(parse_results(out))
    dis = []
    for idx, case in enumerate(cases):
        p = py.get(idx)
        c = coq.get(idx)
        if p and p[0] == 1:
            stats['solved' if p[1] == 1 else 'failed'] += 1
        elif p and p[0] == 0:
            stats['abort'] += 1
        try:
            same = p is not None and c is not None and decode(p) == decode(c)
        except Exception:
            same = False
        if not same:
            dis.append((idx, case, p, c))
    return dis, stats, bad_files


def decode(flat):
    """flat encoding -> dict (also canonicalises the input-store order, which is configparser layout, not solver state)"""
    if not flat or flat[0] == 'EXC':
        return {'exc': flat}
    pos = [0]

    def take(n=1):
        v = flat[pos[0]:pos[0] + n]
        pos[0] += n
        return v

    def names():
        n = take()[0]
        return take(n)

    def tracker():
        n = take()[0]
        out = []
        for _ in range(n):
            d = take()[0]
            out.append((d, names()))
        return out

    def inp():
        n = take()[0]
        return sorted(tuple(take(3)) for _ in range(n))
    tag = take()[0]
    if tag == 0:
        code, arg = take(2)
        return {'abort': (code, arg), 'inp': inp()}
    d = {'solved': take()[0]}
    n = take()[0]
    d['vals'] = [tuple(take(2)) for _ in range(n)]
    d['unimpl'] = names()
    d['fdep'] = tracker()
    d['idep'] = tracker()
    d['forms'] = names()
    d['inp'] = inp()
    n = take()[0]
    tr = []
    for _ in range(n):
        k = take()[0]
        if k == 1:
            tr.append(('attempt', take()[0]))
        else:
            i, a = take(2)
            tr.append(('prompt', i, a, tuple(names())))
    d['trace'] = tr
    return d
