"""./check --replay <path>: shows a stored replay and re-runs the check that wrote it (same seed and tier recorded in the evidence),
exit 1 if the same violation key is reported again."""
import json
import os
import subprocess
import sys

from . import common


def run(path):
    with open(path) as f:
        rep = json.load(f)
    prop = rep.get('property')
    key = rep.get('key')
    print(json.dumps(rep, indent=1)[:4000])
    if not prop:
        print('replay file carries no property id')
        return 2
    ev = os.path.join(common.ROOT, 'evidence', '%s.json' % prop)
    tier, seed = 'quick', None
    if os.path.exists(ev):
        e = json.load(open(ev))
        tier, seed = e.get('tier', 'quick'), e.get('seed')
    env = dict(os.environ)
    if seed is not None:
        env['VERIF_SEED'] = str(seed)
    r = subprocess.run([os.path.join(common.ROOT, 'check'), prop, '--tier', tier], env=env, stdout=subprocess.PIPE, stderr=subprocess.STDOUT, text=True)
    sys.stdout.write(r.stdout[-3000:])
    again = os.path.exists(path) and any(os.path.basename(path) in l for l in r.stdout.splitlines() if l.startswith('VIOLATION'))
    print('replay: %s %s' % (key, 'reproduced' if again else 'not reproduced on the current tree'))
    return 1 if again else 0
