"""C11 — lines only ever see validated, correctly typed, finite input values.

 prove   coq/Props/C11.v over coq/Inputs.v (all seven input classes, EVERY ASCII string)
 tie     adversarial strings through the real input classes / InputStore (file path and prompt path) and through the model
 search  the property's monitor on the real classes (valid => value converts; typed; finite; supplied never missing),
         including non-ASCII strings the model treats as opaque
"""
import configparser
import math
import os
import random
import re
from fractions import Fraction

from . import common, scenarios, solverfam as sf
from .common import Check

WS = ['', ' ', '  ', '\t', ' \t', '\n', '\x0b', '\x0c', '\r', '\x1c', '\x1f', '\x85', '\xa0']
BOOLS = ['true', 'True', 'YES', 'y', '1', 'on', 'false', 'No', 'n', '0', 'OFF', 'tru', 'yess', '2', 'o n', '']
INTS = ['0', '7', '007', '+5', '-5', '--5', '1_000', '1__0', '_1', '1_', '12a', '1.0', '1e3', '٣', '１２', '', '+', '-', '99999999999999999999999', '0x10', '1 2']
FLOATS = ['0', '1.5', '.5', '5.', '.', '1e5', '1E-5', '1e', 'e5', '1e+', '1_0.5', '1._5', '1_.5', '1.0_1', '1e1_0', 'nan', 'NaN', '-nan', 'inf', 'Infinity',
          '-inf', '+INF', 'infinit', '1e309', '-1e309', '1e308', '1.7976931348623157e308', '1.7976931348623159e308', '1e-400', '4.9e-324', '0x1p3',
          '1,000.00', '$5', '1 000', '１２.５', '', '+', '-.5e-3', '000001e300', '0.' + '0' * 40 + '1e340', '9' * 320]
ENUM_MEMBERS = ['Single', 'MarriedFilingJointly', 'HeadOfHousehold']
ENUMS = ['Single', 'single', 'Single ', ' Single', 'Singl', 'SINGLE', 'MarriedFilingJointly', 'Married Filing Jointly', '', ' ', 'None', 'Single\n',
         # names that are attributes of an Enum class without being members
         'mro', 'name', 'value', '__members__', '__class__', '__doc__', '__init__', '_member_map_', '_value2member_map_', '__module__']
SSNS = ['123-45-6789', '123456789', '123-45-678', '1234567890', '12-345-6789', '---123456789', 'abc-de-fghi', '', '123 45 6789', '１２３456789']
ACCTS = ['12345', 'A-1', '', 'abc def', '1' * 17, '1' * 18, 'ok_no', 'Ünï', '12-34']
ROUT = ['011000015', '123456789', '211111111', '331111111', '01100001', '0110000155', 'abcdefghi', '']


def gen_strings(rng, n):
    out = []
    pools = {'IBoolean': BOOLS, 'IInteger': INTS, 'IFloat': FLOATS, 'IEnum0': ENUMS, 'IEnum1': ENUMS, 'ISSN': SSNS,
             'IRegexA': ACCTS, 'IRegexR': ROUT, 'IString': ['x', ' a b ', '', '%', '%(x)s', 'a\nb', 'ü']}
    for k, pool in pools.items():
        for s in pool:
            out.append((k, s))
            out.append((k, rng.choice(WS) + s + rng.choice(WS)))
    alphabet = '0123456789+-._eEnNaAiIfFtTyY xX_\t'
    kinds = list(pools)
    while len(out) < n:
        k = rng.choice(kinds)
        base = rng.choice(pools[k])
        s = list(base)
        for _ in range(rng.randrange(0, 3)):
            op = rng.random()
            if op < 0.4 and s:
                s[rng.randrange(len(s))] = rng.choice(alphabet)
            elif op < 0.7:
                s.insert(rng.randrange(len(s) + 1), rng.choice(alphabet))
            elif s:
                del s[rng.randrange(len(s))]
        out.append((k, ''.join(s)))
    return out


def make_input(H, kind):
    I = H['inputs']
    if kind == 'IBoolean':
        return I.BooleanInput('x')
    if kind == 'IInteger':
        return I.IntegerInput('x')
    if kind == 'IFloat':
        return I.FloatInput('x')
    if kind == 'IString':
        return I.StringInput('x')
    if kind in ('IEnum0', 'IEnum1'):
        en = H['enum'].make('E', {m: 'd ' + m for m in ENUM_MEMBERS})
        return I.EnumInput('x', en, allow_empty=(kind == 'IEnum1'))
    if kind == 'ISSN':
        return I.SSNInput('x')
    if kind == 'IRegexA':
        return I.RegexInput('x', '^[0-9A-Za-z\\-]{1,17}$')
    return I.RegexInput('x', '^(0[1-9]|1[0-2]|2[1-9]|3[0-2])[0-9]{7}$')


COQ_KIND = {'IBoolean': 'IBoolean', 'IInteger': 'IInteger', 'IFloat': 'IFloat', 'IString': 'IString', 'ISSN': 'ISSN',
            'IEnum0': '(IEnum ["Single"; "MarriedFilingJointly"; "HeadOfHousehold"] false)',
            'IEnum1': '(IEnum ["Single"; "MarriedFilingJointly"; "HeadOfHousehold"] true)',
            'IRegexA': '(IRegex re_account)', 'IRegexR': '(IRegex re_routing)'}


def enc_val(v):
    import enum as pyenum
    if v is None:
        return [7]
    if isinstance(v, bool):
        return [1, 1 if v else 0]
    if isinstance(v, int):
        return [2, v]
    if isinstance(v, float):
        if math.isnan(v):
            return [5]
        if math.isinf(v):
            return [4, 1 if v < 0 else 0]
        return ['float', v]
    if isinstance(v, str):
        b = v.encode('utf8')
        return [0, len(b)] + list(b)
    if isinstance(v, pyenum.Enum):
        b = v.name.encode('utf8')
        return [6, len(b)] + list(b)
    return ['?', repr(v)]


def py_case(H, kind, s):
    """(flat encoding comparable with render_case, list of monitor problems)"""
    inp = make_input(H, kind)

    class F(object):
        def name(self):
            return 'f'
    inp.__form_init__(F())
    probs = []
    try:
        valid = bool(inp.valid(s))
    except Exception as e:  # noqa
        valid = None
        probs.append('valid() raised %s' % type(e).__name__)
    try:
        val = inp.value(s)
        conv = True
    except (ValueError, KeyError):
        val, conv = None, False
    except Exception as e:  # noqa
        val, conv = None, False
        probs.append('value() raised %s' % type(e).__name__)
    if valid and not conv:
        probs.append('valid() accepts %r but value() raises' % s)
    # the store, prompt path (set programmatically) - what a line sees
    cfg = configparser.ConfigParser(interpolation=None)
    store = H['inputs'].InputStore(cfg, {'f.x': inp})
    got = None
    try:
        store['f.x'] = s
        try:
            got = ('val', store['f.x'])
        except H['inputs'].InvalidInput:
            got = ('invalid',)
        except H['inputs'].MissingInput:
            got = ('missing',)
            probs.append('a supplied value is reported missing')
        except Exception as e:  # noqa
            got = ('raise', type(e).__name__)
            probs.append('reading a supplied value raised %s' % type(e).__name__)
    except Exception as e:  # noqa
        got = ('setraise', type(e).__name__)
    if got and got[0] == 'val':
        v = got[1]
        if not valid:
            probs.append('a line would receive %r for text the validator rejects' % (v,))
        if kind == 'ISSN' and not re.fullmatch(r'[0-9]{9}', v if isinstance(v, str) else ''):
            probs.append('a social security number that is not nine ASCII digits reaches the lines: %r' % (v,))
        T = {'IBoolean': bool, 'IInteger': int, 'IFloat': float, 'IString': str, 'ISSN': str, 'IRegexA': str, 'IRegexR': str}.get(kind)
        if T is not None and type(v) is not T:
            probs.append('value %r does not have the declared type' % (v,))
        if isinstance(v, float) and not math.isfinite(v):
            probs.append('a non-finite number %r reaches the lines' % (v,))
    flat = [1 if valid else 0]
    flat += ([1] + enc_val(val)) if conv else [0]
    flat.append(77)
    if got is None or got[0] in ('setraise',):
        flat += ['unset']
    elif got[0] == 'val':
        flat += [3] + enc_val(got[1])
    elif got[0] == 'invalid':
        flat += [2]
    elif got[0] == 'missing':
        flat += [1]
    else:
        flat += [9]
    return flat, probs


def same(py, coq):
    """compare encodings; python floats against the model's exact rational"""
    i = j = 0
    while i < len(py):
        if py[i] == 'float':
            if j + 2 >= len(coq) or coq[j] != 3:
                return False
            num, den = coq[j + 1], coq[j + 2]
            try:
                if num / den != py[i + 1]:
                    return False
            except OverflowError:
                return False
            i += 2
            j += 3
            continue
        if py[i] == 'unset':
            return True
        if j >= len(coq) or py[i] != coq[j]:
            return False
        i += 1
        j += 1
    return j == len(coq)


def run(tier, seed):
    ck = Check('C11', tier, seed)
    rng = random.Random(seed + 11)
    ck.rule = ('case = (input class, string): curated adversarial pools (white space incl. FS/GS/RS/US and NBSP, case, signs, underscores, '
               'exponents, nan/inf, overflow/underflow literals, near-miss enumeration names, unicode digits, empty) plus seeded mutations; '
               'run through the real classes, the real InputStore and the model; non-trivial = distinct (class, string) that is not plain valid text')
    ck.trusted = ['Coq 8.16.1 kernel; vm_compute for the closed Example and the correspondence',
                  'coq/Inputs.v: hand model of inputs.py incl. the int()/float() literal grammars (tied by the correspondence); bytes >= 128 are '
                  'opaque (non-ASCII strings are run through the monitor only)',
                  "re.match is a parameter of the model (IRegex matches); the two shipped patterns are re-implemented for the correspondence",
                  'float(): the model keeps the exact decimal value; rounding to binary64 is not modelled (compared as nearest double)',
                  'configparser (file path) is not modelled: exercised by writing and reading back a real file']
    sf.compile_props(ck, 'C11')
    H = scenarios.habutax_modules()
    cases = gen_strings(rng, 1500 if tier == 'quick' else 20000)
    # --- model side
    files = []
    ascii_cases = [(i, k, s) for i, (k, s) in enumerate(cases) if all(ord(c) < 128 for c in s)]
    shard = 400
    for b in range(0, len(ascii_cases), shard):
        txt = ['From Coq Require Import ZArith QArith List String Bool.', 'From HV Require Import Inputs.', 'Import ListNotations.',
               'Open Scope string_scope.']
        for (i, k, s) in ascii_cases[b:b + shard]:
            txt.append('Goal True. idtac "@@R %d". Abort.' % i)
            txt.append('Eval vm_compute in render_case %s [%s]%%Z.' % (COQ_KIND[k], '; '.join(str(ord(c)) for c in s)))
        files.append(ck.write_gen('inputs_%d.v' % (b // shard), '\n'.join(txt) + '\n'))
    res = ck.coqc_many(files, timeout=900)
    coq = {}
    okfiles = True
    for f in files:
        ok, out = res[f]
        if not ok:
            okfiles = False
            ck.notes.append(out[-300:])
            continue
        for blk in out.split('@@R ')[1:]:
            head, _, rest = blk.partition('\n')
            body = rest.split(': list Z')[0]
            coq[int(head.strip())] = [int(x) for x in re.findall(r'-?\d+', body.replace('%Z', ''))]
    dis = 0
    dist = {}
    for i, (k, s) in enumerate(cases):
        flat, probs = py_case(H, k, s)
        dist[k] = dist.get(k, 0) + 1
        ck.count((k, s), nontrivial=(flat[0] == 0 or s != s.strip() or not s))
        for p in probs[:1]:
            ck.violation('C11:%s:%s' % (k, '-'.join(re.sub(r'[^a-z ]+', ' ', p.lower()).split()[:5])), '%s %r: %s' % (k, s, p),
                         {'kind': 'failing-input', 'input_class': k, 'string': s, 'problems': probs}, found=True)
        if i in coq and not same(flat, coq[i]):
            dis += 1
            if dis <= 4:
                ck.notes.append('model/code disagreement %s %r: py=%s coq=%s' % (k, s, flat[:14], coq[i][:14]))
    ck.oblige('correspondence:inputs-model (%d ASCII cases)' % len(ascii_cases), okfiles and dis == 0, '%d disagreements' % dis)
    ck.cov['case_distribution'] = dist
    ck.cov['non_ascii_cases_monitor_only'] = len(cases) - len(ascii_cases)
    # --- file path: write a real INI file and read it back through InputStore
    path = os.path.join(ck.build, 'file_path.ini')
    n_file = 0
    for (k, s) in cases[:400]:
        if '\n' in s or '\r' in s or s.strip() != s or s.startswith(('#', ';')) or any(ord(c) < 32 for c in s):
            continue
        with open(path, 'w') as f:
            f.write('[f]\nx = %s\n' % s)
        inp = make_input(H, k)

        class F(object):
            def name(self):
                return 'f'
        inp.__form_init__(F())
        try:
            store = H['inputs'].InputStore(path, {'f.x': inp})
        except Exception as e:  # noqa
            continue
        n_file += 1
        try:
            v = store['f.x']
            if not inp.valid(s):
                ck.violation('C11:%s:file-path-invalid-text-converted' % k, '%s %r from the file reaches lines as %r' % (k, s, v),
                             {'kind': 'failing-input', 'input_class': k, 'string': s, 'via': 'file'}, found=True)
            if isinstance(v, float) and not math.isfinite(v):
                ck.violation('C11:%s:file-path-non-finite' % k, '%s %r from the file is non-finite' % (k, s),
                             {'kind': 'failing-input', 'input_class': k, 'string': s, 'via': 'file'}, found=True)
        except H['inputs'].InvalidInput:
            pass
        except H['inputs'].MissingInput:
            if s != '':
                pass
        except Exception as e:  # noqa
            ck.violation('C11:%s:file-path-raises' % k, '%s %r supplied in the file raises %s when read' % (k, s, type(e).__name__),
                         {'kind': 'failing-input', 'input_class': k, 'string': s, 'via': 'file', 'exception': repr(e)}, found=True)
    ck.cov['file_path_cases'] = n_file
    # an input that was NOT supplied never silently defaults: every input of every shipped form, looked up in an empty store (and in a
    # store that has the section but not the option), must be reported missing - optional enumerations and text included
    from . import scenarios as _sc0
    from . import catalog as _cat  # noqa  (puts tools/ on the path)
    import gen_forms as _gf
    H0 = _sc0.habutax_modules()
    n_absent = 0
    for y_ in common.YEARS:
        for cls in H0['forms'].available_forms[y_]:
            try:
                obj = cls(instance=_gf.instances_of(cls)[0])
            except Exception:  # noqa
                continue
            for inp in obj.inputs():
                for with_section in (False, True):
                    cfg0 = configparser.ConfigParser(interpolation=None)
                    if with_section:
                        cfg0.add_section(inp.section())
                        cfg0.set(inp.section(), 'some_other_option', 'x')
                    st0 = H0['inputs'].InputStore(cfg0, {inp.name(): inp})
                    n_absent += 1
                    try:
                        got0 = ('val', st0[inp.name()])
                    except H0['inputs'].MissingInput:
                        got0 = ('missing',)
                    except Exception as e:  # noqa
                        got0 = ('raise', type(e).__name__)
                    if got0[0] != 'missing' or st0.provides(inp):
                        ck.violation('C11:absent-input-defaults:%s' % type(inp).__name__,
                                     'ty%d input %s (%s%s) is not in the input file, yet reading it gives %r instead of being reported missing' % (
                                         y_, inp.name(), type(inp).__name__, ', allow_empty' if getattr(inp, 'allow_empty', False) else '', got0),
                                     {'kind': 'failing-input', 'year': y_, 'input': inp.name(), 'input_class': type(inp).__name__,
                                      'store': 'empty' if not with_section else 'section present, option absent', 'observed': repr(got0)}, found=True)
            ck.count(('absent', y_, cls.form_name), nontrivial=True)
    ck.cov['absent_input_lookups'] = n_absent
    # the solver's side of the gate: a supplied value that its validator rejects makes the solve stop with InvalidInput naming the input -
    # it is neither treated as missing (and asked for again) nor handed to a line
    from . import scenarios as _sc
    Hs = _sc.habutax_modules()
    bad_values = [('w-2:0.box_1', '12,595.47'), ('w-2:0.box_2', 'nan'), ('w-2:0.box_13_retirement', 'maybe'), ('w-2:0.box_12a_code', 'not-a-code')]
    n_solver = 0
    for y_ in common.YEARS:
        for (name, text) in bad_values:
            prof = {'status': 'Single', 'amounts': 'cents', 'wages': 50000, 'n_w2': 1, 'others': False, 'zero_frac': 0.8, 'benign_true': 0.5, 'n_dep': 0}
            asked = []
            r = _sc.run_scenario(Hs, y_, ['w-2:0'], 5, prof, initial={name: text}, on_prompt=lambda m, nb, st, rr: asked.append(m.name()))
            n_solver += 1
            ck.count(('solver-gate', y_, name, text), nontrivial=True)
            if not isinstance(r['exc'], Hs['inputs'].InvalidInput):
                ck.violation('C11:solver:invalid-supplied-value-not-refused',
                             'ty%d: %s = %r is supplied in the input file and rejected by its validator, yet the solve ends with %s%s instead of InvalidInput' % (
                                 y_, name, text, ('%s' % type(r['exc']).__name__) if r['exc'] is not None else 'a verdict (solved=%s)' % r['ok'],
                                 ' after prompting for it' if name in asked else ''),
                             {'kind': 'failing-input', 'year': y_, 'forms': ['w-2:0'], 'input_file': {name: text}, 'prompted_for': asked[:5]}, found=True)
                break
    ck.cov['solver_gate_cases'] = n_solver
    ck.sample({'class': cases[40][0], 'string': cases[40][1], 'python': py_case(H, cases[40][0], cases[40][1])[0][:12]})
    return sf.finish_family(ck, 'C11')
