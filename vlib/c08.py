"""C08 — year- and status-indexed statutory amounts are the official ones.

 oracle  oracles/statutory.json: published amounts by (year, status, item) with citations, written from the publications
 regen   tools/gen_forms.py -> Gen/Forms<y>.v (threshold tables AND the inline if/elif chains live in the translated lines)
 prove   Gen/C08_<y>.v: every (year, status, item) probe evaluates, in the model of the shipped line, to the published amount
         (or switches outcome exactly at it) - exhaustive over the finite triple set, by vm_compute
 tie     translator validation; each probe is also replayed on the real line through Field.value
 search  a failing probe IS a concrete input (status + minimal store); it is replayed on the real code
"""
import json
import os
import random
import re

from . import common, scenarios, catalog, solverfam as sf
from .common import Check

import gen_forms  # noqa
import pdf_reader  # noqa
import pdf_text  # noqa

STATUS = {'S': 0, 'MFJ': 1, 'MFS': 2, 'HoH': 3, 'QSS': 4}


def build_probes(H, year, items):
    fs = list(H['enum'].filing_status_2021 if year == 2021 else H['enum'].filing_status)
    enums = gen_forms.Enums(H['enum'])
    probes = []
    for it in items:
        vals_by_year = it['values'].get(str(year))
        if vals_by_year is None:
            continue
        if not isinstance(vals_by_year, dict):          # one amount for every filing status
            vals_by_year = {sk: vals_by_year for sk in STATUS}
        pr = it['probe']

        def expectation(e, amount):
            if isinstance(e, dict):                       # differs by year
                e = e[str(year)]
            if e == 'amount':
                return int(amount) if pr.get('int') else float(amount)
            return e
        for sk, amount in vals_by_year.items():
            member = fs[STATUS[sk]]
            base_inps = dict(pr.get('inps', {}))
            base_inps['1040.filing_status'] = member
            forms = pr.get('forms', [pr['form']])
            variants = []
            if pr.get('kind') == 'switch':
                lo, hi = (float(amount) - 0.01, float(amount)) if pr.get('at_is_above') else (float(amount), float(amount) + 0.01)
                v1 = dict(pr['vals']); v1[pr['var']] = lo
                v2 = dict(pr['vals']); v2[pr['var']] = hi
                variants = [(v1, expectation(pr['below'], lo), 'at'), (v2, expectation(pr['above'], hi), 'just above')]
                if pr.get('var_is_input'):
                    variants = [(dict(pr['vals']), e, how, {pr['var']: v[pr['var']]}) for v, e, how in variants]
            else:
                variants = [(dict(pr['vals']), expectation('amount', amount), 'shows')]
            for var in variants:
                vals, expect, how = var[:3]
                inps = dict(base_inps)
                if len(var) > 3:
                    inps.update(var[3])
                probes.append({'item': it['item'], 'status': sk, 'member': member, 'amount': amount, 'how': how,
                               'form': pr['form'], 'instance': pr.get('instance'),
                               'line': pr.get('line_by_year', {}).get(str(year), pr['line']), 'vals': vals, 'inps': inps, 'forms': forms,
                               'expect': expect, 'cite': it['cite']})
    return probes, enums


def probe_coq(p, enums):
    def store(d):
        return gen_forms.clist(['(%s, %s)' % (gen_forms.cstr(k), catalog.pv_of(v, enums)) for k, v in d.items()])
    e = p['expect']
    exp = 'XUnimpl' if e == 'unimpl' else '(XVal %s)' % catalog.pv_of(e, enums)
    inst = 'None' if not p.get('instance') else '(Some %s)' % gen_forms.cstr(p['instance'])
    return '(%s, %s, %s, %s, %s, %s, %s)' % (gen_forms.cstr(p['form']), inst, gen_forms.cstr(p['line']), store(p['vals']), store(p['inps']),
                                               gen_forms.clist([gen_forms.cstr(f) for f in p['forms']]), exp)


def replay_real(H, year, p):
    """evaluate the real line on the probe's store"""
    classes = {c.form_name: c for c in H['forms'].available_forms[year]}

    class FakeSolver(object):
        def __init__(self):
            self.forms = {}
    fsolver = FakeSolver()
    for fn in p['forms']:
        if fn == p['form'] and p.get('instance'):
            fsolver.forms[fn] = classes[fn](solver=fsolver, instance=p['instance'])
        else:
            fsolver.forms[fn] = classes[fn](solver=fsolver)
    form = fsolver.forms[p['form']]
    fq = p['form'] + (':' + p['instance'] if p.get('instance') else '')
    cand = [f for f in form.fields() if f.base_name() == p['line']]
    if not cand:
        return ('exc', 'no line %s in form %s' % (p['line'], p['form']))
    field = cand[0]

    class M(dict):
        def __getitem__(self, k):
            if '.' not in k:
                k = '%s.%s' % (fq, k)
            if k not in self:
                raise KeyError('probe store lacks %s' % k)
            return dict.__getitem__(self, k)
    try:
        return ('val', field.value(M(p['inps']), M(p['vals'])))
    except Exception as e:  # noqa
        return ('exc', '%s: %s' % (type(e).__name__, e))


_TEXT = {}


def template_text(path, source):
    """printed page text (content streams) or the accessibility text of the widgets, whitespace-normalised"""
    if (path, source) not in _TEXT:
        if source == 'page':
            t = ' '.join(r[3] for r in pdf_text.page_lines(path))
        else:
            tm = pdf_reader.read_template(path)
            t = ' '.join(w['speak'] for w in tm['fields'].values())
        _TEXT[(path, source)] = re.sub(r'\$\s+', '$', re.sub(r'\s+', ' ', t))
    return _TEXT[(path, source)]


def printed_check(ck, year, items):
    """the amounts PRINTED in the bundled templates of the year against the oracle's published amounts"""
    from decimal import Decimal
    base = os.path.join(common.REPO, 'habutax', 'forms', 'ty%d' % year)
    n_ok, absent = 0, []
    for it in items:
        vals = it['values'].get(str(year))
        if vals is None or not it.get('printed'):
            continue
        if not isinstance(vals, dict):
            vals = {sk: vals for sk in STATUS}
        for sp in it['printed']:
            path = os.path.join(base, sp['file'])
            if not os.path.exists(path):
                absent.append('%s:%s (no %s)' % (year, it['item'], sp['file']))
                continue
            try:
                text = template_text(path, sp['source'])
            except Exception as e:  # noqa
                ck.oblige('printed:%d:%s' % (year, it['item']), False, 'template %s unreadable: %s' % (sp['file'], e))
                continue
            ms = list(re.finditer(sp['regex'], text))
            if not ms:
                absent.append('%s:%s:%s' % (year, it['item'], '/'.join(sp['statuses'])))
                continue
            for sk, grp in sp['statuses'].items():
                if sk not in vals:
                    continue
                printed = set(Decimal(m.group(grp).replace(',', '')) * sp.get('mult', 1) for m in ms)
                good = printed == {Decimal(str(vals[sk]))}
                ck.count((year, 'printed', it['item'], sk), nontrivial=True)
                ck.oblige('printed:%d:%s:%s %s prints %s' % (year, it['item'], sk, sp['file'], sorted(str(x) for x in printed)), good)
                n_ok += good
                if not good:
                    ck.violation('C08:%d:%s:%s:printed' % (year, it['item'], sk),
                                 'ty%d %s for %s: the bundled template %s prints %s where the published table has %s' % (
                                     year, it['item'], sk, sp['file'], sorted(str(x) for x in printed), vals[sk]),
                                 {'kind': 'proof-or-correspondence', 'theorem_or_correspondence': 'C08 printed amount %d %s %s (%s)' % (year, it['item'], sk, sp['file']),
                                  'printed': sorted(str(x) for x in printed), 'published': vals[sk], 'cite': it['cite'], 'pattern': sp['regex']}, found=False)
    ck.cov.setdefault('printed_in_bundled_templates', {})[str(year)] = {'agree': n_ok, 'pattern_not_found_in_this_years_template': absent}


def run(tier, seed):
    ck = Check('C08', tier, seed)
    ck.rule = ('triple = (tax year, filing status, statutory item) from oracles/statutory.json (exhaustive over the table); each is a probe '
               'of a shipped line on a minimal store, evaluated in the regenerated model inside the kernel and replayed on the real '
               'line; non-trivial = every triple (each has a distinct published amount or switch point)')
    ck.trusted = ['Coq 8.16.1 kernel + vm_compute', 'tools/gen_forms.py (validated by translator validation)',
                  'oracles/statutory.json: hand transcription of Rev. Proc. 2020-45 / 2021-45 / 2022-38, IRC sections, N.C. D-401 (cited per item)',
                  'exact-decimal reading of float constants (the amounts are short decimals, exactly representable comparisons)',
                  'coverage is the item list of the oracle; amounts not listed there are not checked']
    H = scenarios.habutax_modules()
    summ = catalog.generate(ck, H)
    items = json.load(open(os.path.join(common.ROOT, 'oracles', 'statutory.json')))['items']
    ck.trusted[-1] = 'coverage is the item list of the oracle (%d items); amounts not listed there are not checked' % len(items)
    files = []
    for y in summ:
        probes, enums = build_probes(H, y, items)
        txt = [catalog.HEADER % {'y': y},
               'Definition probes : list probe := %s.' % gen_forms.clist([probe_coq(p, enums) for p in probes]),
               'Goal True. idtac "@@BAD". Abort.',
               'Eval vm_compute in bad_probes cat (tax_fn %d cfg) probes.' % y,
               'Theorem C08_statutory_amounts_%d : probes_ok cat (tax_fn %d cfg) probes = true.' % (y, y),
               'Proof. vm_compute. reflexivity. Qed.',
               'Goal True. idtac "@@PA C08_statutory_amounts_%d". Abort.' % y, 'Print Assumptions C08_statutory_amounts_%d.' % y]
        files.append((y, probes, ck.write_gen('C08_%d.v' % y, '\n'.join(txt) + '\n')))
    res = ck.coqc_many([f for _, _, f in files], timeout=600)
    for y, probes, f in files:
        ok, out = res[f]
        ck.harvest_assumptions(out)
        bad = []
        if '@@BAD' in out:
            seg = out.split('@@BAD', 1)[1].split('@@', 1)[0].split(': list')[0]
            bad = [int(x) for x in re.findall(r'\d+', seg.replace('%nat', ''))]
        ck.oblige('theorem:C08_statutory_amounts_%d (%d probes)' % (y, len(probes)), ok, out[-300:] if not ok else '')
        for i, p in enumerate(probes):
            ck.count((y, p['item'], p['status'], p['how']), nontrivial=True)
            real = replay_real(H, y, p)
            if p['expect'] == 'unimpl':
                real_ok = real[0] == 'exc' and real[1].startswith('FieldNotImplemented')
            else:
              real_ok = real[0] == 'val' and sf.same_value(real[1], p['expect'] if not isinstance(p['expect'], float) else round(p['expect'], 2)) \
                or (real[0] == 'val' and isinstance(real[1], float) and isinstance(p['expect'], float) and abs(real[1] - p['expect']) < 1e-9)
            if i in bad or not real_ok:
                ck.violation('C08:%d:%s:%s' % (y, p['item'], p['status']),
                             'ty%d %s for %s: published %s (%s); line %s.%s %s gives %s on the real code%s' % (
                                 y, p['item'], p['status'], p['amount'], p['cite'][:60], p['form'], p['line'], p['how'], real,
                                 '' if i in bad else ' (model agreed with the oracle!)'),
                             {'kind': 'failing-input', 'year': y, 'item': p['item'], 'status': p['status'], 'published': p['amount'],
                              'cite': p['cite'], 'form': p['form'], 'line': p['line'],
                              'values_store': {k: str(v) for k, v in p['vals'].items()},
                              'inputs_store': {k: str(getattr(v, 'name', v)) for k, v in p['inps'].items()},
                              'expected': str(p['expect']), 'observed_on_real_line': str(real)}, found=True)
        ck.sample({'year': y, 'probe': {k: str(v) for k, v in probes[0].items()}})
        printed_check(ck, y, items)
    ck.cov['exhaustive'] = True
    # tie: translator validation on a few real returns
    rng = random.Random(seed + 8)
    results = []
    for (year, forms, sseed, prof) in scenarios.scenario_stream(rng, 12 if tier == 'quick' else 150):
        r = scenarios.run_scenario(H, year, forms, sseed, prof)
        if r['exc'] is None:
            results.append((year, r))
    catalog.validate(ck, H, summ, results)
    return sf.finish_family(ck, 'C08')
