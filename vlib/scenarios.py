"""Real-form scenario corpus: seeded descriptions of returns, answered through the solver's own prompt interface.

A scenario is (year, forms, seed, profile, overrides).  Inputs are not listed a priori: every input the real solver
asks for is answered by a deterministic typed policy (seeded by scenario seed + input name), so new inputs added to
the forms are exercised automatically.  Gate-like booleans default to False; `overrides` pins chosen inputs.
"""
import configparser
import hashlib
import importlib
import random
import sys

from . import common

BENIGN_TRUE = {'itemize', 'checking_account', 'you_presidential_election', 'spouse_presidential_election',
               'you_blind', 'spouse_blind', 'you_over_65', 'spouse_over_65', 'savings_account'}


def habutax_modules():
    for m in [k for k in sys.modules if k.startswith('habutax')]:
        del sys.modules[m]
    sys.path.insert(0, common.REPO)
    try:
        import warnings
        warnings.filterwarnings('ignore')
        H = {n: importlib.import_module('habutax.' + n) for n in
             ('solver', 'form', 'fields', 'inputs', 'values', 'forms', 'enum', 'pdf_filler', 'pdf_fields')}
        H['top'] = importlib.import_module('habutax')
    finally:
        sys.path.pop(0)
    common.install_watchdog(H['solver'])
    return H


def _rng(seed, name):
    h = hashlib.sha256(('%s|%s' % (seed, name)).encode()).digest()
    return random.Random(int.from_bytes(h[:8], 'big'))


class Policy(object):
    def __init__(self, seed, profile, overrides=None):
        self.seed = seed
        self.profile = profile
        self.overrides = dict(overrides or {})
        self.asked = []

    def amount(self, r, name):
        p = self.profile.get('amounts', 'cents')
        base = name.split('.')[-1]
        if p == 'zeros':
            return 0.0
        big = 'box_1' in base and name.startswith('w-2')
        if big:
            w = self.profile.get('wages', 60000)
            v = w * r.uniform(0.5, 1.5)
        elif (not self.profile.get('foreign')) and ((name.startswith('1099-int') and base == 'box_6') or
                                                     (name.startswith('1099-div') and base in ('box_7', 'box_5'))):
            return 0.0
        elif r.random() < self.profile.get('zero_frac', 0.55):
            return 0.0
        else:
            v = r.choice([r.uniform(0, 50), r.uniform(0, 2500), r.uniform(0, 15000)])
        if p == 'round':
            return float(int(v))
        if p == 'big':
            return round(v * 8, 2)
        return round(v, 2)

    def answer(self, inp, H):
        name = inp.name()
        base = inp.base_name()
        if name in self.overrides:
            return str(self.overrides[name])
        if base in self.overrides:
            return str(self.overrides[base])
        r = _rng(self.seed, name)
        I = H['inputs']
        t = type(inp)
        if t is I.BooleanInput:
            import re as _re
            m = _re.match(r'dependent_(\d+)_ctc$', base)
            if m:
                return 'yes' if int(m.group(1)) < min(self.profile.get('n_dep', 0), self.profile.get('n_u17', 0)) else 'no'
            if base == 'itemize':
                return 'yes' if self.profile.get('itemize') else 'no'
            if base in BENIGN_TRUE and r.random() < self.profile.get('benign_true', 0.5):
                return 'yes'
            return 'no'
        if t is I.IntegerInput:
            if base.startswith('number_'):
                if base == 'number_w-2':
                    return str(self.profile.get('n_w2', 1))
                if base == 'number_dependents':
                    return str(self.profile.get('n_dep', 0))
                if base == 'number_under_17':
                    return str(min(self.profile.get('n_dep', 0), self.profile.get('n_u17', 0)))
                if base == 'number_1099-oid':
                    return '0'
                if base == 'number_1098' and self.profile.get('itemize'):
                    return str(r.choice([1, 1, 2]))
                return str(self.profile.get('n_other', {}).get(base, r.choice([0, 0, 1, 2]) if self.profile.get('others', True) else 0))
            if 'year' in base or 'year' in (inp.help() or '').lower():
                return str(self.profile.get('year', 2023) - 1)
            return str(r.choice([0, 1, 2]))
        if t is I.FloatInput:
            return '%.2f' % self.amount(r, name)
        if t is I.EnumInput:
            members = list(inp.enum.__members__.keys())
            if base == 'filing_status':
                want = self.profile.get('status')
                if want == 'QSS':
                    want = [m for m in members if m.startswith('Qualifying')][0]
                if want in members:
                    return want
            if inp.allow_empty and r.random() < 0.6:
                return ''
            return r.choice(members)
        if t is I.SSNInput:
            return '123-45-6789'
        if t is I.RegexInput:
            for cand in ('12345', '123456789', 'A1', '1', 'abc', '12-3456789', '27601'):
                if inp.valid(cand):
                    return cand
            return ''
        if t is I.StringInput:
            # ordinary text plus text with characters that matter to INI files and to PDF form data
            return r.choice(['Text', 'Jo Doe', '12 Main St', 'X', '5 My Drive #3, rear', 'Smith ; Jones', 'Teacher (retired) 100%'])
        return ''


def run_scenario(H, year, forms, seed, profile, overrides=None, initial=None, solver_cls=None, refuse_after=None, on_prompt=None, policy=None, initial_file=None):
    """Runs the real solver. Returns dict(ok, solver, store, policy, exc)."""
    cfg = configparser.ConfigParser(interpolation=None)
    for k, v in (initial or {}).items():
        sec, opt = k.split('.')
        if not cfg.has_section(sec):
            cfg.add_section(sec)
        cfg.set(sec, opt, str(v))
    inputs_read = set()

    class RecStore(H['inputs'].InputStore):
        def __getitem__(self, key):
            inputs_read.add(key)
            return super().__getitem__(key)
    store = RecStore(initial_file if initial_file is not None else cfg)      # a path goes through habutax's own file reader
    if profile.get('overrides'):
        overrides = dict(profile['overrides'], **(overrides or {}))
    pol = policy or Policy(seed, dict(profile, year=year), overrides)
    count = [0]

    def prompt(missing, needed_by):
        if on_prompt is not None:
            on_prompt(missing, needed_by, store, res)
        if refuse_after is not None and count[0] >= refuse_after:
            return (None, False)
        count[0] += 1
        for _ in range(3):
            a = pol.answer(missing, H)
            if missing.valid(a):
                pol.asked.append((missing.name(), a, [f.name() for f in needed_by]))
                return (a, True)
        pol.asked.append((missing.name(), None, [f.name() for f in needed_by]))
        return (None, False)
    res = {}
    cls = solver_cls or H['solver'].Solver
    s = cls(store, H['forms'].available_forms[year], prompt=prompt)
    res.update({'solver': s, 'store': store, 'policy': pol, 'exc': None, 'ok': None, 'inputs_read': inputs_read})
    try:
        res['ok'] = s.solve(list(forms))
    except Exception as e:  # noqa
        res['exc'] = e
    return res


STATUSES = ['Single', 'MarriedFilingJointly', 'MarriedFilingSeparately', 'HeadOfHousehold', 'QSS']


def special_scenarios(years=common.YEARS):
    """Hand-built situations the random profiles rarely reach: two copies of a per-person form (8889, 8606 for both spouses),
    a line kept to five decimal places (8606 line 10), North Carolina with cents.  Fixed, independent of the seed."""
    out = []
    base = {'amounts': 'cents', 'n_w2': 1, 'itemize': False, 'foreign': False, 'n_dep': 0, 'n_u17': 0, 'others': False,
            'zero_frac': 0.8, 'benign_true': 0.5}
    for y in years:
        hsa = {'schedule_1_income_adjustments': 'yes', 'hsa_contribution_you': 'yes', 'hsa_contribution_spouse': 'yes', 'hsa_contributions': '1000.50',
               'age_under_55': 'yes', 'hsa_full_year': 'yes', 'hdhp_plan_family': 'no', 'part_2_needed': 'no', 'part_3_needed': 'no',
               'qualified_distribution': 'no', 'employer_contribution': '0.00', 'archer_msa': '0.00', 'principal_abode_us': 'yes'}
        out.append((y, ['1040'], 9001, dict(base, status='MarriedFilingJointly', wages=100000, overrides=hsa)))
        ira = {'number_1099-r': '1', 'ira_exception1_you': 'no', 'ira_exception2_you': 'yes', 'ira_exception3_you': 'no', 'ira_exception4_you': 'no',
               'ira_exception1_spouse': 'no', 'ira_exception2_spouse': 'no', 'ira_exception3_spouse': 'no', 'ira_exception4_spouse': 'no',
               '1099-r:0.belongs_to': 'taxpayer', '1099-r:0.box_1': '10000.00', '1099-r:0.box_2a': '10000.00', '1099-r:0.box_2b_taxable_not_determined': 'yes',
               '1099-r:0.box_2b_total_distribution': 'no', '1099-r:0.box_7_ira_sep_simple': 'yes', '1099-r:0.box_4': '0.00',
               'part_1_needed': 'yes', 'nondeductible_contributions': '6000.00', 'traditional_basis': '1000.00', 'distribution_or_roth_conversion': 'yes',
               'nondeductible_contributions_next_year': '0.00', 'year_end_value_non_roth': '40000.00', 'distributions_%d' % y: '10000.00',
               'qualified_disaster_distributions': 'no', 'net_converted': '10000.00', 'part_2_needed': 'yes', 'part_3_needed': 'no',
               'pensions_annuities_adjustments': 'no', 'principal_abode_us': 'yes'}
        out.append((y, ['1040'], 9002, dict(base, status='Single', wages=60000, overrides=ira)))
        nc = {'number_1098': '1', 'principal_abode_us': 'yes', 'w-2:0.box_17': '5069.75', 'w-2:0.box_15': 'NC', 'w-2:0.box_16': '60000.40',
              '%d_estimated_income_tax' % (y + 1): '0.00', 'nc_nongame_endangered_wildlife': '0.00', 'nc_education_endowment': '0.00',
              'nc_breast_cervical_cancer': '0.00', 'purchases': '1234.56'}
        out.append((y, ['1040', 'nc_d-400'], 9003, dict(base, status='Single', wages=60000, overrides=nc)))
        # two Forms 1098 with different amounts, itemizing
        two1098 = {'number_1098': '2', 'itemize': 'yes', '1098:0.box_1': '4100.00', '1098:1.box_1': '999.00', '1098:0.box_6': '0.00', '1098:1.box_6': '120.50',
                   'loan_limitations': 'no', 'charitable_other_than_cash_check': '0.00', 'principal_abode_us': 'yes', 'general_sales_tax': 'no',
                   'state_local_real_estate_taxes': '9000.00', 'charitable_cash_check': '6000.00', '1098:0.box_5': '650.00', '1098:1.box_5': '0.00',
                   'mortgage_insurance_premiums_special': 'no'}
        out.append((y, ['1040'], 9004, dict(base, status='Single', wages=90000, itemize=True, overrides=two1098)))
        # two pension (non-IRA) Forms 1099-R with different taxable amounts
        pens = {'number_1099-r': '2', '1099-r:0.box_1': '7000.00', '1099-r:0.box_2a': '6500.00', '1099-r:1.box_1': '30000.00', '1099-r:1.box_2a': '24000.00',
                'box_7_ira_sep_simple': 'no', 'box_2b_taxable_not_determined': 'no', 'pensions_annuities_adjustments': 'no', 'pensions_annuities': 'no',
                '1099-r:0.box_4': '0.00', '1099-r:1.box_4': '300.00', 'principal_abode_us': 'yes'}
        out.append((y, ['1040'], 9005, dict(base, status='Single', wages=40000, overrides=pens)))
        # an IRA whose basis exceeds its value (Form 8606 ratio capped at 1)
        ira2 = dict(ira, traditional_basis='20000.00', year_end_value_non_roth='2000.00', nondeductible_contributions='0.00', net_converted='0.00')
        ira2['distributions_%d' % y] = '8000.00'
        ira2['1099-r:0.box_1'] = '8000.00'
        ira2['1099-r:0.box_2a'] = '8000.00'
        out.append((y, ['1040'], 9006, dict(base, status='Single', wages=60000, overrides=ira2)))
        # child tax credit in its phase-out range (head of household, two children, AGI just above 200,000)
        ctc = {'number_1099-int': '1', '1099-int:0.box_1': '1300.00', 'principal_abode_us': 'yes', 'number_under_18': '2', 'number_under_6': '0'}
        out.append((y, ['1040'], 9007, dict(base, status='HeadOfHousehold', wages=199000 / 1.0, n_dep=2, n_u17=2, overrides=dict(ctc, **{'w-2:0.box_1': '199000.00'}))))
        # North Carolina with additions to and deductions from federal AGI (Schedule S totals carried to D-400 lines 7 and 9)
        ncs = dict(nc, additions_to_agi='yes', deductions_from_agi='yes', interest_income_not_nc='750.00', interest_us_obligations='120.00',
                   bonus_depreciation='no', section_179_expense='no', nc_net_operating_loss='no', state_local_refund='0.00')
        out.append((y, ['1040', 'nc_d-400'], 9008, dict(base, status='Single', wages=60000, overrides=ncs)))
        # an IRA distribution (copy 0) and a pension (copy 1): the two kinds of Form 1099-R side by side, IRA first
        mix = dict(ira)
        mix.update({'number_1099-r': '2', '1099-r:1.belongs_to': 'taxpayer', '1099-r:1.box_1': '11000.00', '1099-r:1.box_2a': '11000.00',
                    '1099-r:1.box_2b_taxable_not_determined': 'no', '1099-r:1.box_2b_total_distribution': 'no',
                    '1099-r:1.box_7_ira_sep_simple': 'no', '1099-r:1.box_4': '150.00', 'pensions_annuities': 'no'})
        out.append((y, ['1040'], 9010, dict(base, status='Single', wages=40000, overrides=mix)))
        # North Carolina, a pension whose Form 1099-R uses both state lines (moved during the year: Virginia first, then N.C.) and an
        # interest statement with N.C. on its second state line
        ncr = dict(nc, **{'number_1099-r': '1', '1099-r:0.belongs_to': 'taxpayer', '1099-r:0.box_1': '18000.00', '1099-r:0.box_2a': '18000.00',
                          '1099-r:0.box_2b_taxable_not_determined': 'no', '1099-r:0.box_2b_total_distribution': 'no', '1099-r:0.box_7_ira_sep_simple': 'no',
                          '1099-r:0.box_4': '900.00', '1099-r:0.box_14_1': '500.00', '1099-r:0.box_14_1_state': 'VA', '1099-r:0.box_14_2': '300.00',
                          '1099-r:0.box_14_2_state': 'NC', 'pensions_annuities': 'no', 'pensions_annuities_adjustments': 'no',
                          'number_1099-int': '1', '1099-int:0.belongs_to': 'taxpayer', '1099-int:0.box_1': '210.00', '1099-int:0.box_15_1': 'SC',
                          '1099-int:0.box_17_1': '11.00', '1099-int:0.box_15_2': 'NC', '1099-int:0.box_17_2': '7.00'})
        out.append((y, ['1040', 'nc_d-400'], 9011, dict(base, status='Single', wages=30000, overrides=ncr)))
        # more of the federal refund applied to next year's estimated tax than there is overpayment: the applied amount is capped by the overpayment
        # (the N.C. form answers not-implemented in that situation, so the N.C. amount stays within the overpayment)
        over = dict(nc, **{'w-2:0.box_2': '15000.00', 'w-2:0.box_17': '9000.00', 'apply_to_estimated_tax': '99999.00'})
        out.append((y, ['1040', 'nc_d-400'], 9012, dict(base, status='Single', wages=60000, overrides=over)))
        # an investor with hardly any wages: qualified dividends and capital gain distributions exceed taxable income before the qualified
        # business income deduction, with section 199A dividends (Form 8995 lines 11-15 at their floor)
        inv = {'number_1099-div': '1', '1099-div:0.belongs_to': 'taxpayer', '1099-div:0.box_1a': '30000.00', '1099-div:0.box_1b': '28000.00',
               '1099-div:0.box_2a': '2000.00', '1099-div:0.box_5': '1500.00', 'principal_abode_us': 'yes'}
        out.append((y, ['1040'], 9013, dict(base, status='Single', wages=1000, overrides=inv)))
        # North Carolina, married filing jointly with three children who qualify for the child tax credit (child deduction for several children)
        nck = dict(nc, number_under_18='3', number_under_6='0')
        out.append((y, ['1040', 'nc_d-400'], 9009, dict(base, status='MarriedFilingJointly', wages=95000, n_dep=3, n_u17=3, overrides=nck)))
    return out


def scenario_stream(rng, n, years=common.YEARS):
    """The fixed special scenarios, then n seeded scenario descriptions (year, forms, seed, profile)."""
    out = special_scenarios(years)
    for k in range(n):
        year = years[k % len(years)]
        status = STATUSES[(k // len(years)) % 5]
        prof = {'status': status,
                'amounts': rng.choice(['cents', 'cents', 'round', 'big', 'zeros']),
                'wages': rng.choice([30000, 45000, 60000, 95000, 140000, 260000, 700000]),
                'n_w2': rng.choice([1, 1, 1, 2, 3]),
                'itemize': rng.random() < 0.3,
                'foreign': rng.random() < 0.1,
                'n_dep': rng.choice([0, 0, 1, 2, 4]),
                'n_u17': rng.choice([0, 1, 2]),
                'others': rng.random() < 0.6,
                'zero_frac': rng.choice([0.3, 0.55, 0.8]),
                'benign_true': rng.choice([0.2, 0.5, 0.8])}
        forms = ['1040']
        if rng.random() < 0.25:
            forms.append('nc_d-400')
            # the N.C. Schedule A line 1 (`sum([...])` over Forms 1098) is an int when there is no Form 1098 and the return aborts with a
            # TypeError (observed defect, DESIGN 13.5): keep N.C. returns solvable so that they exercise the N.C. lines
            prof['n_other'] = {'number_1098': 1 + (k % 2)}
        out.append((year, forms, rng.randrange(1 << 30), prof))
    return out
