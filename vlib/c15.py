"""C15 — a solved return balances and has no impossible negative amounts.

 regen   tools/gen_forms.py -> Gen/Forms<y>.v ; Xexp.xtop reads the money lines (XexpProofs.xtop_sound: proved tie to the interpreter)
 prove   Gen/C15_<y>.v
           C15_fed_balance_<y> : in the catalogue model, for EVERY store on which 1040 lines 24, 33, 34, 35a, 36, 37 hold what their
                                 definitions yield:  34 - 37 = 33 - 24,  not (34 > 0 and 37 > 0),  35a + 36 = 34,  all four >= 0
           C15_nc_balance_<y>  : D-400 lines 19, 25, 26a, 27, 28, 33, 34, refund likewise (overpayment / tax due branch)
           C15_nn_<y>_<i>      : per money line of every form: if the lines and inputs it reads (other than those the forms allow
                                 to be negative, oracles/may_be_negative.json) are >= 0 then so is the stored value.
                                 The set proved on the baseline is frozen (oracles/c15_nonneg.json).
 tie     translator validation of the regenerated catalogue on real runs
 search  real solved returns from seeded scenarios with non-negative amounts (low wages, high deductions, owing / refund, NC):
         balance identities and the sign of EVERY money line not listed in may_be_negative.json
"""
import json
import os
import random
import re

from . import common, scenarios, catalog, solverfam as sf
from .common import Check

import gen_forms  # noqa

HEAD = """From Coq Require Import ZArith QArith Qminmax Lqa List String Bool Lia.
From HV Require Import Forms FormsCheck Xexp XexpProofs Rounding Balance.
From Gen Require Import Forms%(y)d.
Import ListNotations.
Open Scope string_scope.
Definition mayneg : list string := %(mayneg)s.
"""

FED = ['24', '33', '34', '35a', '36', '37']
NC = ['19', '25', '26a', '27', '28', '33', '34', 'refund']


def fed_text(y, qed):
    end = 'Qed.' if qed else 'Abort.'
    t = []
    for n in ['34', '35a', '36', '37']:
        t.append('Definition f%s := Eval vm_compute in top_or0 (top_of cat "1040" "%s").' % (n, n))
    concl = ('(ev "34" - ev "37" == ev "33" - ev "24" /\\ ~ (0 < ev "34" /\\ 0 < ev "37") /\\ ev "35a" + ev "36" == ev "34" '
             '/\\ 0 <= ev "34" /\\ 0 <= ev "35a" /\\ 0 <= ev "36" /\\ 0 <= ev "37")')
    t.append('Lemma fed_tsem ev ei : grid 2 (ev "33") -> grid 2 (ev "24") -> tsem ev ei 2 f34 (ev "34") -> tsem ev ei 2 f35a (ev "35a") -> '
             'tsem ev ei 2 f36 (ev "36") -> tsem ev ei 2 f37 (ev "37") -> %s.' % concl)
    t.append('Proof. intros G33 G24 H34 H35 H36 H37. assert (P2 : (0 <= 2)%Z) by lia.\n'
             '  assert (G34 := tsem_grid ev ei 2 _ _ P2 H34). assert (G36 := tsem_grid ev ei 2 _ _ P2 H36).\n'
             '  destruct (grid_gap 2 _ P2 G34) as [Z34|Z34]; change (1 / pow10 2) with (1#100) in Z34.\n'
             '  all: unfold f34 in H34; unfold f35a in H35; unfold f36 in H36; unfold f37 in H37.\n'
             '  all: tsem_split H34; tsem_split H35; tsem_split H36; tsem_split H37.\n'
             '  all: cbn [xeval] in *; num_cases; try congruence.\n'
             '  all: rpush_in H34 2%Z; rpush_in H35 2%Z; rpush_in H36 2%Z; rpush_in H37 2%Z.\n'
             '  all: mm_cases.\n'
             '  all: repeat split; try (intros [? ?]); lra.\n' + end)
    if not qed:
        return '\n'.join(t)
    t.append('Theorem C15_fed_balance_%d (c:ctx) (ev ei:string -> Q) (fuel:nat) :\n'
             '  (100 <= fuel)%%nat ->\n'
             '  line_fix cat c fuel "1040" "24" (ev "24") -> line_fix cat c fuel "1040" "33" (ev "33") ->\n'
             '  line_fix cat c fuel "1040" "34" (ev "34") -> line_fix cat c fuel "1040" "35a" (ev "35a") ->\n'
             '  line_fix cat c fuel "1040" "36" (ev "36") -> line_fix cat c fuel "1040" "37" (ev "37") ->\n'
             '  top_ok c ev ei f34 -> top_ok c ev ei f35a -> top_ok c ev ei f36 -> top_ok c ev ei f37 -> %s.' % (y, concl))
    t.append('Proof. intros Hf F24 F33 F34 F35 F36 F37 O34 O35 O36 O37. apply (fed_tsem ev ei).\n'
             '  - apply (line_fix_grid cat c fuel "1040" "33" _ 2 F33). vm_compute; reflexivity.\n'
             '  - apply (line_fix_grid cat c fuel "1040" "24" _ 2 F24). vm_compute; reflexivity.\n'
             '  - apply (line_fix_tsem cat c fuel "1040" "34" _ ev ei f34 2 F34); [vm_compute; reflexivity|vm_compute; reflexivity|exact Hf|exact O34].\n'
             '  - apply (line_fix_tsem cat c fuel "1040" "35a" _ ev ei f35a 2 F35); [vm_compute; reflexivity|vm_compute; reflexivity|exact Hf|exact O35].\n'
             '  - apply (line_fix_tsem cat c fuel "1040" "36" _ ev ei f36 2 F36); [vm_compute; reflexivity|vm_compute; reflexivity|exact Hf|exact O36].\n'
             '  - apply (line_fix_tsem cat c fuel "1040" "37" _ ev ei f37 2 F37); [vm_compute; reflexivity|vm_compute; reflexivity|exact Hf|exact O37].\n'
             'Qed.')
    t.append('Goal True. idtac "@@PA C15_fed_balance_%d". Abort.\nPrint Assumptions C15_fed_balance_%d.' % (y, y))
    return '\n'.join(t)


def nc_text(y, qed):
    end = 'Qed.' if qed else 'Abort.'
    t = []
    for n in ['26a', '28', '34', 'refund']:
        t.append('Definition n%s := Eval vm_compute in top_or0 (top_of cat "nc_d-400" "%s").' % (n, n))
    concl = ('((ev "19" <= ev "25" -> tsem ev ei 0 n28 (ev "28") -> tsem ev ei 0 n34 (ev "34") ->\n'
             '     ev "28" == ev "25" - ev "19" /\\ ev "34" + ev "33" == ev "28" /\\ 0 <= ev "28" /\\ 0 <= ev "34" /\\ ev "refund" == ev "34") /\\\n'
             '   (ev "25" < ev "19" -> tsem ev ei 0 n26a (ev "26a") ->\n'
             '     ev "26a" == ev "19" - ev "25" /\\ 0 < ev "26a" /\\ ev "refund" == - ev "27"))')
    t.append('Lemma nc_tsem ev ei : grid 0 (ev "19") -> grid 0 (ev "25") -> grid 0 (ev "33") -> grid 0 (ev "27") -> '
             'tsem ev ei 0 nrefund (ev "refund") ->\n  %s.' % concl)
    t.append('Proof. intros G19 G25 G33 G27 HR. assert (P0 : (0 <= 0)%Z) by lia. split.\n'
             '  - intros L H28 H34. assert (G28 := tsem_grid ev ei 0 _ _ P0 H28). assert (G34 := tsem_grid ev ei 0 _ _ P0 H34).\n'
             '    unfold n28 in H28; unfold n34 in H34; unfold nrefund in HR.\n'
             '    tsem_split H28; tsem_split H34; tsem_split HR; cbn [xeval] in *; num_cases; try congruence; try lra.\n'
             '    all: rpush_in H28 0%Z; rpush_in H34 0%Z; rpush_in HR 0%Z; repeat split; lra.\n'
             '  - intros L H26. unfold n26a in H26; unfold nrefund in HR.\n'
             '    tsem_split H26; tsem_split HR; cbn [xeval] in *; num_cases; try congruence; try lra.\n'
             '    all: rpush_in H26 0%Z; rpush_in HR 0%Z; repeat split; lra.\n' + end)
    if not qed:
        return '\n'.join(t)
    t.append('Theorem C15_nc_balance_%d (c:ctx) (ev ei:string -> Q) (fuel:nat) :\n'
             '  (100 <= fuel)%%nat ->\n'
             '  line_fix cat c fuel "nc_d-400" "19" (ev "19") -> line_fix cat c fuel "nc_d-400" "25" (ev "25") ->\n'
             '  line_fix cat c fuel "nc_d-400" "33" (ev "33") -> line_fix cat c fuel "nc_d-400" "27" (ev "27") ->\n'
             '  line_fix cat c fuel "nc_d-400" "refund" (ev "refund") -> top_ok c ev ei nrefund ->\n'
             '  (ev "19" <= ev "25" -> line_fix cat c fuel "nc_d-400" "28" (ev "28") -> line_fix cat c fuel "nc_d-400" "34" (ev "34") ->\n'
             '     top_ok c ev ei n28 -> top_ok c ev ei n34 ->\n'
             '     ev "28" == ev "25" - ev "19" /\\ ev "34" + ev "33" == ev "28" /\\ 0 <= ev "28" /\\ 0 <= ev "34" /\\ ev "refund" == ev "34") /\\\n'
             '  (ev "25" < ev "19" -> line_fix cat c fuel "nc_d-400" "26a" (ev "26a") -> top_ok c ev ei n26a ->\n'
             '     ev "26a" == ev "19" - ev "25" /\\ 0 < ev "26a" /\\ ev "refund" == - ev "27").' % y)
    t.append('Proof. intros Hf F19 F25 F33 F27 FR OR.\n'
             '  assert (T : %s).\n'
             '  { apply (nc_tsem ev ei).\n'
             '    - apply (line_fix_grid cat c fuel "nc_d-400" "19" _ 0 F19). vm_compute; reflexivity.\n'
             '    - apply (line_fix_grid cat c fuel "nc_d-400" "25" _ 0 F25). vm_compute; reflexivity.\n'
             '    - apply (line_fix_grid cat c fuel "nc_d-400" "33" _ 0 F33). vm_compute; reflexivity.\n'
             '    - apply (line_fix_grid cat c fuel "nc_d-400" "27" _ 0 F27). vm_compute; reflexivity.\n'
             '    - apply (line_fix_tsem cat c fuel "nc_d-400" "refund" _ ev ei nrefund 0 FR); [vm_compute; reflexivity|vm_compute; reflexivity|exact Hf|exact OR]. }\n'
             '  destruct T as [T1 T2]. split.\n'
             '  - intros L F28 F34 O28 O34. apply (T1 L).\n'
             '    + apply (line_fix_tsem cat c fuel "nc_d-400" "28" _ ev ei n28 0 F28); [vm_compute; reflexivity|vm_compute; reflexivity|exact Hf|exact O28].\n'
             '    + apply (line_fix_tsem cat c fuel "nc_d-400" "34" _ ev ei n34 0 F34); [vm_compute; reflexivity|vm_compute; reflexivity|exact Hf|exact O34].\n'
             '  - intros L F26 O26. apply (T2 L).\n'
             '    apply (line_fix_tsem cat c fuel "nc_d-400" "26a" _ ev ei n26a 0 F26); [vm_compute; reflexivity|vm_compute; reflexivity|exact Hf|exact O26].\n'
             'Qed.' % concl)
    t.append('Goal True. idtac "@@PA C15_nc_balance_%d". Abort.\nPrint Assumptions C15_nc_balance_%d.' % (y, y))
    return '\n'.join(t)


def nn_item(i, f, l, p, theorem, y):
    fs, ls = gen_forms.cstr(f), gen_forms.cstr(l)
    t = ['Definition T_%d := Eval vm_compute in top_or0 (top_of cat %s %s).' % (i, fs, ls),
         'Definition LN_%d := Eval vm_compute in nn_lines %s mayneg T_%d.' % (i, fs, i),
         'Definition IN_%d := Eval vm_compute in nn_inps T_%d.' % (i, i)]
    stmt = 'forall ev ei q, tsem ev ei %d T_%d q -> nn_hyp ev LN_%d (nn_hyp ei IN_%d (0 <= q))' % (p, i, i, i)
    if theorem:
        t.append('Lemma C15_nn_%d_%d : %s.\nProof. unfold T_%d, LN_%d, IN_%d. nn_tac %d%%Z. Qed.' % (y, i, stmt, i, i, i, p))
    else:
        t.append('Goal %s.\nProof. unfold T_%d, LN_%d, IN_%d. first [solve [nn_tac %d%%Z]; idtac "@@OK %d" | idtac "@@FAIL %d"]. Abort.' % (
            stmt, i, i, i, p, i, i))
    return '\n'.join(t)


# ----------------------------------------------------------------------------------------------- real returns
def c15_scenarios(rng, n):
    out = []
    base = scenarios.scenario_stream(rng, n)
    for k, (year, forms, sseed, prof) in enumerate(base):
        prof = dict(prof)
        mode = k % 6
        if prof['wages'] > 140000:
            prof['wages'] = rng.choice([20000, 50000, 80000, 110000])   # the AMT screen sends higher incomes to the unsupported Form 6251
        kids = min(prof.get('n_dep', 0), prof.get('n_u17', 0))
        ov = {'principal_abode_us': 'yes', 'number_under_18': str(kids), 'number_under_6': str(rng.randint(0, kids)),   # consistent head counts
              '%d_estimated_income_tax' % (year + 1): '%.2f' % rng.choice([0, 0, 25]),
              'nc_nongame_endangered_wildlife': '0.00', 'nc_education_endowment': '%.2f' % rng.choice([0, 0, 10]),
              'nc_breast_cervical_cancer': '0.00', 'charitable_other_than_cash_check': '%.2f' % rng.choice([0, 120.5, 500])}
        if mode == 0:
            # deductions above income; enough interest income that the (unimplemented) earned income credit is out of reach
            prof['wages'] = rng.choice([0, 300, 2500, 9000])
            prof['n_w2'] = 1
            ov['number_1099-int'] = '1'
            ov['1099-int:0.box_1'] = '%.2f' % rng.choice([11500, 12000.5, 14000, 26000])
        elif mode == 1:
            prof['itemize'] = True
            prof['wages'] = rng.choice([30000, 60000, 120000])
            ov['medical_dental_expenses'] = '%.2f' % rng.choice([0, 2000, 15000.75, 90000])
        elif mode == 2:
            ov['box_2'] = '0.00'                                          # owes tax
            ov['estimated_tax_payments'] = '0.00'
        elif mode == 3:
            ov['box_2'] = '%.2f' % rng.choice([100, 2500.55, 40000, 1e6])  # large refund
            ov['apply_to_estimated_tax'] = '%.2f' % rng.choice([0, 10.005, 500, 1e7])
        elif mode == 5:
            # living on qualified dividends with section 199A dividends: Form 8995 and the capital gain worksheet on small taxable income
            prof['wages'] = rng.choice([0, 3000, 5000, 20000])
            prof['n_w2'] = 1
            d = rng.choice([14000, 30000, 70000])
            ov.update({'number_1099-div': '1', '1099-div:0.box_1a': '%.2f' % d, '1099-div:0.box_1b': '%.2f' % (d - rng.choice([0, 1000])),
                       '1099-div:0.box_5': '%.2f' % rng.choice([500, 800.4]), '1099-div:0.box_2a': '0.00', '1099-div:0.box_7': '0.00'})
        if mode in (0, 2, 4) and 'nc_d-400' not in forms:
            forms = list(forms) + ['nc_d-400']
        if 'nc_d-400' in forms:
            ov.setdefault('number_1098', '1')
            if prof['status'] == 'QSS':
                forms = [f for f in forms if f != 'nc_d-400']      # D-400 year_spouse_died is mistyped in the code base (TypeError)
        out.append((year, forms, sseed, prof, ov))
    return out


def money_lines(summ, y):
    out = {}
    for f, info in summ[y]['forms'].items():
        for l, li in info['lines'].items():
            if li['type'].startswith('float'):
                out[(f, l)] = int(li['type'].split(':')[1]) if ':' in li['type'] else 2
    return out


def monitor(ck, H, summ, mayneg, rng, n):
    stats = {'runs': 0, 'solved': 0, 'solved_nc': 0, 'owing': 0, 'refund': 0, 'nc_due': 0, 'nc_over': 0, 'lines_checked': 0, 'itemizing': 0}
    results = []
    for (year, forms, sseed, prof, ov) in c15_scenarios(rng, n):
        if not summ:
            continue
        # a year whose forms could not be translated is still monitored on the real code, with the money lines of the nearest year
        ysum = year if year in summ else min(summ, key=lambda y_: abs(y_ - year))
        r = scenarios.run_scenario(H, year, forms, sseed, prof, overrides=ov)
        stats['runs'] += 1
        if r['exc'] is None:
            results.append((year, r))
        if r['exc'] is not None or not r['ok']:
            continue
        stats['solved'] += 1
        vals = r['solver']._v.values
        ml = money_lines(summ, ysum)
        inputs = dict(r['policy'].asked and [(a[0], a[1]) for a in r['policy'].asked] or [])
        neg_in = False
        for k_, v_ in inputs.items():
            try:
                if v_ is not None and float(v_) < 0:
                    neg_in = True
            except (TypeError, ValueError):
                pass
        if neg_in:
            continue
        replay = {'kind': 'failing-input', 'year': year, 'forms': forms, 'inputs': inputs,
                  'how_to_run': 'write inputs as an INI file (section = form[:instance]) and run habutax solve for the year and forms'}

        def g(name):
            return vals.get(name)
        # federal balance
        if g('1040.33') is not None and g('1040.24') is not None:
            v33, v24, v34, v37, v35, v36 = (g('1040.%s' % x) or 0.0 for x in ('33', '24', '34', '37', '35a', '36'))
            stats['owing' if v37 > 0 else 'refund'] += 1
            ck.count((year, 'fed', 'owes' if v37 > 0 else 'refund' if v34 > 0 else 'zero', prof.get('status')), nontrivial=True)
            bad = []
            if abs((v34 - v37) - (v33 - v24)) > 0.005:
                bad.append('34 - 37 = %r but 33 - 24 = %r' % (v34 - v37, v33 - v24))
            if v34 > 0 and v37 > 0:
                bad.append('both overpayment %r and amount owed %r are positive' % (v34, v37))
            if abs(v35 + v36 - v34) > 0.005:
                bad.append('35a + 36 = %r but 34 = %r' % (v35 + v36, v34))
            if bad:
                ck.violation('C15:%d:1040.balance' % year, 'ty%d Form 1040 does not balance: %s' % (year, '; '.join(bad)),
                             dict(replay, observed={k: g('1040.%s' % k) for k in FED}), found=True)
        if g('nc_d-400.refund') is not None:
            stats['solved_nc'] += 1
            v19, v25 = g('nc_d-400.19') or 0.0, g('nc_d-400.25') or 0.0
            over = (g('nc_d-400.28') or 0.0) if v19 <= v25 else 0.0
            due = (g('nc_d-400.26a') or 0.0) if v19 > v25 else 0.0
            stats['nc_over' if v19 <= v25 else 'nc_due'] += 1
            ck.count((year, 'nc', 'over' if v19 <= v25 else 'due'), nontrivial=True)
            bad = []
            if abs((over - due) - (v25 - v19)) > 0.5:
                bad.append('overpayment - due = %r but payments - tax = %r' % (over - due, v25 - v19))
            if v19 <= v25 and abs((g('nc_d-400.34') or 0.0) + (g('nc_d-400.33') or 0.0) - over) > 0.5:
                bad.append('34 + 33 = %r but 28 = %r' % ((g('nc_d-400.34') or 0.0) + (g('nc_d-400.33') or 0.0), over))
            if bad:
                ck.violation('C15:%d:nc_d-400.balance' % year, 'ty%d NC D-400 does not balance: %s' % (year, '; '.join(bad)),
                             dict(replay, observed={k: g('nc_d-400.%s' % k) for k in NC}), found=True)
        if g('1040.itemizing'):
            stats['itemizing'] += 1
        # signs
        for name, v in vals.items():
            if not isinstance(v, float):
                continue
            fm, _, ln = name.partition('.')
            cls = fm.split(':')[0]
            if (cls, ln) not in ml:
                continue
            stats['lines_checked'] += 1
            if v < 0 and ('%s.%s' % (cls, ln)) not in mayneg:
                ck.violation('C15:%d:%s.%s' % (year, cls, ln),
                             'ty%d %s line %s is %r in a solved return whose input amounts are all non-negative' % (year, cls, ln, v),
                             dict(replay, observed={name: v}), found=True)
    ck.cov['real_returns'] = stats
    return results


def run(tier, seed):
    ck = Check('C15', tier, seed)
    rng = random.Random(seed + 15)
    ck.rule = ('obligation = a generated Rocq theorem (two balance theorems per year, one sign lemma per money line in the frozen list) '
               'or a monitor verdict; evaluation = one real solved return; non-trivial = it reaches the refund/owed lines')
    ck.trusted = ['Coq 8.16.1 kernel, vm_compute for the reflexive side conditions; Lqa/lia',
                  'tools/gen_forms.py (validated against real runs on every check)',
                  'XexpProofs.xtop_sound (proved) ties the arithmetic reading of a line to the catalogue interpreter; Rounding.v (proved) for round-half-even',
                  'exact-decimal reading of binary64 money values; the monitor compares real floats with a half-cent tolerance',
                  'oracles/may_be_negative.json: lines the forms allow to be negative (AGI and the lines that carry it)',
                  'the sign lemmas are local (reads >= 0 implies value >= 0); lines whose body is a helper function or whose sign depends on '
                  'relations between lines are covered by the monitor on real returns only']
    H = scenarios.habutax_modules()
    summ = catalog.generate(ck, H)
    mn = json.load(open(os.path.join(common.ROOT, 'oracles', 'may_be_negative.json')))
    mayneg = set(x['line'] for x in mn['lines'])
    fz_path = os.path.join(common.ROOT, 'oracles', 'c15_nonneg.json')
    frozen = set(json.load(open(fz_path))['proved']) if os.path.exists(fz_path) else set()
    # decision pass
    files = []
    lines_by_year = {}
    for y in summ:
        ml = sorted(money_lines(summ, y).items())
        lines_by_year[y] = ml
        txt = [HEAD % {'y': y, 'mayneg': gen_forms.clist([gen_forms.cstr(x) for x in sorted(mayneg)])}]
        txt.append('Goal True. idtac "@@TOPS". Abort.')
        txt.append('Eval vm_compute in map (fun fl => match top_of cat (fst fl) (snd fl) with Some _ => 1%%nat | None => 0%%nat end) %s.' %
                   gen_forms.clist(['(%s, %s)' % (gen_forms.cstr(f), gen_forms.cstr(l)) for (f, l), p in ml]))
        txt.append('Goal True. idtac "@@ENDTOPS". Abort.')
        for i, ((f, l), p) in enumerate(ml):
            txt.append(nn_item(i, f, l, p, False, y))
        files.append((y, ck.write_gen('C15_dec_%d.v' % y, '\n'.join(txt) + '\n')))
    res = ck.coqc_many([f for _, f in files], timeout=1500)
    proved_now = set()
    thm_files = []
    asm_info = {}
    for y, f in files:
        ok, out = res[f]
        if not ok:
            ck.oblige('decision-pass:%d' % y, False, out[-400:])
            continue
        ml = lines_by_year[y]
        tops = [int(x) for x in re.findall(r'\d+', out.split('@@TOPS', 1)[1].split('@@ENDTOPS')[0].split(': list')[0].replace('%nat', ''))]
        oks = set(int(x) for x in re.findall(r'@@OK (\d+)', out))
        good = []
        n_top = 0
        for i, ((fm, ln), p) in enumerate(ml):
            key = '%d:%s.%s' % (y, fm, ln)
            has_top = i < len(tops) and tops[i] == 1
            n_top += has_top
            if has_top and i in oks and ('%s.%s' % (fm, ln)) not in mayneg:
                good.append(i)
                proved_now.add(key)
            elif key in frozen:
                ck.oblige('sign-lemma:%s' % key, False, 'no longer provable (body outside the arithmetic reading: %s)' % (not has_top))
                ck.violation('C15:%s' % key, 'ty%d %s line %s: the lemma "reads >= 0 implies value >= 0" held on the baseline and no longer checks' % (y, fm, ln),
                             {'kind': 'proof-or-correspondence', 'theorem_or_correspondence': 'C15_nn lemma of %s' % key}, found=False)
        ck.cov.setdefault('sign_lemmas', {})[str(y)] = {'money_lines': len(ml), 'read_by_xtop': n_top, 'proved': len(good),
                                                         'in_may_be_negative': sum(1 for (fl, p) in ml if '%s.%s' % fl in mayneg)}
        txt = [HEAD % {'y': y, 'mayneg': gen_forms.clist([gen_forms.cstr(x) for x in sorted(mayneg)])}]
        for i in good:
            (fm, ln), p = ml[i]
            txt.append(nn_item(i, fm, ln, p, True, y))
        if good:
            txt.append('Goal True. idtac "@@PA C15_nn_%d_%d". Abort.\nPrint Assumptions C15_nn_%d_%d.' % (y, good[0], y, good[0]))
        thm_files.append((y, 'nn', len(good), ck.write_gen('C15_nn_%d.v' % y, '\n'.join(txt) + '\n')))
        asm_info[y] = (txt[0], ml, list(good))
        hd = HEAD % {'y': y, 'mayneg': '[]'}
        thm_files.append((y, 'fed', 1, ck.write_gen('C15_fed_%d.v' % y, hd + fed_text(y, True) + '\n')))
        thm_files.append((y, 'nc', 1, ck.write_gen('C15_nc_%d.v' % y, hd + nc_text(y, True) + '\n')))
    res2 = ck.coqc_many([f for _, _, _, f in thm_files], timeout=1500)
    broken = []
    for y, kind, n, f in thm_files:
        ok, out = res2[f]
        ck.harvest_assumptions(out)
        if kind == 'nn':
            ck.oblige('sign-lemmas:%d (%d lemmas Qed)' % (y, n), ok, out[-300:] if not ok else '')
            if ok:
                for i_ in range(n):
                    ck.oblige('sign-lemma:%d#%d' % (y, i_), True)
        else:
            name = 'C15_%s_balance_%d' % (kind, y)
            ck.oblige(name, ok, out[-400:] if not ok else '')
            if not ok:
                broken.append((y, kind, name))
    # assembly along the dependency order: one theorem per year over all lines with a local lemma
    from . import c15asm
    nn_ok = {y for (y, kind, n, f) in thm_files if kind == 'nn' and res2[f][0]}
    lfiles = [(y, ck.write_gen('C15_lists_%d.v' % y, c15asm.lists_file(asm_info[y][0], y, asm_info[y][2]))) for y in sorted(nn_ok) if asm_info[y][2]]
    res3 = ck.coqc_many([f for _, f in lfiles], timeout=900)
    sfiles = []
    for y, f in lfiles:
        ok, out = res3[f]
        if not ok:
            ck.oblige('C15_signs_%d' % y, False, out[-300:])
            continue
        head, ml, good = asm_info[y]
        lists = c15asm.parse_lists(out)
        if set(lists) != set(good):
            ck.oblige('C15_signs_%d' % y, False, 'could not read the read-lists of %d lemmas' % len(set(good) - set(lists)))
            continue
        text, info = c15asm.signs_file(head, y, ml, good, lists)
        ck.cov.setdefault('assembly', {})[str(y)] = info
        sfiles.append((y, ck.write_gen('C15_signs_%d.v' % y, text)))
    res4 = ck.coqc_many([f for _, f in sfiles], timeout=1500)
    for y, f in sfiles:
        ok, out = res4[f]
        ck.harvest_assumptions(out)
        ck.oblige('C15_signs_%d (all %d lines with a local lemma, in dependency order)' % (y, ck.cov['assembly'][str(y)]['lines_in_theorem']), ok, out[-300:] if not ok else '')
    if os.environ.get('C15_FREEZE'):
        json.dump({'comment': 'money lines whose local sign lemma is proved on the baseline tree; written by C15_FREEZE=1 ./check C15, never at check time',
                   'proved': sorted(proved_now)}, open(fz_path, 'w'), indent=1)
    ck.cov['baseline_sign_lemmas'] = {'frozen': len(frozen), 'proved_now': len(proved_now), 'new_since_baseline': sorted(proved_now - frozen)[:40]}
    # real returns
    results = monitor(ck, H, summ, mayneg, rng, 90 if tier == 'quick' else 1500)
    # non-vacuity: the federal balance theorem instantiated on the store of a real solved return of each year (a refund and an amount owed)
    inst_files = []
    enums = gen_forms.Enums(H['enum'])
    for y in summ:
        picked = {}
        for (yy, r) in results:
            if yy != y or not r['ok'] or r['exc'] is not None:
                continue
            v = r['solver']._v.values
            if v.get('1040.33') is None:
                continue
            kind = 'refund' if (v.get('1040.34') or 0) > 0 else 'owed' if (v.get('1040.37') or 0) > 0 else None
            if kind and sum(1 for k_ in picked if k_.startswith(kind)) < 3:
                picked['%s%d' % (kind, sum(1 for k_ in picked if k_.startswith(kind)))] = r
        for kind, r in picked.items():
            s = r['solver']
            try:
                vals_txt = gen_forms.clist(['(%s, %s)' % (gen_forms.cstr(k), catalog.pv_of(v, enums)) for k, v in s._v.values.items() if k.startswith('1040.')])
                cfgp = r['store'].config
                inps = []
                for opt in cfgp.options('1040'):
                    spec = s._input_map.get('1040.%s' % opt)
                    raw = cfgp.get('1040', opt)
                    if spec is not None and spec.valid(raw):
                        inps.append('(%s, %s)' % (gen_forms.cstr('1040.%s' % opt), catalog.pv_of(spec.value(raw), enums)))
                if not any('"1040.apply_to_estimated_tax"' in x for x in inps):
                    # the input is not read when there is no overpayment; the theorem's store has to hold a number for every name line 36 mentions
                    inps.append('("1040.apply_to_estimated_tax", PNum 0)')
                text = c15asm.instance_file(HEAD % {'y': y, 'mayneg': '[]'}, y, vals_txt, gen_forms.clist(inps),
                                            gen_forms.clist([gen_forms.cstr(x) for x in s.forms.keys()]))
            except Exception as e:  # noqa
                ck.notes.append('could not export a real return for the instance of %d: %r' % (y, e))
                continue
            inst_files.append((y, kind, ck.write_gen('C15_instance_%d_%s.v' % (y, kind), text)))
    res5 = ck.coqc_many([f for _, _, f in inst_files], timeout=900)
    # a demonstration, not the property: up to three candidate returns per year and kind, one has to go through
    shown = {}
    for y, kind, f in inst_files:
        ok, out = res5[f]
        k2 = (y, kind.rstrip('0123456789'))
        shown[k2] = shown.get(k2, False) or ok
        if not ok:
            ck.notes.append('instance %d %s did not go through: %s' % (y, kind, out[-160:].replace('\n', ' ')))
    for (y, k2), ok in sorted(shown.items()):
        if ok:
            ck.oblige('C15_fed_balance_%d holds its hypotheses on a real return (%s)' % (y, k2), True)
    ck.cov['theorem_instances_on_real_returns'] = {'%d:%s' % k_: v_ for k_, v_ in shown.items()}
    for y, kind, name in broken:
        key = 'C15:%d:%s.balance' % (y, '1040' if kind == 'fed' else 'nc_d-400')
        if not any(v['key'] == key for v in ck.violations):
            ck.violation(key, 'ty%d: theorem %s no longer checks and no explored real return fails to balance' % (y, name),
                         {'kind': 'proof-or-correspondence', 'theorem_or_correspondence': name}, found=False)
    catalog.validate(ck, H, summ, results[:12 if tier == 'quick' else 150])
    ck.sample({'theorems': ['C15_fed_balance_<y>', 'C15_nc_balance_<y>', 'C15_nn_<y>_<i>'], 'years': sorted(summ)})
    return sf.finish_family(ck, 'C15')
