"""Layer B driver: regenerate the catalogue model of every year into a check's build dir, compile it, and validate the
translation by re-evaluating real solutions line by line inside Coq (translator validation)."""
import json
import os
import re
import sys
from fractions import Fraction

from . import common, scenarios, solverfam as sf

sys.path.insert(0, os.path.join(common.ROOT, 'tools'))
import gen_forms  # noqa
import gen_tax    # noqa


def generate(ck, H, years=common.YEARS):
    """-> {year: summary} ; obligations translate:<year>, compile-catalogue:<year>"""
    out = {}
    paths = []
    for y in years:
        try:
            gen_forms._AST_CACHE.clear()
            text, summ = gen_forms.translate_year(H, y)
        except gen_forms.TranslateError as e:
            ck.oblige('translate-forms:%d' % y, False, str(e))
            continue
        except Exception as e:  # noqa  (constructor raised, import problems ...)
            ck.oblige('translate-forms:%d' % y, False, '%s: %s' % (type(e).__name__, e))
            continue
        ck.oblige('translate-forms:%d' % y, True)
        out[y] = summ
        paths.append((y, ck.write_gen('Forms%d.v' % y, text)))
        # the year's tax table model (for figure_tax inside line bodies)
        try:
            cfg = gen_tax.translate(os.path.join(common.REPO, 'habutax', 'forms', 'ty%d' % y, 'f1040_figure_tax.py'))
            ck.write_gen('Tax%d.v' % y, gen_tax.emit(cfg, y))
            paths.append((y, ck.gen_path('Tax%d.v' % y)))
        except Exception as e:  # noqa
            ck.oblige('translate-tax:%d' % y, False, str(e))
    res = ck.coqc_many([p for _, p in paths], timeout=600)
    for y, p in paths:
        ok, o = res[p]
        ck.oblige('compile:%s' % os.path.basename(p), ok, o[-400:])
    return out


# --------------------------------------------------------------------------- translator validation
def pv_of(v, enums, places=None):
    import enum as pyenum
    if v is None:
        return 'PNone'
    if isinstance(v, bool):
        return '(PBool %s)' % ('true' if v else 'false')
    if isinstance(v, int):
        return '(PInt %s)' % gen_forms.cz(v)
    if isinstance(v, float):
        if v != v or v in (float('inf'), float('-inf')):
            return '(PStr "<nonfinite>")'
        fr = Fraction(v)
        # the shortest repr is the decimal the model works with when the value came out of round()/from_string
        return '(PNum %s)' % gen_forms.cq(repr(v) if 'e' not in repr(v) else format(fr.numerator / fr.denominator, 'f'))
    if isinstance(v, str):
        return '(PStr %s)' % gen_forms.cstr(v)
    if isinstance(v, pyenum.Enum):
        return enums.pv(v)
    raise ValueError('unsupported value %r' % (v,))


HEADER = """From Coq Require Import ZArith QArith List String Bool.
From HV Require Import Forms FormsCheck TaxModel.
From Gen Require Import Forms%(y)d Tax%(y)d.
Import ListNotations.
Open Scope string_scope.
"""


def scenario_case(H, enums, year, res, idx, summ):
    """Coq text evaluating every attempted line of one real run against the Python outcome."""
    s = res['solver']
    store = res['store']
    vals = []
    for k, v in s._v.values.items():
        vals.append('(%s, %s)' % (gen_forms.cstr(k), pv_of(v, enums)))
    inps = []
    cfg = store.config
    for sec in cfg.sections():
        for opt in cfg.options(sec):
            key = '%s.%s' % (sec, opt)
            spec = s._input_map.get(key)
            if spec is None:
                continue
            try:
                raw = cfg.get(sec, opt)
                if spec.valid(raw):
                    inps.append('(%s, %s)' % (gen_forms.cstr(key), pv_of(spec.value(raw), enums)))
            except Exception:  # noqa
                pass
    checks = []
    meta = []
    names = list(s._v.values.keys()) + [n for n in s._solving_fields if n not in s._v.values]
    for n in names:
        f = s._field_map.get(n)
        if f is None:
            continue
        form_full, base = n.split('.')
        cls_name, _, inst = form_full.partition(':')
        if cls_name not in summ['forms'] or base not in summ['forms'][cls_name]['lines']:
            continue
        if n in s._v.values:
            exp = '(XVal %s)' % pv_of(s._v.values[n], enums)
        else:
            k = sf.eval_field(H, s, f, store)
            if k[0] == 'needv':
                exp = '(XNeedV %s)' % gen_forms.cstr(k[1])
            elif k[0] == 'needi':
                exp = '(XNeedI %s)' % gen_forms.cstr(k[1])
            elif k[0] == 'unimpl':
                exp = 'XUnimpl'
            elif k[0] == 'crash':
                exp = 'XCrash'
            else:
                continue
        info = summ['forms'][cls_name]['lines'][base]
        tol = info['uses']['mul'] or info['uses']['div'] or info['uses']['figure_tax']
        checks.append('(%s, %s, %s, %s, %s)' % (gen_forms.cstr(cls_name), gen_forms.copt(gen_forms.cstr(inst)) if inst else 'None',
                                                gen_forms.cstr(base), exp, 'true' if tol else 'false'))
        meta.append(n)
    forms = gen_forms.clist([gen_forms.cstr(x) for x in s.forms.keys()])
    txt = ['Module S%d.' % idx,
           'Definition vals : list (string * pv) := %s.' % gen_forms.clist(vals),
           'Definition inps : list (string * pv) := %s.' % gen_forms.clist(inps),
           'Definition checks : list (string * option string * string * expected * bool) := %s.' % gen_forms.clist(checks),
           'Definition bad := run_checks cat (tax_fn %d cfg) vals inps %s checks.' % (year, forms),
           'End S%d.' % idx,
           'Goal True. idtac "@@S %d". Abort.' % idx,
           'Eval vm_compute in S%d.bad.' % idx]
    return '\n'.join(txt), meta


def validate(ck, H, summaries, scen_results, label='translator-validation'):
    """scen_results: list of (year, res).  Every line that the real run attempted is re-evaluated in the model."""
    files = []
    metas = {}
    by_year = {}
    for idx, (year, res) in enumerate(scen_results):
        if year not in summaries or res['exc'] is not None and not hasattr(res['solver'], '_v'):
            continue
        by_year.setdefault(year, []).append((idx, res))
    enums_by_year = {}
    for year, lst in by_year.items():
        enums = gen_forms.Enums(H['enum'])
        shard = 6
        for b in range(0, len(lst), shard):
            parts = [HEADER % {'y': year}]
            for idx, res in lst[b:b + shard]:
                try:
                    t, meta = scenario_case(H, enums, year, res, idx, summaries[year])
                except Exception as e:  # noqa
                    ck.notes.append('could not export scenario %d: %r' % (idx, e))
                    continue
                parts.append(t)
                metas[idx] = (year, meta)
            files.append(ck.write_gen('tv_%d_%d.v' % (year, b // shard), '\n'.join(parts) + '\n'))
    res = ck.coqc_many(files, timeout=900)
    total = 0
    bad = []
    tol_used = 0
    okfiles = True
    for f in files:
        ok, out = res[f]
        if not ok:
            okfiles = False
            ck.notes.append('validation file failed: %s' % out[-400:])
            continue
        for blk in out.split('@@S ')[1:]:
            head, _, rest = blk.partition('\n')
            idx = int(head.strip())
            year, meta = metas[idx]
            total += len(meta)
            body = rest.split(': list')[0]
            for m in re.finditer(r'\((\d+)%nat,\s*(\d+)%nat\)|\((\d+),\s*(\d+)\)', body):
                i = int(m.group(1) or m.group(3))
                code = int(m.group(2) or m.group(4))
                if code == 2:
                    tol_used += 1
                else:
                    bad.append((year, meta[i] if i < len(meta) else '?', idx))
    ck.cov.setdefault('translator_validation', {}).update(
        {'lines_evaluated_in_model': total, 'disagreements': len(bad), 'agreed_within_one_unit_on_mul_div_lines': tol_used})
    ck.oblige('%s (%d line evaluations)' % (label, total), okfiles and not bad and total > 0,
              'disagreements: %s' % bad[:8])
    return bad
