"""C07 — income tax follows the statutory rate schedule.

 1 regen   tools/gen_tax.py translates f1040_figure_tax.py (ast, fail-closed) -> Gen/Tax<y>.v
 2 prove   Gen/C07_<y>.v : figure_tax cfg x st = Some (official_tax y st x) for ALL x, st  (reflection + lemmas)
 3 tie     the regenerated model is executed (vm_compute) on probe incomes and compared with the real figure_tax
 4 search  real figure_tax vs the statutory function at the probe incomes + the hints the failed check computes
"""
import importlib
import json
import os
import random
import re
import sys
from fractions import Fraction

from . import common
from .common import Check, REPO

sys.path.insert(0, os.path.join(common.ROOT, 'tools'))
import gen_tax  # noqa

STATUS_NAMES = ['Single', 'MarriedFilingJointly', 'MarriedFilingSeparately', 'HeadOfHousehold', 'QSS']

THEOREMS = """From Coq Require Import ZArith List Bool.
From HV Require Import TaxModel TaxProofs.
From Gen Require Import Tax%(y)d.
Open Scope Z_scope.

Lemma cfg_checked : cfg_ok %(y)d cfg = true.
Proof. vm_compute. reflexivity. Qed.

Lemma boundary_checked : all_status (boundary_ok %(y)d) = true.
Proof. vm_compute. reflexivity. Qed.

(* defined and equal to the statutory schedule: every status, every income in cents up to the maximum *)
Theorem C07_exact_%(y)d : forall st x, (st < 5)%%nat -> 0 <= x <= max_income * 100 ->
  figure_tax cfg x st = Some (official_tax %(y)d st x).
Proof. exact (figure_tax_exact %(y)d cfg cfg_checked). Qed.

Theorem C07_monotone_%(y)d : forall st x x', (st < 5)%%nat -> 0 <= x <= x' -> x' <= max_income * 100 ->
  exists t t', figure_tax cfg x st = Some t /\\ figure_tax cfg x' st = Some t' /\\ t <= t'.
Proof. exact (figure_tax_monotone %(y)d cfg cfg_checked boundary_checked). Qed.

Theorem C07_qss_eq_mfj_%(y)d : forall x, 0 <= x <= max_income * 100 -> figure_tax cfg x 4 = figure_tax cfg x 1.
Proof. exact (figure_tax_qss_eq_mfj %(y)d cfg cfg_checked). Qed.

(* non-vacuity: a concrete income in each regime *)
Example C07_nonvacuous_%(y)d :
  figure_tax cfg 5012345 0 = Some (official_tax %(y)d 0 5012345) /\\ figure_tax cfg 25000000 3 <> None.
Proof. vm_compute. split; [reflexivity|discriminate]. Qed.

Goal True. idtac "@@PA C07_exact_%(y)d". Abort.
Print Assumptions C07_exact_%(y)d.
Goal True. idtac "@@PA C07_monotone_%(y)d". Abort.
Print Assumptions C07_monotone_%(y)d.
Goal True. idtac "@@PA C07_qss_eq_mfj_%(y)d". Abort.
Print Assumptions C07_qss_eq_mfj_%(y)d.
"""

DIAG = """From Coq Require Import ZArith List Bool.
From HV Require Import TaxModel.
From Gen Require Import Tax%(y)d.
Import ListNotations.
Open Scope Z_scope.
Goal True. idtac "@@ops". Abort.
Eval vm_compute in ops_ok cfg.
Goal True. idtac "@@gaps". Abort.
Eval vm_compute in gaps (c_table cfg) 0.
Goal True. idtac "@@badrows". Abort.
Eval vm_compute in map (fun st => firstn 6 (bad_rows %(y)d cfg st)) [0;1;2;3;4]%%nat.
Goal True. idtac "@@badw". Abort.
Eval vm_compute in map (fun st => firstn 6 (bad_wrows %(y)d cfg st)) [0;1;2;3;4]%%nat.
"""


def cents(d):
    return int(round(d * 100))


def probe_points(cfg, tier, rng, hints):
    """(status, cents) pairs.  Structured: row boundaries and their one-cent neighbours, bracket/worksheet
    boundaries, random cents below the cut, log-uniform up to the maximum, plus hints."""
    pts = []
    rows = cfg['table']
    step = 1 if tier == 'thorough' else 7
    for i, r in enumerate(rows):
        sts = range(5) if tier == 'thorough' else [i % 5]
        if tier != 'thorough' and i % step not in (0,) and i not in (0, 1, 2, len(rows) - 1):
            sts = [(i * 3) % 5] if i % 2 == 0 else []
        for st in sts:
            lo, hi = r[0] * 100, r[1] * 100
            pts += [(st, lo), (st, hi - 1), (st, (lo + hi) // 2)]
    for st in range(5):
        col = cfg['cols'][st]
        if col is None:
            pts.append((st, 1000000))
            continue
        blk = cfg['wk'][col - cfg['wk_off']] if 0 <= col - cfg['wk_off'] < len(cfg['wk']) else []
        for (lo, hi, bp, sub, _, _) in blk:
            for b in (lo * 100, hi * 100):
                pts += [(st, b - 1), (st, b), (st, b + 1)]
        pts += [(st, 0), (st, 1), (st, 9999999), (st, 10000000), (st, 10000001), (st, 10 ** 14)]
    pts = [p for p in pts if 0 <= p[1] <= 10 ** 14]
    n_small = 4000 if tier == 'thorough' else 600
    n_big = 4000 if tier == 'thorough' else 600
    for _ in range(n_small):
        pts.append((rng.randrange(5), rng.randrange(0, 10 ** 7)))
    for _ in range(n_big):
        e = rng.uniform(7, 14)
        pts.append((rng.randrange(5), min(10 ** 14, int(10 ** e))))
    for (st, x) in hints:
        for d in (-1, 0, 1, 100, 2500):
            if 0 <= x + d <= 10 ** 14:
                pts.append((st, x + d))
    if tier == 'thorough':
        for st in range(5):
            for d in range(0, 100000, 1):
                pts.append((st, d * 100 + 37 * (d % 2)))
    # dedupe, keep order
    seen = set()
    out = []
    for p in pts:
        if p not in seen:
            seen.add(p)
            out.append(p)
    return out


def load_year_module(year):
    name = 'habutax.forms.ty%d.f1040_figure_tax' % year
    for m in [k for k in sys.modules if k.startswith('habutax')]:
        del sys.modules[m]
    sys.path.insert(0, REPO)
    try:
        mod = importlib.import_module(name)
        enum = importlib.import_module('habutax.enum')
    finally:
        sys.path.pop(0)
    fs = enum.filing_status_2021 if year == 2021 else enum.filing_status
    members = list(fs)
    return mod, members


def real_figure_tax(mod, members, st, c):
    try:
        v = mod.figure_tax(c / 100.0, members[st])
    except AssertionError:
        return ('crash', 'AssertionError')
    except Exception as e:  # noqa
        return ('crash', type(e).__name__)
    if isinstance(v, bool) or not isinstance(v, (int, float)):
        return ('crash', 'non-number %r' % (v,))
    return ('val', v)


def parse_opts(out, marker):
    seg = out.split(marker, 1)[1]
    seg = seg.split('@@', 1)[0]
    toks = re.findall(r'Some \(?(-?\d+)\)?|(None)', seg)
    return [None if t[1] else int(t[0]) for t in toks]


def parse_zs(seg):
    return [int(t) for t in re.findall(r'-?\d+', seg)]


def run(tier, seed):
    ck = Check('C07', tier, seed)
    rng = random.Random(seed)
    ck.rule = ('probe = (year, status, income in cents); structured set: every/sampled table-row lower bound, last cent and '
               'midpoint, every worksheet/bracket boundary with its one-cent neighbours, seeded uniform cents below $100,000, '
               'log-uniform up to $1e12 (thorough: every row x status and every whole dollar). non-trivial = distinct probe '
               'whose statutory tax is > 0.')
    ck.trusted = [
        'Coq 8.16.1 kernel + vm_compute (no native_compute)',
        'tools/gen_tax.py (ast translator of f1040_figure_tax.py: data + comparison operators + status chain)',
        'coq/TaxModel.v [statutory]: hand transcription of Rev. Proc. 2020-45/2021-45/2022-38 sec. 3.01 and of the IRS Tax Table row layout',
        'float layer: Python evaluates amount*rate-sub in binary64; the theorem is exact arithmetic in micro-dollars; '
        'the tie accepts |python - model| <= 4*2^-53*max(|amount*rate|,|sub|,1) (rigorous bound for two roundings + the rate literal)',
    ]
    ck.assume = ['callers pass amounts already rounded to cents (FloatField.value rounds 1040 line 15 / worksheet lines); '
                 'incomes are modelled in whole cents']
    for year in common.YEARS:
        src = os.path.join(REPO, 'habutax', 'forms', 'ty%d' % year, 'f1040_figure_tax.py')
        hints = []
        cfg = None
        try:
            cfg = gen_tax.translate(src)
        except gen_tax.TranslateError as e:
            ck.oblige('translate:%d' % year, False, str(e))
        except SyntaxError as e:
            ck.oblige('translate:%d' % year, False, 'syntax error: %s' % e)
        proof_ok = False
        if cfg is not None:
            ck.oblige('translate:%d' % year, True)
            ck.write_gen('Tax%d.v' % year, gen_tax.emit(cfg, year))
            ok, out = ck.coqc(ck.gen_path('Tax%d.v' % year), timeout=300)
            ck.oblige('compile-model:%d' % year, ok, out[-600:])
            p = ck.write_gen('C07_%d.v' % year, THEOREMS % {'y': year})
            ok2, out2 = ck.coqc(p, timeout=600) if ok else (False, 'model did not compile')
            ck.harvest_assumptions(out2)
            for thm in ('cfg_checked', 'C07_exact', 'C07_monotone', 'C07_qss_eq_mfj', 'C07_nonvacuous'):
                ck.oblige('%s_%d' % (thm, year), ok2, '' if ok2 else out2[-500:])
            proof_ok = ok and ok2
            if ok and not ok2:
                d = ck.write_gen('C07_diag_%d.v' % year, DIAG % {'y': year})
                okd, outd = ck.coqc(d, timeout=300)
                if okd:
                    try:
                        g = parse_zs(outd.split('@@gaps', 1)[1].split('@@', 1)[0].split(':')[0])
                        for i in range(0, len(g) - 1, 2):
                            for st in range(5):
                                hints.append((st, g[i] * 100))
                                hints.append((st, (g[i] + g[i + 1]) * 50))
                                hints.append((st, g[i + 1] * 100 - 1))
                        br = outd.split('@@badrows', 1)[1].split('@@', 1)[0].split(': list')[0]
                        groups = re.findall(r'\[([^\[\]]*)\]', br)
                        for st, gr in enumerate(groups[:5]):
                            for lo in parse_zs(gr):
                                if lo >= 0:
                                    hints += [(st, lo * 100), (st, lo * 100 + 2500), (st, lo * 100 + 4999)]
                        bw = outd.split('@@badw', 1)[1].split(': list')[0]
                        groups = re.findall(r'\[([^\[\]]*)\]', bw)
                        for st, gr in enumerate(groups[:5]):
                            for lo in parse_zs(gr):
                                if lo >= 0:
                                    hints += [(st, lo * 100 + 1), (st, lo * 100 + 12345678), (st, lo * 100 * 2)]
                        ck.notes.append('%d: failed reflective check; hints %s' % (year, hints[:12]))
                    except Exception as e:  # noqa
                        ck.notes.append('diag parse failed: %r' % (e,))
        # ------------------------------------------------------------ tie + search
        try:
            mod, members = load_year_module(year)
        except Exception as e:  # noqa
            ck.violation('import:%d' % year, 'cannot import f1040_figure_tax for %d: %r' % (year, e),
                         {'year': year, 'error': repr(e)}, found=True)
            continue
        if cfg is None:
            # model unavailable: probe with a default structure taken from the imported data
            try:
                cfg_probe = {'table': [list(r) for r in mod.TAX_TABLE], 'cols': [2, 3, 4, 5, 3], 'wk_off': 2,
                             'wk': [[(int(a), int(b), 0, 0, '', '') for (a, b, c, d) in blk] for blk in mod.TAX_WORKSHEET_VALUES]}
            except Exception:
                cfg_probe = {'table': [], 'cols': [None] * 5, 'wk_off': 2, 'wk': []}
        else:
            cfg_probe = cfg
        pts = probe_points(cfg_probe, tier, rng, hints)
        real = None
        # model + oracle values from Coq, sharded
        model_vals, official_vals = [None] * len(pts), [None] * len(pts)
        shard = 400
        files = []
        model_budget = 6000 if tier == 'thorough' else 1600
        n_struct = min(len(pts), model_budget)
        if len(pts) > model_budget:
            # keep hints (appended late) inside the modelled subset: move them to the front
            hint_pts = [p for p in pts if any(abs(p[1] - h[1]) <= 2500 and p[0] == h[0] for h in hints[:40])]
            rest_pts = [p for p in pts if p not in set(hint_pts)]
            rng.shuffle(rest_pts)
            front = hint_pts[:model_budget // 4] + rest_pts
            rest_sorted = front[:model_budget] + front[model_budget:]
            pts = rest_sorted
        have_model = cfg is not None and ck.obligations and os.path.exists(ck.gen_path('Tax%d.vo' % year))
        for si in range(0, len(pts), shard):
            chunk = pts[si:si + shard]
            lst = '; '.join('(%d%%nat, %d)' % (st, c) for (st, c) in chunk)
            txt = ['From Coq Require Import ZArith List.', 'From HV Require Import TaxModel.']
            if have_model:
                txt.append('From Gen Require Import Tax%d.' % year)
            txt += ['Import ListNotations.', 'Open Scope Z_scope.',
                    'Definition pts : list (nat * Z) := [%s].' % lst,
                    'Goal True. idtac "@@official". Abort.',
                    'Eval vm_compute in map (fun p => Some (official_tax %d (fst p) (snd p))) pts.' % year]
            if have_model and si < model_budget:
                txt += ['Goal True. idtac "@@model". Abort.',
                        'Eval vm_compute in map (fun p => figure_tax cfg (snd p) (fst p)) pts.']
            files.append((si, ck.write_gen('cases_%d_%d.v' % (year, si // shard), '\n'.join(txt) + '\n')))
        real = [real_figure_tax(mod, members, st, c) for (st, c) in pts]
        res = ck.coqc_many([f for _, f in files], timeout=900)
        cases_ok = True
        for si, f in files:
            ok, out = res[f]
            if not ok:
                cases_ok = False
                ck.notes.append('cases file failed: %s' % out[-300:])
                continue
            off = parse_opts(out, '@@official')
            n = min(shard, len(pts) - si)
            if len(off) != n:
                cases_ok = False
                continue
            official_vals[si:si + n] = off
            if have_model and si < model_budget:
                mv = parse_opts(out, '@@model')
                if len(mv) == n:
                    model_vals[si:si + n] = mv
                else:
                    cases_ok = False
        ck.oblige('cases-evaluated:%d' % year, cases_ok)
        n_model_dis = 0
        for i, (st, c) in enumerate(pts):
            off = official_vals[i]
            kind, v = real[i]
            ck.count((year, st, c), nontrivial=bool(off))
            # tolerance: rigorous bound on the float evaluation
            def close(micro):
                if kind != 'val':
                    return False
                exact = Fraction(micro, 10 ** 6)
                bound = Fraction(4, 2 ** 53) * max(abs(exact) * 3, Fraction(c, 100), 1) + Fraction(1, 10 ** 9)
                return abs(Fraction(v) - exact) <= bound
            if have_model and i < model_budget - model_budget % shard:
                mv = model_vals[i]
                agree = (mv is None and kind == 'crash') or (mv is not None and close(mv))
                if not agree:
                    n_model_dis += 1
                    if n_model_dis <= 3:
                        ck.notes.append('model/code disagreement %d st=%d cents=%d model=%r code=%r' % (year, st, c, mv, real[i]))
            if off is not None and not close(off):
                key = 'figure_tax:%d:%s:%s' % (year, 'undefined' if kind == 'crash' else 'wrong',
                                               'table' if c < 10 ** 7 else 'worksheet')
                ck.violation(key + ':%d' % (c // 100 // 1000 * 1000) if kind != 'crash' else key,
                             'figure_tax(%s, %s) for %d is %s; statutory %.6f' % (
                                 c / 100.0, STATUS_NAMES[st], year, 'undefined (%s)' % v if kind == 'crash' else repr(v),
                                 off / 1e6),
                             {'kind': 'failing-input', 'year': year, 'status_index': st, 'status': STATUS_NAMES[st],
                              'amount': c / 100.0, 'expected_micro_dollars': off, 'observed': list(real[i]),
                              'how_to_run': "PYTHONPATH=/repo /venv/bin/python -c \"from habutax.forms.ty%d import f1040_figure_tax as m; from habutax import enum; fs=list(enum.filing_status%s); print(m.figure_tax(%r, fs[%d]))\"" % (
                                  year, '_2021' if year == 2021 else '', c / 100.0, st)},
                             found=True)
        if have_model:
            ck.oblige('correspondence:%d (%d probes)' % (year, len(pts)), n_model_dis == 0,
                      '%d disagreements' % n_model_dis)
        ck.cov.setdefault('probes_per_year', {})[str(year)] = len(pts)
        ck.sample({'year': year, 'status': STATUS_NAMES[pts[len(pts) // 2][0]], 'cents': pts[len(pts) // 2][1],
                   'python': list(real[len(pts) // 2]), 'official_micro': official_vals[len(pts) // 2]})
        # a broken proof/tie with no failing input found
        failed = [o for o in ck.obligations if not o[1] and o[0].endswith(str(year)) or (not o[1] and ':%d' % year in o[0])]
        if failed and not any(v['key'].startswith('figure_tax:%d' % year) for v in ck.violations) \
                and not any(k.startswith('figure_tax:%d' % year) for k, _ in ck.known_hit):
            ck.violation('unproved:%d' % year,
                         'C07 obligations no longer check for %d: %s' % (year, ', '.join(o[0] for o in failed[:4])),
                         {'kind': 'proof-or-correspondence', 'year': year,
                          'theorem_or_correspondence': [o[0] for o in failed], 'detail': [o[2] for o in failed][:3]},
                         found=False)
    # every form of a year that figures tax does so with THAT year's figure_tax (a stale import from another year's module is silent otherwise)
    import importlib
    import pkgutil
    sys.path.insert(0, REPO)
    try:
        for year in common.YEARS:
            pkg = importlib.import_module('habutax.forms.ty%d' % year)
            own = importlib.import_module('habutax.forms.ty%d.f1040_figure_tax' % year)
            n_users = 0
            for mi in pkgutil.iter_modules(pkg.__path__):
                if mi.name == 'f1040_figure_tax':
                    continue
                try:
                    mod = importlib.import_module('habutax.forms.ty%d.%s' % (year, mi.name))
                except Exception:  # noqa
                    continue
                for attr in ('figure_tax', 'figure_tax_table', 'figure_tax_worksheet'):
                    fn = getattr(mod, attr, None)
                    if fn is None:
                        continue
                    n_users += 1
                    ck.count((year, mi.name, attr), nontrivial=True)
                    if fn is not getattr(own, attr, None):
                        import habutax.enum as henum
                        fs = list(henum.filing_status_2021 if year == 2021 else henum.filing_status)
                        witness = None
                        if attr == 'figure_tax':
                            for amt in (50025.0, 87150.0, 120000.0, 250000.0):
                                try:
                                    if fn(amt, fs[0]) != own.figure_tax(amt, fs[0]):
                                        witness = {'amount': amt, 'status': fs[0].name, 'used': fn(amt, fs[0]), 'statutory_for_the_year': own.figure_tax(amt, fs[0])}
                                        break
                                except Exception:  # noqa
                                    pass
                        ck.violation('C07:%d:%s.%s' % (year, mi.name, attr),
                                     'ty%d %s figures tax with %s.%s, not with the %d schedule%s' % (
                                         year, mi.name, getattr(fn, '__module__', '?'), attr, year,
                                         (': for %s %.2f it gives %.2f where the %d schedule gives %.2f' % (
                                             witness['status'], witness['amount'], witness['used'], year, witness['statutory_for_the_year'])) if witness else ''),
                                     dict(witness or {}, kind='failing-input', year=year, module=mi.name, function=getattr(fn, '__module__', '?')), found=True)
            ck.oblige('every ty%d form that figures tax uses the %d figure_tax (%d uses)' % (year, year, n_users), n_users > 0)
    finally:
        sys.path.remove(REPO)
    ck.audit_sources()
    return ck.finish()
