"""C18 — each PDF box is filled from the line the official template assigns to it.

 regen   every form's pdf_fields by introspection; the field table of every bundled template by tools/pdf_reader.py (XFA packet for
         the IRS templates, AcroForm dictionaries for the NC ones)
 prove   Gen/C18_<y>.v: form_mappings_ok template aliases mappings = true for every form with a template (vm_compute; Prop reading
         PdfCheck.form_mappings_ok_spec): widget exists, same kind, label names the mapped line (or an alias with a recorded reason),
         export value offered, length limit not larger than the template's, mapped line declared, no widget driven twice
 search  exclusive groups: the real value_fn of every button mapping is evaluated for EVERY value of its driving line (booleans,
         every enumeration member and None) and at most one box of a group may be on
"""
import json
import os
import random
import re

from . import common, scenarios, catalog, solverfam as sf
from .common import Check

import gen_forms  # noqa
import pdf_reader  # noqa


def kind_of(pf, PF):
    if isinstance(pf, PF.TextPDFField):
        return 0
    if isinstance(pf, (PF.ButtonPDFField, PF.OptionlessButtonPDFField)):
        return 1
    if isinstance(pf, PF.ChoicePDFField):
        return 2
    return 9


def run(tier, seed):
    ck = Check('C18', tier, seed)
    ck.rule = ('exhaustive over every PDF mapping of every form of every year against the parsed template; exclusivity for every value of '
               'each driving line; non-trivial = mapping whose template widget carries a line label, an export value or a length limit')
    ck.trusted = ['Coq 8.16.1 kernel + vm_compute', 'tools/pdf_reader.py (XFA / AcroForm reader written for this project; no PDF library available)',
                  'oracles/label_alias.json: widgets whose accessibility text names another line than the mapped one, each with its reason',
                  'Coq\'s contribution here is a checked, explicit statement over extracted data (thin)']
    H = scenarios.habutax_modules()
    PF = H['pdf_fields']
    aliases = json.load(open(os.path.join(common.ROOT, 'oracles', 'label_alias.json')))['aliases'] \
        if os.path.exists(os.path.join(common.ROOT, 'oracles', 'label_alias.json')) else []
    files = []
    total = 0
    for y in common.YEARS:
        classes = {c.form_name: c for c in H['forms'].available_forms[y]}
        decl = {}
        for name, cls in classes.items():
            obj = cls(instance=gen_forms.instances_of(cls)[0])
            decl[name] = (obj, {f.base_name() for f in obj.fields()})
        parts = ['From Coq Require Import ZArith List String Bool.', 'From HV Require Import PdfCheck.', 'Import ListNotations.',
                 'Open Scope string_scope.']
        thms = []
        for name, (obj, lines) in decl.items():
            pfs = obj.pdf_fields()
            if not obj.pdf_file():
                if pfs:
                    ck.violation('C18:%d:%s:mappings-without-template' % (y, name), 'ty%d %s has PDF mappings but no template' % (y, name),
                                 {'kind': 'failing-input', 'year': y, 'form': name}, found=True)
                continue
            try:
                tmpl = pdf_reader.read_template(obj.pdf_file())
            except Exception as e:  # noqa
                ck.violation('C18:%d:%s:template-unreadable' % (y, name), 'ty%d %s: template %s cannot be read: %r' % (y, name, obj.pdf_file(), e),
                             {'kind': 'failing-input', 'year': y, 'form': name}, found=True)
                continue
            ws = []
            for wn in tmpl['order']:
                w = tmpl['fields'][wn]
                lab = pdf_reader.line_label(w['speak'])
                if tmpl['source'] == 'acroform':
                    m = re.search(r'_li(\d+[a-z]?)(?:_|$)', wn)
                    lab = m.group(1) if m else None
                ws.append('Widget %s %d %s %s %s' % (gen_forms.cstr(wn), {'text': 0, 'check': 1, 'choice': 2}.get(w['kind'], 9),
                                                     '(Some %s)' % gen_forms.cz(w['maxlen']) if w['maxlen'] else 'None',
                                                     gen_forms.clist([gen_forms.cstr(v) for v in w['on_values']]),
                                                     '(Some %s)' % gen_forms.cstr(lab) if lab else 'None'))
            ms = []
            for pf in pfs:
                fname = pf.field_name
                if '.' in fname:
                    fform, base = fname.split('.')
                    exists = fform.split(':')[0] in decl and base in decl[fform.split(':')[0]][1]
                else:
                    base = fname
                    exists = base in lines
                tv = getattr(pf, '_true_value', None)
                ml = getattr(pf, 'max_length', None)
                w0 = tmpl['fields'].get(pf.pdf_field_name)
                if w0 is not None:
                    lab0 = pdf_reader.line_label(w0['speak'])
                    if tmpl['source'] == 'acroform':
                        mm = re.search(r'_li(\d+[a-z]?)(?:_|$)', pf.pdf_field_name)
                        lab0 = mm.group(1) if mm else None
                    if lab0 and base.startswith(lab0 + '_'):
                        base = lab0          # per-row / helper names: 1_amount_3, 5a_checkbox
                ms.append('Mapping %s %s %s %d %s %s %s' % (
                    gen_forms.cstr(pf.pdf_field_name), gen_forms.cstr(fname), gen_forms.cstr(base), kind_of(pf, PF),
                    '(Some %s)' % gen_forms.cstr(str(tv)) if tv is not None else 'None',
                    '(Some %s)' % gen_forms.cz(ml) if ml is not None else 'None', 'true' if exists else 'false'))
                w = tmpl['fields'].get(pf.pdf_field_name)
                total += 1
                ck.count((y, name, pf.pdf_field_name), nontrivial=bool(w and (w['maxlen'] or w['on_values'] or pdf_reader.line_label(w['speak']))))
            al = []
            for a in aliases:
                if a['year'] in (y, '*') and a['form'] == name:
                    for pf in pfs:
                        if pf.field_name == a['line']:
                            al.append({'widget': pf.pdf_field_name, 'line': pf.field_name})
            ident = re.sub(r'[^A-Za-z0-9]', '_', name)
            parts += ['Module F_%s.' % ident,
                      'Definition tmpl : list widget := %s.' % gen_forms.clist(ws),
                      'Definition maps : list mapping := %s.' % gen_forms.clist(ms),
                      'Definition aliases : list (string * string) := %s.' % gen_forms.clist(
                          ['(%s, %s)' % (gen_forms.cstr(a['widget']), gen_forms.cstr(a['line'])) for a in al]),
                      'End F_%s.' % ident,
                      'Goal True. idtac "@@BAD %s". Abort.' % name,
                      'Eval vm_compute in bad_mappings F_%s.tmpl F_%s.aliases F_%s.maps.' % (ident, ident, ident)]
            thms.append((name, ident, len(ms)))
            # ---- a Yes box and its No box (widget names <stem>yes / <stem>no) are driven by the same line
            stems = {}
            for pf in pfs:
                if isinstance(pf, PF.ButtonPDFField):
                    mm_ = re.match(r'^(.*?)(yes|no)$', pf.pdf_field_name, re.I)
                    if mm_:
                        stems.setdefault(mm_.group(1).lower(), {})[mm_.group(2).lower()] = pf
            for stem, pair in stems.items():
                if 'yes' in pair and 'no' in pair:
                    ck.count((y, name, stem, 'yes/no pair'), nontrivial=True)
                    if pair['yes'].field_name != pair['no'].field_name:
                        ck.violation('C18:%d:%s:yes-no-pair:%s' % (y, name, stem),
                                     'ty%d %s: the Yes box %s is filled from line %s but its No box %s from line %s' % (
                                         y, name, pair['yes'].pdf_field_name, pair['yes'].field_name, pair['no'].pdf_field_name, pair['no'].field_name),
                                     {'kind': 'failing-input', 'year': y, 'form': name, 'yes_box': pair['yes'].pdf_field_name, 'yes_line': pair['yes'].field_name,
                                      'no_box': pair['no'].pdf_field_name, 'no_line': pair['no'].field_name,
                                      'how': 'a return where the two lines differ ticks both boxes or neither'}, found=True)
            # ---- exclusivity, on the real value functions
            groups = {}
            for pf in pfs:
                if isinstance(pf, PF.ButtonPDFField):
                    g = re.sub(r'\[\d+\]$', '', pf.pdf_field_name)
                    groups.setdefault((g, pf.field_name), []).append(pf)
            for (g, fname), members in groups.items():
                if len(members) < 2:
                    continue
                fld = None
                base = fname.split('.')[-1]
                owner = decl.get(fname.split('.')[0].split(':')[0], (None, None))[0] if '.' in fname else obj
                if owner is not None:
                    cand = [f for f in owner.fields() if f.base_name() == base]
                    fld = cand[0] if cand else None
                if fld is None:
                    continue
                if isinstance(fld, H['fields'].EnumField):
                    dom = list(fld.enum()) + [None]
                elif isinstance(fld, H['fields'].BooleanField):
                    dom = [True, False]
                else:
                    continue
                # the enumeration member that turns a box on is the one the box is labelled with (when the labels name members at all)
                if isinstance(fld, H['fields'].EnumField):
                    def letters(t):
                        return re.sub(r'[^a-z]', '', t.lower())

                    def matches(member, text):
                        toks = [t.lower() for t in re.findall(r'[A-Z][a-z]+|[a-z]+', member.name)]
                        return len(member.name) >= 4 and toks and all(t in letters(text) for t in toks)
                    texts = {pf.pdf_field_name: (tmpl['fields'].get(pf.pdf_field_name) or {}).get('speak', '') for pf in members}
                    for m_ in fld.enum():
                        named = [w for w, t in texts.items() if matches(m_, t)]
                        if len(named) != 1:
                            continue
                        on_ = []
                        for pf in members:
                            try:
                                if pf.value(m_, fld) != 'Off':
                                    on_.append(pf.pdf_field_name)
                            except Exception:  # noqa
                                pass
                        ck.count((y, name, g, 'label', m_.name), nontrivial=True)
                        if on_ and named[0] not in on_:
                            ck.violation('C18:%d:%s:member-label:%s' % (y, name, m_.name),
                                         'ty%d %s: %s = %s ticks %s (labelled "%s"), while the box labelled with that status is %s' % (
                                             y, name, fname, m_.name, on_[0].split('.')[-1], texts[on_[0]][:60], named[0].split('.')[-1]),
                                         {'kind': 'failing-input', 'year': y, 'form': name, 'line': fname, 'value': m_.name, 'box_ticked': on_,
                                          'box_labelled': named[0], 'label_of_ticked_box': texts[on_[0]]}, found=True)
                for v in dom:
                    on = []
                    for pf in members:
                        try:
                            if pf.value(v, fld) != 'Off':
                                on.append(pf.pdf_field_name)
                        except Exception:  # noqa
                            pass
                    ck.count((y, name, g, str(v)), nontrivial=True)
                    if len(on) > 1:
                        ck.violation('C18:%d:%s:exclusive:%s' % (y, name, g.split('.')[-1]),
                                     'ty%d %s: for %s = %s the boxes %s are all on' % (y, name, fname, getattr(v, 'name', v), on),
                                     {'kind': 'failing-input', 'year': y, 'form': name, 'line': fname, 'value': str(getattr(v, 'name', v)), 'boxes_on': on}, found=True)
        for name, ident, n in thms:
            parts += ['Theorem C18_%s_%d : form_mappings_ok F_%s.tmpl F_%s.aliases F_%s.maps = true.' % (ident, y, ident, ident, ident),
                      'Proof. vm_compute. reflexivity. Qed.']
        files.append((y, thms, ck.write_gen('C18_%d.v' % y, '\n'.join(parts) + '\n')))
    res = ck.coqc_many([f for _, _, f in files], timeout=900)
    CODES = {1: 'the widget does not exist in the template', 2: 'the widget is of another kind', 3: 'the widget is labelled with another line',
             4: 'the export value is not offered by the widget', 5: 'the length limit exceeds the template\'s', 6: 'the mapped line does not exist'}
    for y, thms, f in files:
        ok, out = res[f]
        bad_any = False
        for blk in out.split('@@BAD ')[1:]:
            head, _, rest = blk.partition('\n')
            form = head.strip()
            seg = rest.split('@@', 1)[0].split(': list')[0]
            for wn, code in re.findall(r'\("([^"]*)",\s*(\d+)(?:%nat)?\)', seg):
                bad_any = True
                ck.violation('C18:%d:%s:%s' % (y, form, wn.split('.')[-1]), 'ty%d %s: mapping to %s: %s' % (y, form, wn, CODES.get(int(code), code)),
                             {'kind': 'failing-input', 'year': y, 'form': form, 'widget': wn, 'code': int(code), 'meaning': CODES.get(int(code))}, found=True)
        for name, ident, n in thms:
            ck.oblige('theorem:C18_%s_%d (%d mappings)' % (ident, y, n), ok, '' if ok else out[-200:])
    ck.cov['mappings'] = total
    ck.cov['exhaustive'] = True
    ck.sample({'year': 2023, 'forms_with_templates': [t[0] for t in files[-1][1]] if files else []})
    # the filler itself: every box of every filled form carries the text of ITS mapped line (recorder in place of pdftk)
    from . import c19
    c19.real_fills(ck, H, H['pdf_filler'], random.Random(seed + 18), tier, 'C18')
    return sf.finish_family(ck, 'C18')
