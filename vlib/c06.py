"""C06 — termination, bounded work, no lost waiter."""
import itertools
import random
import re

from . import common, solverfam as sf, solvercorr as sc, scenarios
from .common import Check

HEADER = 'From Coq Require Import ZArith NArith List Bool.\nFrom HV Require Import Solver TrackerExec.\nImport ListNotations.\nOpen Scope Z_scope.\n'


def py_history(H, ops):
    """Run a history on the real DependencyTracker; waiters are plain ints (the tracker never inspects them)."""
    T = H['solver'].DependencyTracker()
    gen = None
    out = []
    for op in ops:
        y = 0
        if op[0] == 'add':
            T.add_unmet(op[1], op[2])
        elif op[0] == 'meet':
            T.meet(op[1])
        else:
            if gen is None:
                gen = T.met_dependents()
            try:
                y = next(gen)
            except StopIteration:
                gen = None
                y = 0
        obs = [y, 1 if T.has_met() else 0, 1 if T.has_unmet() else 0, len(T._unmet)]
        for d, ws in T._unmet.items():
            obs += [d, len(ws)] + list(ws)
        obs += [len(T._met)] + list(T._met)
        out.append(obs)
    return out


def coq_history(ops):
    parts = []
    for op in ops:
        if op[0] == 'add':
            parts.append('HAdd %d%%N %d%%N' % (op[1], op[2]))
        elif op[0] == 'meet':
            parts.append('HMeet %d%%N' % op[1])
        else:
            parts.append('HNext')
    return '[' + '; '.join(parts) + ']'


def gen_history(rng, n, ndeps=3, nw=4):
    ops = []
    for _ in range(n):
        r = rng.random()
        if r < 0.45:
            ops.append(('add', rng.randrange(1, ndeps + 1), rng.randrange(1, nw + 1)))
        elif r < 0.7:
            ops.append(('meet', rng.randrange(1, ndeps + 1)))
        else:
            ops.append(('next',))
    return ops


def tracker_correspondence(ck, H, rng, n_random, exhaustive_len):
    hists = [gen_history(rng, rng.randrange(1, 25)) for _ in range(n_random)]
    if exhaustive_len:
        alphabet = [('add', d, w) for d in (1, 2) for w in (1, 2, 3)] + [('meet', 1), ('meet', 2), ('next',)]
        for L in range(1, exhaustive_len + 1):
            for tup in itertools.product(alphabet, repeat=L):
                hists.append(list(tup))
    files = []
    shard = 400
    for b in range(0, len(hists), shard):
        txt = [HEADER]
        for i in range(b, min(b + shard, len(hists))):
            txt.append('Goal True. idtac "@@R %d". Abort.' % i)
            txt.append('Eval vm_compute in run_history %s tr_empty.' % coq_history(hists[i]))
        files.append(ck.write_gen('tracker_%d.v' % (b // shard), '\n'.join(txt) + '\n'))
    res = ck.coqc_many(files, timeout=900)
    coq = {}
    okfiles = True
    for f in files:
        ok, out = res[f]
        if not ok:
            okfiles = False
            ck.notes.append('tracker cases failed: ' + out[-300:])
            continue
        for blk in out.split('@@R ')[1:]:
            head, _, rest = blk.partition('\n')
            body = rest.split(': list (list Z)')[0]
            rows = re.findall(r'\[([^\[\]]*)\]', body)
            coq[int(head.strip())] = [[int(x) for x in re.findall(r'-?\d+', r)] for r in rows]
    dis = 0
    for i, h in enumerate(hists):
        p = py_history(H, h)
        c = coq.get(i)
        nontriv = any(o[0] == 'next' for o in h) and any(o[0] == 'meet' for o in h)
        ck.count(('hist', tuple(h)), nontrivial=nontriv)
        if p != c:
            dis += 1
            if dis <= 3:
                ck.notes.append('tracker model/code disagreement on history %s: py=%s coq=%s' % (h, p, c))
    ck.oblige('correspondence:tracker-model (%d histories%s)' % (len(hists), ', all of length <= %d' % exhaustive_len if exhaustive_len else ''),
              okfiles and dis == 0, '%d disagreements' % dis)
    ck.cov['tracker_histories'] = len(hists)
    return hists


def mon_tracker(H, hist):
    """exactly-once / never-early / never-lost on the real tracker, against a multiset oracle.
    never-lost is checked at the moment a met dependency leaves _met: no registration under it may be outstanding."""
    T = H['solver'].DependencyTracker()
    regs = []      # outstanding (d, w)
    gen = None
    for op in hist:
        if op[0] == 'add':
            T.add_unmet(op[1], op[2])
            regs.append((op[1], op[2]))
        elif op[0] == 'meet':
            T.meet(op[1])
        else:
            if gen is None:
                gen = T.met_dependents()
            before = list(T._met)
            y = None
            try:
                y = next(gen)
            except StopIteration:
                gen = None
            after = list(T._met)
            if y is not None:
                cands = [r for r in regs if r[1] == y and r[0] in before]
                if not cands:
                    return 'released waiter %r that has no outstanding registration under a met dependency' % (y,)
                # the dependency it was released under is the first met one it is registered under
                cands.sort(key=lambda r: before.index(r[0]))
                regs.remove(cands[0])
            npop = len(before) - len(after)
            for m in before[:npop]:
                if after.count(m) == 0 and any(r[0] == m for r in regs):
                    return 'dependency %r left the met list while registrations under it remain: %s' % (
                        m, [r for r in regs if r[0] == m][:3])
    return None


def mon_c06(H, R, case):
    out = []
    if not hasattr(R, 'solver'):
        return out
    attempts = {}
    prompts = []
    refused_at = None
    for idx, ev in enumerate(R.trace):
        if ev[0] == 'attempt':
            attempts[ev[1]] = attempts.get(ev[1], 0) + 1
        else:
            if refused_at is not None:
                out.append('prompted for %s after a refusal' % ev[1])
            prompts.append(ev[1])
            if ev[2] == 0:
                refused_at = idx
    if len(set(prompts)) != len(prompts):
        out.append('an input was asked more than once: %s' % [p for p in prompts if prompts.count(p) > 1][:2])
    waits = getattr(R, 'waits', {})
    req_mult = {}
    for r in case['request']:
        req_mult[r] = req_mult.get(r, 0) + 1
    required = set()
    for fd in case.get('forms', []):
        for l in fd.get('required', []):
            required.add((fd['name'], l['name']))
    for f, n in attempts.items():
        form = f.split('.')[0]
        # how often the line is put on the queue by the request itself: as a required line of each requested copy of its form, and
        # once per mention among the individually requested lines; a line that is neither is scheduled once, on demand
        is_req = (form.split(':')[0], f.split('.', 1)[1]) in required
        c = max(1, (req_mult.get(form, 0) if is_req else 0) + case['fields'].count(f))
        w = len(set(waits.get(f, []))) + len(set(getattr(R, 'loads', {}).get(f, [])))
        if n > c * (1 + len(set(waits.get(f, [])))) + len(set(getattr(R, 'loads', {}).get(f, []))):
            out.append('line %s evaluated %d times; scheduled %d time(s), waited for %d distinct things' % (f, n, c, w))
            break
    return out


def run(tier, seed):
    ck = Check('C06', tier, seed)
    rng = random.Random(seed + 6)
    ck.rule = ('(a) tracker histories over add_unmet/meet/next(generator): seeded random + all histories up to a length bound, run on '
               'the real DependencyTracker and on the model; non-trivial = history with a meet and a generator step. '
               '(b) generated catalogues / real-form scenarios on the real solver under an attempt budget: attempts per line vs '
               'distinct waits, prompts asked once, none after refusal; distinct by content')
    ck.trusted = list(sf.BASE_TRUST) + [
        'wall-clock and Python recursion depth are not modelled; termination of the real solver is observed (attempt budget), '
        'the Coq statements cover the bookkeeping (tracker refinement, prompt bounds)']
    sf.compile_props(ck, 'C06')
    H = sc._habutax()
    hists = tracker_correspondence(ck, H, rng, 1500 if tier == 'quick' else 20000, 3 if tier == 'quick' else 5)
    for h in hists:
        p = mon_tracker(H, h)
        if p:
            ck.violation('C06:tracker:%s' % '-'.join(p.split()[:4]), p,
                         {'kind': 'failing-input', 'history': h, 'problem': p}, found=True)
    n_nat, n_perm = (1000, 300) if tier == 'quick' else (10000, 3000)
    cases, dis_cases = sf.correspondence(ck, rng, n_nat, n_perm)

    # run with wait logging + attempt budget
    def monitor(H, R, case):
        return mon_c06(H, R, case)
    # more programs in which lines are requested individually (field_names): optional lines of requested forms, which other lines
    # may demand while they are still unsolved
    extra = []
    for _ in range(400 if tier == 'quick' else 5000):
        case = sc.gen_case(rng)
        if case['fields'] or not case['request']:
            continue
        by_name = {fd['name']: fd for fd in case['forms']}
        picks = []
        for inst in case['request']:
            fd = by_name.get(inst.split(':')[0])
            if fd and fd.get('optional'):
                picks.append('%s.%s' % (inst, rng.choice(fd['optional'])['name']))
        if picks:
            case['fields'] = picks[:rng.choice([1, 1, 2])]
            extra.append(case)
    ck.cov['programs_with_individually_requested_optional_lines'] = len(extra)
    bad = 0
    for case in dis_cases + cases + extra:
        R = exec_with_waits(H, case)
        if R.budget_exceeded or isinstance(R.exc, common.SolveDidNotFinish):
            ck.violation('C06:generated:attempt-budget', 'solve did not finish within %d attempts / %d passes of the main loop (%s)' % (
                R.budget, common.WATCHDOG_PASSES, type(R.exc).__name__),
                         {'kind': 'failing-input', 'case': case, 'how_to_run': 'vlib.solvercorr.exec_case(case) on the real solver'}, found=True)
            continue
        probs = mon_c06(H, R, case)
        ck.count(('case', str(case)[:3000]), nontrivial=any(len(v) > 0 for v in R.waits.values()))
        if probs:
            bad += 1
            ck.violation('C06:generated:%s' % '-'.join(re.sub(r'[^a-z ]+', ' ', probs[0].lower()).split()[:4]), probs[0],
                         {'kind': 'failing-input', 'case': case, 'problems': probs}, found=True)
    # real forms: after a finished solve nobody still waits on something that has been met (blank enumeration values included)
    sf.run_real_monitor(ck, 40 if tier == 'quick' else 500, rng,
                        lambda H_, res, sc_: sf.mon_lost_waiter(H_, res['solver'], res['ok'], res['store'], res['exc']), 'C06')
    ck.sample({'history': hists[7], 'python_observations': py_history(H, hists[7])})
    return sf.finish_family(ck, 'C06')


class Budget(Exception):
    pass


def exec_with_waits(H, case, budget=20000):
    """exec_case with add_unmet logging and an attempt budget (termination monitor)."""
    solver_mod = H['solver']
    waits = {}
    count = [0]
    orig_add = solver_mod.DependencyTracker.add_unmet
    orig_attempt = solver_mod.Solver._attempt_field

    def add_unmet(self, dependency_name, dependent):
        waits.setdefault(dependent.name(), []).append(dependency_name)
        return orig_add(self, dependency_name, dependent)

    loads = {}
    cur = [None]
    orig_spec = solver_mod.Solver._add_input_spec

    def add_spec(self, input_name):
        loads.setdefault(cur[0], []).append(input_name.split('.')[0])
        return orig_spec(self, input_name)

    def attempt(self, field):
        cur[0] = field.name()
        count[0] += 1
        if count[0] > budget:
            raise Budget()
        return orig_attempt(self, field)
    solver_mod.DependencyTracker.add_unmet = add_unmet
    solver_mod.Solver._attempt_field = attempt
    solver_mod.Solver._add_input_spec = add_spec
    try:
        R = sc.exec_case(case, H)
    finally:
        solver_mod.DependencyTracker.add_unmet = orig_add
        solver_mod.Solver._attempt_field = orig_attempt
        solver_mod.Solver._add_input_spec = orig_spec
    R.loads = loads
    R.waits = waits
    R.budget = budget
    R.budget_exceeded = isinstance(R.exc, Budget)
    return R
