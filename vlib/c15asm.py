"""C15: assembly of the local sign lemmas along the dependency order into one theorem per year.

   C15_signs_<y> : for every store (ev over qualified line names, ei over qualified input names) -
       boundary lines >= 0  (lines read by the set S that are not themselves in S: helper-function lines, lines of other forms' copies)
    -> money inputs read by S >= 0
    -> every line of S holds what its definition yields (tsem, i.e. the fixed-point reading given by xtop_sound)
    -> every line of S >= 0.
   S = the lines with a proved local lemma, ordered topologically by the lines they read (lines on a syntactic cycle are left out).
"""
import re

import gen_forms  # noqa


def qual(f, n):
    return n if '.' in n else '%s.%s' % (f, n)


def lists_file(head, y, good):
    rows = '; '.join('(%d%%nat, LN_%d, IN_%d)' % (i, i, i) for i in good)
    return head + 'From Gen Require Import C15_nn_%d.\nGoal True. idtac "@@LISTS". Abort.\nEval vm_compute in [%s].\nGoal True. idtac "@@ENDLISTS". Abort.\n' % (y, rows)


def parse_lists(out):
    seg = out.split('@@LISTS', 1)[1].split('@@ENDLISTS')[0]
    res = {}
    for m in re.finditer(r'\(\s*(\d+)(?:%nat)?,\s*\[([^\]]*)\],\s*\[([^\]]*)\]\)', seg.replace('\n', ' ')):
        res[int(m.group(1))] = (re.findall(r'"([^"]*)"', m.group(2)), re.findall(r'"([^"]*)"', m.group(3)))
    return res


def signs_file(head, y, ml, good, lists):
    """ml[i] = ((form, line), places); lists[i] = (line names read, input names read) for i in good"""
    name_of = {i: qual(ml[i][0][0], ml[i][0][1]) for i in good}
    idx_of = {v: k for k, v in name_of.items()}
    deps = {}
    for i in good:
        f = ml[i][0][0]
        deps[i] = set(idx_of[qual(f, n)] for n in lists[i][0] if qual(f, n) in idx_of and idx_of[qual(f, n)] != i)
    order, done, left = [], set(), list(good)
    progress = True
    while left and progress:
        progress = False
        for i in list(left):
            if deps[i] <= done:
                order.append(i)
                done.add(i)
                left.remove(i)
                progress = True
    dropped = left          # syntactic cycles (or self reads)
    S = order
    boundary, inputs, seen_b = [], [], set()
    for i in S:
        f = ml[i][0][0]
        for n in lists[i][0]:
            q = qual(f, n)
            if (q not in idx_of or idx_of[q] not in done) and q not in seen_b:
                seen_b.add(q)
                boundary.append((f, n))
        for n in lists[i][1]:
            if (f, n) not in inputs:
                inputs.append((f, n))
    cs = gen_forms.cstr

    def ev(f, n):
        return 'ev (qual %s %s)' % (cs(f), cs(n))
    t = [head, 'From Gen Require Import C15_nn_%d.' % y]
    hyps = []
    for k, (f, n) in enumerate(boundary):
        hyps.append(('B%d' % k, '0 <= %s' % ev(f, n)))
    for k, (f, n) in enumerate(inputs):
        hyps.append(('J%d' % k, '0 <= ei (qual %s %s)' % (cs(f), cs(n))))
    for i in S:
        (f, l), p = ml[i]
        hyps.append(('F%d' % i, 'tsem (fun n => ev (qual %s n)) (fun n => ei (qual %s n)) %d T_%d (%s)' % (cs(f), cs(f), p, i, ev(f, l))))
    concl = ' /\\\n  '.join('0 <= %s' % ev(ml[i][0][0], ml[i][0][1]) for i in S)
    t.append('Theorem C15_signs_%d : forall ev ei : string -> Q,\n  %s ->\n  %s.' % (y, ' ->\n  '.join(h for _, h in hyps), concl))
    pr = ['Proof.', '  intros ev ei %s.' % ' '.join(n for n, _ in hyps)]
    for i in S:
        (f, l), p = ml[i]
        pr.append('  assert (N%d : 0 <= %s).' % (i, ev(f, l)))
        pr.append('  { pose proof (C15_nn_%d_%d _ _ _ F%d) as X. unfold LN_%d, IN_%d in X. cbn [nn_hyp] in X. apply X; assumption. }' % (y, i, i, i, i))
    pr.append('  repeat split; assumption.')
    pr.append('Qed.')
    t += pr
    t.append('Goal True. idtac "@@PA C15_signs_%d". Abort.\nPrint Assumptions C15_signs_%d.' % (y, y))
    return '\n'.join(t) + '\n', {'lines_in_theorem': len(S), 'boundary_lines_assumed_nonneg': ['%s.%s' % (f, n) if '.' not in n else n for f, n in boundary],
                                 'money_inputs': len(inputs), 'left_out_syntactic_cycle': [name_of[i] for i in dropped]}


# ------------------------------------------------------------------------------------------- a concrete instance
def instance_file(head, y, vals_txt, inps_txt, forms_txt):
    """C15_fed_balance_<y> applied to the store of one REAL solved return: its hypotheses are met by a reachable state
    (every line_fix by evaluating the regenerated line on that store inside Coq)."""
    lines = ['24', '33', '34', '35a', '36', '37']
    t = [head, 'From HV Require Import TaxModel.', 'From Gen Require Import Tax%d C15_fed_%d.' % (y, y),
         'Open Scope Q_scope.', 'Open Scope string_scope.',
         'Definition vals0 : list (string * pv) := %s.' % vals_txt,
         'Definition inps0 : list (string * pv) := %s.' % inps_txt,
         'Definition normv (v:pv) : pv := match v with PNum q => PNum (Qred q) | _ => v end.',
         'Definition vals := Eval vm_compute in map (fun kv => (fst kv, normv (snd kv))) vals0.',
         'Definition inps := Eval vm_compute in map (fun kv => (fst kv, normv (snd kv))) inps0.',
         'Definition c0 : ctx := Ctx cat "1040" None vals inps %s (tax_fn %d cfg).' % (forms_txt, y),
         'Definition evq (n:string) : Q := match slookup ("1040." ++ n) vals with Some (PNum q) => q | _ => 0 end.',
         'Definition eiq (n:string) : Q := match slookup ("1040." ++ n) inps with Some (PNum q) => q | _ => 0 end.',
         'Ltac reads_tac := split; intros n Hn; cbn in Hn;',
         '  repeat (destruct Hn as [<-|Hn]; [eexists; split; [vm_compute; reflexivity|vm_compute; reflexivity]|]); try contradiction.',
         'Example C15_fed_balance_on_a_real_return :',
         '  (evq "34" - evq "37" == evq "33" - evq "24" /\\ ~ (0 < evq "34" /\\ 0 < evq "37") /\\ evq "35a" + evq "36" == evq "34"',
         '   /\\ 0 <= evq "34" /\\ 0 <= evq "35a" /\\ 0 <= evq "36" /\\ 0 <= evq "37").',
         'Proof.',
         '  apply (C15_fed_balance_%d c0 evq eiq 5000%%nat); try (vm_compute; reflexivity); try lia.' % y,
         '  all: unfold top_ok, f34, f35a, f36, f37; reads_tac.',
         'Qed.',
         'Goal True. idtac "@@INSTANCE". Abort.',
         'Eval vm_compute in map (fun n => match evq n with q => (Qnum q, Zpos (Qden q)) end) %s.' % gen_forms.clist([gen_forms.cstr(x) for x in lines])]
    return '\n'.join(t) + '\n'
