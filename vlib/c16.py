"""C16 — returns respond to input changes the way tax law requires.

 prove   coq/Mono.v    dir_sound / top_dir_sound: a syntactic direction analysis of the arithmetic reading of a line is sound for EVERY pair
                       of stores (monotone lines compose, rounding is monotone)
         coq/Perm.v    qsum_perm: a sum over the copies of a form does not depend on their numbering (any permutation, any count)
         Gen/C16_<y>.v C16_slope_<y>      : 1040 - if line 25a moves by d and lines 24, 25b, 25c, 26, 32 stay, (34 - 37) moves by exactly d
                       C16_chain_<y>_<k>  : monotone chains of 1040 / Schedule A lines (wages -> AGI -> taxable income; tax -> total tax;
                                            deductions -> taxable income; each Schedule A amount -> line 17), every store, exact (no tolerance)
                       C16_shift_dollars  : rounding to cents commutes with adding whole dollars (so 25a moves by exactly d)
 tie     translator validation of the regenerated catalogue
 search  metamorphic pairs on real solved returns: ALL permutations of the copies (up to 3) of every multi-copy form; increments of a wage
         box, of each Schedule A amount, of a withholding box (whole dollars); only pairs in which both returns solve are compared
"""
import configparser
import itertools
import json
import os
import random
import re

from . import common, scenarios, catalog, solverfam as sf, c15
from .common import Check

import gen_forms  # noqa

MULTI = ['w-2', '1099-int', '1099-div', '1099-r', '1099-g', '1098']
COUNT_INPUT = {'w-2': '1040.number_w-2', '1099-int': '1040.number_1099-int', '1099-div': '1040.number_1099-div',
               '1099-r': '1040.number_1099-r', '1099-g': '1040.number_1099-g', '1098': '1040.number_1098'}
SA_AMOUNTS = ['medical_dental_expenses', 'state_local_real_estate_taxes', 'state_local_personal_property_taxes',
              'charitable_cash_check', 'charitable_other_than_cash_check']


def config_dict(cfg):
    return {(sec, opt): cfg.get(sec, opt) for sec in cfg.sections() for opt in cfg.options(sec)}


def run_with(H, year, forms, inputs):
    """inputs: {(section, option): text}; no prompting (a missing input fails the run)"""
    cfg = configparser.ConfigParser(interpolation=None)
    for (sec, opt), v in inputs.items():
        if not cfg.has_section(sec):
            cfg.add_section(sec)
        cfg.set(sec, opt, v)
    store = H['inputs'].InputStore(cfg)
    s = H['solver'].Solver(store, H['forms'].available_forms[year])
    try:
        ok = s.solve(list(forms))
    except Exception as e:  # noqa
        return None, s, e
    return ok, s, None


def listing_lines(summ, year):
    """lines that show one particular copy (Schedule B payer rows ...): a literal copy number in a name they read"""
    out = set()
    for f, info in summ[year]['forms'].items():
        for l, li in info['lines'].items():
            for (k, parts, ln) in li['refs']:
                name = ''.join(b for a, b in parts if a == 'lit')
                if all(a == 'lit' for a, b in parts) and re.match(r'^[\w-]+:\d+\.', name):
                    out.add('%s.%s' % (f, l))
    return out


def solution_map(s):
    return dict(s._v.values)


def same(a, b):
    import enum as _enum
    if isinstance(a, _enum.Enum) and isinstance(b, _enum.Enum):
        return a.name == b.name and type(a).__name__ == type(b).__name__
    if isinstance(a, float) and isinstance(b, float):
        return a == b or abs(a - b) < 1e-9
    return a == b and type(a) is type(b)


def permute_inputs(inputs, form, perm):
    out = {}
    for (sec, opt), v in inputs.items():
        m = re.match(r'^%s:(\d+)$' % re.escape(form), sec)
        if m and int(m.group(1)) < len(perm):
            sec = '%s:%d' % (form, perm[int(m.group(1))])
        out[(sec, opt)] = v
    return out


def compare_permuted(base, other, form, perm, listing):
    """-> list of differences that are not allowed"""
    diffs = []
    list_a, list_b = [], []
    names = set(base) | set(other)
    for n in sorted(names):
        fm, _, ln = n.partition('.')
        cls, _, inst = fm.partition(':')
        key = '%s.%s' % (cls, ln)
        if cls == form and inst.isdigit() and int(inst) < len(perm):
            n2 = '%s:%d.%s' % (form, perm[int(inst)], ln)
            if n not in base or n2 not in other or not same(base[n], other[n2]):
                diffs.append((n, base.get(n), n2, other.get(n2)))
            continue
        if key in listing:
            list_a.append(repr(base.get(n)))
            list_b.append(repr(other.get(n)))
            continue
        if n not in base or n not in other or not same(base[n], other[n]):
            diffs.append((n, base.get(n), n, other.get(n)))
    if sorted(list_a) != sorted(list_b):
        diffs.append(('listing lines (as a multiset)', sorted(set(list_a) - set(list_b))[:4], '', sorted(set(list_b) - set(list_a))[:4]))
    return diffs


def metamorphic(ck, H, summ, rng, n):
    stats = {'base_runs': 0, 'base_solved': 0, 'perm_pairs': 0, 'perm_forms': {}, 'wage_pairs': 0, 'deduction_pairs': 0, 'withholding_pairs': 0,
             'pairs_skipped_not_both_solved': 0, 'wage_pairs_tax_rises': 0, 'deduction_pairs_tax_falls': 0}
    results = []
    slope_pairs = {}
    for k, (year, forms, sseed, prof, ov) in enumerate(c15.c15_scenarios(rng, n)):
        if not summ:
            continue
        # a year whose forms could not be translated (fail-closed translator) is still exercised on the real code; which lines are
        # per-payer listing lines is then read from the nearest translated year (the Schedule B rows have the same names in every year)
        ysum = year if year in summ else min(summ, key=lambda y_: abs(y_ - year))
        prof = dict(prof)
        # several copies of the income forms, with withholding on the 1099s too
        if k % 2 == 0:
            prof['n_w2'] = rng.choice([2, 3])
            prof['n_other'] = dict(prof.get('n_other', {}), **{'number_1099-int': rng.choice([0, 2, 3]), 'number_1099-div': rng.choice([0, 2]),
                                                                'number_1099-r': rng.choice([0, 0, 2]), 'number_1099-g': rng.choice([0, 2])})
            ov = {k_: v_ for k_, v_ in ov.items() if not k_.startswith('number_1099') and not k_.startswith('1099-')}
            prof['zero_frac'] = 0.3
        r = scenarios.run_scenario(H, year, forms, sseed, prof, overrides=ov)
        stats['base_runs'] += 1
        if r['exc'] is None:
            results.append((year, r))
        if r['exc'] is not None or not r['ok']:
            continue
        stats['base_solved'] += 1
        inputs = config_dict(r['store'].config)
        ok0, s0, e0 = run_with(H, year, forms, inputs)
        if not ok0:
            ck.notes.append('re-run of a solved scenario from its own inputs did not solve: %r' % (e0,))
            continue
        base = solution_map(s0)
        listing = listing_lines(summ, ysum)
        rep = {'kind': 'failing-input', 'year': year, 'forms': list(forms), 'inputs': {'%s.%s' % k_: v_ for k_, v_ in inputs.items()}}
        # (a) renumbering
        for form in MULTI:
            sec, opt = COUNT_INPUT[form].split('.')
            cnt = int(inputs.get((sec, opt), '0') or 0)
            if cnt < 2 or cnt > 3:
                continue
            for perm in itertools.permutations(range(cnt)):
                if list(perm) == list(range(cnt)):
                    continue
                ok1, s1, e1 = run_with(H, year, forms, permute_inputs(inputs, form, perm))
                if not ok1:
                    stats['pairs_skipped_not_both_solved'] += 1
                    if e1 is None:
                        continue
                    ck.violation('C16:%d:renumber:%s:crash' % (year, form),
                                 'ty%d: renumbering the copies of %s by %s turns a solved return into %s: %s' % (year, form, list(perm), type(e1).__name__, e1),
                                 dict(rep, transformation={'renumber': form, 'permutation': list(perm)}), found=True)
                    continue
                stats['perm_pairs'] += 1
                stats['perm_forms'][form] = stats['perm_forms'].get(form, 0) + 1
                ck.count((year, 'perm', form, cnt), nontrivial=True)
                diffs = compare_permuted(base, solution_map(s1), form, perm, listing)
                if diffs:
                    d0 = diffs[0]
                    ck.violation('C16:%d:renumber:%s:%s' % (year, form, d0[0].split(':')[0] if ':' in d0[0] and d0[0].split(':')[0] == form else d0[0]),
                                 'ty%d: renumbering the copies of %s by %s changes %s from %r to %r' % (year, form, list(perm), d0[0], d0[1], d0[3]),
                                 dict(rep, transformation={'renumber': form, 'permutation': list(perm)}, differences=[list(map(str, d)) for d in diffs[:8]]), found=True)
        # (b) increments
        t24 = base.get('1040.24')
        net0 = (base.get('1040.34') or 0.0) - (base.get('1040.37') or 0.0)
        if t24 is None:
            continue

        def bump(key, delta):
            new = dict(inputs)
            new[key] = '%.2f' % (float(inputs.get(key, '0') or 0) + delta)
            return new
        # wages
        if ('w-2:0', 'box_1') in inputs:
            for delta in [rng.choice([0.01, 1.0, 50.0]), rng.choice([500.0, 1967.0, 12000.0])]:
                ok1, s1, e1 = run_with(H, year, forms, bump(('w-2:0', 'box_1'), delta))
                if not ok1:
                    stats['pairs_skipped_not_both_solved'] += 1
                    continue
                stats['wage_pairs'] += 1
                ck.count((year, 'wage', delta), nontrivial=True)
                t1 = solution_map(s1).get('1040.24')
                stats['wage_pairs_tax_rises'] += t1 > t24
                if t1 < t24 - 1e-9:
                    ck.violation('C16:%d:wages-lower-tax' % year,
                                 'ty%d: raising W-2 box 1 by %.2f lowers total tax (1040 line 24) from %.2f to %.2f' % (year, delta, t24, t1),
                                 dict(rep, transformation={'add': {'w-2:0.box_1': delta}}, observed={'24_before': t24, '24_after': t1,
                                      '15_before': base.get('1040.15'), '15_after': solution_map(s1).get('1040.15')}), found=True)
        # deductible expenses (Schedule A amounts), only when the return itemizes or may start to
        if base.get('1040.itemizing') is not None:
            for name in SA_AMOUNTS:
                key = ('1040_sa', name)
                if key not in inputs:
                    continue
                delta = rng.choice([1.0, 250.0, 4000.0, 30000.0])
                if name == 'charitable_other_than_cash_check' and float(inputs[key]) + delta > 500:
                    delta = max(0.0, 500 - float(inputs[key]))
                    if delta == 0:
                        continue
                ok1, s1, e1 = run_with(H, year, forms, bump(key, delta))
                if not ok1:
                    stats['pairs_skipped_not_both_solved'] += 1
                    continue
                stats['deduction_pairs'] += 1
                ck.count((year, 'deduction', name), nontrivial=True)
                t1 = solution_map(s1).get('1040.24')
                stats['deduction_pairs_tax_falls'] += t1 < t24
                if t1 > t24 + 1e-9:
                    ck.violation('C16:%d:deduction-raises-tax:%s' % (year, name),
                                 'ty%d: raising Schedule A %s by %.2f raises total tax (1040 line 24) from %.2f to %.2f' % (year, name, delta, t24, t1),
                                 dict(rep, transformation={'add': {'1040_sa.%s' % name: delta}}, observed={'24_before': t24, '24_after': t1}), found=True)
        # withholding, whole dollars
        for key in [('w-2:0', 'box_2'), ('1099-int:0', 'box_4'), ('1099-div:0', 'box_4'), ('1099-r:0', 'box_4'), ('1099-g:0', 'box_4'),
                    ('w-2:1', 'box_2'), ('1099-div:1', 'box_4'), ('1099-int:1', 'box_4')]:
            if key not in inputs:
                continue
            delta = float(rng.choice([1, 1, 7, 250]))
            ok1, s1, e1 = run_with(H, year, forms, bump(key, delta))
            if not ok1:
                stats['pairs_skipped_not_both_solved'] += 1
                continue
            stats['withholding_pairs'] += 1
            ck.count((year, 'withholding', key[0].split(':')[0]), nontrivial=True)
            m1 = solution_map(s1)
            net1 = (m1.get('1040.34') or 0.0) - (m1.get('1040.37') or 0.0)
            if key[0].startswith('w-2') and len(slope_pairs.get(year, [])) < 3 and base.get('1040.25a') is not None and abs((m1.get('1040.25a') or 0) - base['1040.25a'] - delta) < 1e-9:
                slope_pairs.setdefault(year, []).append((s0, s1, delta))
            if abs((net1 - net0) - delta) > 0.005:
                ck.violation('C16:%d:withholding-slope:%s' % (year, key[0].split(':')[0]),
                             'ty%d: %.2f more withheld on %s.%s moves refund-minus-owed by %.2f' % (year, delta, key[0], key[1], net1 - net0),
                             dict(rep, transformation={'add': {'%s.%s' % key: delta}}, observed={'net_before': net0, 'net_after': net1}), found=True)
        # North Carolina withholding, whole dollars: W-2 box 17 and the state-tax boxes of the 1099s when the state is N.C., for each owner
        # the form can have (joint accounts - 'both' - included): the N.C. refund-minus-owed moves by exactly the amount
        if 'nc_d-400' in forms and base.get('nc_d-400.refund') is not None:
            joint = inputs.get(('1040', 'filing_status')) == 'MarriedFilingJointly'
            NCW = [('w-2:0', 'box_15', 'box_17', ['taxpayer'] + (['spouse'] if joint else [])),
                   ('1099-int:0', 'box_15_1', 'box_17_1', ['taxpayer', 'both'] + (['spouse'] if joint else [])),
                   ('1099-div:0', 'box_14_1', 'box_16_1', ['taxpayer', 'both'] + (['spouse'] if joint else [])),
                   ('1099-g:0', 'box_10a_1', 'box_11_1', ['taxpayer', 'both'] + (['spouse'] if joint else [])),
                   ('1099-r:0', 'box_14_1_state', 'box_14_1', ['taxpayer'] + (['spouse'] if joint else []))]
            # ... and the SECOND state line of each 1099 (the first one then names another state)
            SECOND = {'box_15_1': ('box_15_2', 'box_17_2'), 'box_14_1': ('box_14_2', 'box_16_2'), 'box_10a_1': ('box_10a_2', 'box_11_2'),
                      'box_14_1_state': ('box_14_2_state', 'box_14_2')}
            NCW += [(sec, SECOND[st][0], SECOND[st][1], owners, st) for (sec, st, am, owners) in NCW if st in SECOND]
            for row in NCW:
                sec, statekey, amtkey, owners = row[:4]
                if (sec, amtkey) not in inputs:
                    continue
                owner = owners[(k // 3 + k + len(sec)) % len(owners)]   # k % 3 is the tax year: k alone would tie each year to one owner
                v0 = dict(inputs)
                if len(row) > 4:
                    v0[(sec, row[4])] = 'VA'
                v0[(sec, statekey)] = 'NC'
                v0[(sec, 'belongs_to')] = owner
                # N.C. lines are whole dollars: the withheld amounts are summed with their cents and the sum is rounded (half-even), so
                # a whole-dollar increment may move the rounded sum by one dollar more or less; a tolerance of one dollar with
                # increments of 7 and 250 still separates "counted once" from "not counted" and "counted twice"
                delta = float(rng.choice([7, 250]))
                v0[(sec, amtkey)] = '%.2f' % float(int(float(v0.get((sec, amtkey), '0') or 0)))
                v1 = dict(v0)
                v1[(sec, amtkey)] = '%.2f' % (float(v0[(sec, amtkey)]) + delta)
                okA, sA, eA = run_with(H, year, forms, v0)
                okB, sB, eB = run_with(H, year, forms, v1)
                if not (okA and okB):
                    stats['pairs_skipped_not_both_solved'] += 1
                    continue
                stats['nc_withholding_pairs'] = stats.get('nc_withholding_pairs', 0) + 1
                ck.count((year, 'nc-withholding', sec.split(':')[0], owner), nontrivial=True)
                # overpayment (line 28) minus tax due (line 26a): the interest and penalties of lines 26b-26e, which may come or go when
                # the underpayment crosses $1,000, are not part of "refund minus owed"
                mA, mB = solution_map(sA), solution_map(sB)
                nA = (mA.get('nc_d-400.28') or 0.0) - (mA.get('nc_d-400.26a') or 0.0)
                nB = (mB.get('nc_d-400.28') or 0.0) - (mB.get('nc_d-400.26a') or 0.0)
                if abs((nB - nA) - delta) > 1.005:
                    ck.violation('C16:%d:nc-withholding-slope:%s:%s' % (year, sec.split(':')[0], owner),
                                 'ty%d: %.2f more N.C. tax withheld on %s.%s (owner %s) moves the N.C. refund-minus-owed by %r' % (
                                     year, delta, sec, amtkey, owner, nB - nA),
                                 dict(rep, transformation={'set': {'%s.%s' % (sec, statekey): 'NC', '%s.belongs_to' % sec: owner}, 'add': {'%s.%s' % (sec, amtkey): delta}},
                                      observed={'nc_refund_before': nA, 'nc_refund_after': nB}), found=True)
    ck.cov['metamorphic'] = stats
    return results, slope_pairs


def run(tier, seed):
    ck = Check('C16', tier, seed)
    rng = random.Random(seed + 16)
    ck.rule = ('obligation = a Rocq theorem or a harness verdict; evaluation = one PAIR of real solved returns (base, transformed); '
               'non-trivial = every pair in which both returns solve')
    ck.trusted = ['Coq 8.16.1 kernel; Lqa/lia', 'tools/gen_forms.py (validated on every run)',
                  'XexpProofs.xtop_sound, Rounding.v, Mono.v, Perm.v (all proved)',
                  'the chain theorems hold the lines outside the chain fixed: lines defined by helper functions (1040 lines 12, 13, 16, 19 ...) '
                  'are crossed only by the metamorphic real runs, not by theorem']
    H = scenarios.habutax_modules()
    summ = catalog.generate(ck, H)
    from . import c16coq
    c16coq.prove(ck, summ, H)
    results, slope_pairs = metamorphic(ck, H, summ, rng, 60 if tier == 'quick' else 900)
    c16coq.slope_instance(ck, H, summ, slope_pairs)
    catalog.validate(ck, H, summ, results[:10 if tier == 'quick' else 120])
    ck.sample({'theorems': ['Mono.dir_sound', 'Mono.top_dir_sound', 'Perm.qsum_perm', 'C16_slope_<y>', 'C16_chain_<y>_<k>']})
    return sf.finish_family(ck, 'C16')
