"""C20 — interrupting an interactive solve never loses input already given.

 prove   coq/Props/C20.v  (session_keeps_answers for finished AND aborted runs; rerun_does_not_reask)
 tie     solver-model correspondence (input store compared also on aborts)
 search  the real CLI entry point habutax.solve(args) with --prompt-missing --writeback-input, stdin scripted:
         Ctrl-C / EOF injected at prompt k (all k thorough, sampled k quick), plus sessions that abort on an unsupported
         form / failing line / invalid file value; afterwards the file must parse, contain the old values and every answer
         given before the interruption, and a re-run must not ask for them again.
"""
import argparse
import builtins
import configparser
import contextlib
import io
import os
import random
import re

from . import common, solverfam as sf, solvercorr as sc, scenarios
from .common import Check


class Script(object):
    """Drives builtins.input for one CLI session."""
    def __init__(self, H, year, policy, interrupt_at=None, kind='ctrlc'):
        self.H, self.year, self.policy = H, year, policy
        self.interrupt_at, self.kind = interrupt_at, kind
        self.asked = []       # (name, answer) in order, answer None if interrupted
        self.inputs = {}
        self.last_name = None
        self.retries = 0

    def input_obj(self, name):
        if name in self.inputs:
            return self.inputs[name]
        form_name = name.split('.')[0]
        base, inst = self.H['form'].name_and_instance(form_name)
        cls = {f.form_name: f for f in self.H['forms'].available_forms[self.year]}[base]
        f = cls(instance=inst)
        for i in f.inputs():
            self.inputs[i.name()] = i
        return self.inputs[name]

    def __call__(self, prompt=''):
        m = re.search(r'----\[ (\S+) \]----', prompt)
        if m:
            self.last_name = m.group(1)
            self.retries = 0
        else:
            self.retries += 1
            if self.retries > 3:
                raise KeyboardInterrupt()
        name = self.last_name
        if m and self.interrupt_at is not None and len(self.asked) >= self.interrupt_at:
            self.asked.append((name, None))
            if self.kind == 'ctrlc':
                raise KeyboardInterrupt()
            raise EOFError()
        a = self.policy.answer(self.input_obj(name), self.H)
        if m:
            self.asked.append((name, a))
        return a


def cli_session(H, year, forms, path, script):
    args = argparse.Namespace(input_file=path, year=year, forms=list(forms), prompt_missing=True,
                              writeback_input=True, solution=path + '.solution')
    old = builtins.input
    builtins.input = script
    out = io.StringIO()
    exc = None
    try:
        with contextlib.redirect_stdout(out):
            try:
                H['top'].solve(args)
            except BaseException as e:  # noqa  (KeyboardInterrupt must not escape the harness)
                exc = e
    finally:
        builtins.input = old
    return exc, out.getvalue()


def read_file(path):
    cp = configparser.ConfigParser(interpolation=None)
    with open(path) as f:
        cp.read_file(f)
    d = {}
    for sec in cp.sections():
        for opt in cp.options(sec):
            d['%s.%s' % (sec, opt)] = cp.get(sec, opt)
    return d


def norm(v):
    return (v or '').strip()


def check_session(ck, H, year, forms, seed, prof, overrides, initial, k, kind, workdir, label):
    path = os.path.join(workdir, 'in_%s.ini' % label)
    cp = configparser.ConfigParser(interpolation=None)
    for key, v in initial.items():
        sec, opt = key.split('.')
        if not cp.has_section(sec):
            cp.add_section(sec)
        cp.set(sec, opt, v)
    with open(path, 'w') as f:
        cp.write(f)
    pol = scenarios.Policy(seed, dict(prof, year=year), overrides)
    s1 = Script(H, year, pol, interrupt_at=k, kind=kind)
    exc, out = cli_session(H, year, forms, path, s1)
    probs = []
    try:
        after = read_file(path)
    except Exception as e:  # noqa
        return s1, exc, ['input file is not well-formed after the session: %r' % (e,)]
    for key, v in initial.items():
        if key.lower() not in after or norm(after[key.lower()]) != norm(v):
            probs.append('value held before was lost/changed: %s' % key)
            break
    given = [(n, a) for (n, a) in s1.asked if a is not None]
    # an answer whose storing itself failed (the exception is the interruption) is the last one
    if exc is not None and not isinstance(exc, (KeyboardInterrupt, EOFError)) and given and kind == 'none':
        pass
    for n, a in given:
        if n.lower() not in after:
            # the last answer may be the one whose storage raised
            if (n, a) == given[-1] and exc is not None and isinstance(exc, ValueError):
                continue
            probs.append('answer given before the interruption is missing from the file: %s' % n)
            break
        if norm(after[n.lower()]) != norm(a):
            probs.append('answer given before the interruption changed in the file: %s' % n)
            break
    # what habutax itself reads from the file on the next run (its own reader, not an independent parser)
    try:
        st = H['inputs'].InputStore(path)
        for key, v in list(initial.items()) + given:
            sec, opt = key.split('.')
            if st.config.has_option(sec, opt) and norm(st.config.get(sec, opt)) != norm(v):
                probs.append('the next run reads %s back as %r instead of %r' % (key, st.config.get(sec, opt), v))
                break
    except Exception as e:  # noqa
        probs.append('habutax cannot read the input file after the session: %r' % (e,))
    # re-run: must not ask again for anything already answered / present
    pol2 = scenarios.Policy(seed, dict(prof, year=year), overrides)
    s2 = Script(H, year, pol2, interrupt_at=None)
    exc2, _ = cli_session(H, year, forms, path, s2)
    already = set(n.lower() for n, a in given) | set(k_.lower() for k_ in initial)
    again = [n for n, a in s2.asked if n.lower() in already]
    if again:
        probs.append('re-run asked again for inputs already in the file: %s' % again[:3])
    return s1, exc, probs


def run(tier, seed):
    ck = Check('C20', tier, seed)
    rng = random.Random(seed + 20)
    ck.rule = ('session = (year, forms, answer policy seed, initial file, interruption kind, prompt index k) on the real CLI solve() '
               'with scripted stdin; kinds: Ctrl-C at prompt k, EOF at prompt k, abort on unsupported form / failing line / invalid '
               'file value; k exhaustive in thorough, sampled in quick; non-trivial = session with >= 1 answer before the '
               'interruption; distinct by (year, seed, kind, k)')
    ck.trusted = list(sf.BASE_TRUST) + [
        'configparser read/write and open(..., "w") are not modelled: a kill during the write, or a second Ctrl-C inside the '
        '`finally`, is runtime behaviour the model cannot exhibit (partial)']
    sf.compile_props(ck, 'C20')
    n_nat, n_perm = (800, 200) if tier == 'quick' else (8000, 2000)
    cases, dis_cases = sf.correspondence(ck, rng, n_nat, n_perm)
    H = scenarios.habutax_modules()
    workdir = os.path.join(ck.build, 'sessions')
    os.makedirs(workdir, exist_ok=True)
    n_sc = 3 if tier == 'quick' else 12
    kinds_seen = {}
    stream = scenarios.scenario_stream(rng, n_sc)
    extra = [  # sessions that abort for other reasons
        ('failing-line', {'itemize': 'yes', 'number_1098': '0', 'number_w-2': '0'}),
        ('invalid-file-value', None),
    ]
    for idx, (year, forms, sseed, prof) in enumerate(stream):
        initial = {'1040.first_name': 'Pat', '1040.last_name': 'Lee  ', '1040.home_address': '742 Evergreen Terrace #3 ; rear'}
        # full session first: how many prompts are there?
        s_full, exc_full, probs = check_session(ck, H, year, forms, sseed, prof, None, initial, None, 'none', workdir,
                                                'full%d' % idx)
        n = len(s_full.asked)
        kind0 = 'finished' if exc_full is None else type(exc_full).__name__
        kinds_seen[kind0] = kinds_seen.get(kind0, 0) + 1
        ck.count((year, sseed, 'full'), nontrivial=n > 0)
        for p in probs:
            ck.violation('C20:%s:%s' % (kind0, '-'.join(p.split()[:4])), p,
                         {'kind': 'failing-input', 'year': year, 'forms': forms, 'seed': sseed, 'profile': prof,
                          'interruption': kind0, 'initial': initial, 'answers': s_full.asked[:50]}, found=True)
        if tier == 'thorough':
            ks = list(range(0, n + 1))
        else:
            ks = sorted(set(list(range(0, min(n, 6))) + list(range(6, n, max(1, n // 12))) + [max(0, n - 1)]))
        for kind in ('ctrlc', 'eof'):
            for k in ks:
                s1, exc, probs = check_session(ck, H, year, forms, sseed, prof, None, initial, k, kind, workdir,
                                               '%s%d_%d' % (kind, idx, k))
                kinds_seen[kind] = kinds_seen.get(kind, 0) + 1
                ck.count((year, sseed, kind, k), nontrivial=k > 0)
                for p in probs:
                    ck.violation('C20:%s:%s' % (kind, '-'.join(p.split()[:4])), p,
                                 {'kind': 'failing-input', 'year': year, 'forms': forms, 'seed': sseed, 'profile': prof,
                                  'interruption': kind, 'prompt_index': k, 'initial': initial,
                                  'answers_before': [a for a in s1.asked if a[1] is not None][-5:]}, found=True)
        # aborting sessions
        for name, ov in extra:
            init2 = dict(initial)
            if name == 'invalid-file-value':
                init2['1040.number_w-2'] = 'two'
            s1, exc, probs = check_session(ck, H, year, forms, sseed, prof, ov, init2, None, 'none', workdir,
                                           '%s%d' % (name, idx))
            kn = 'abort:%s' % (type(exc).__name__ if exc is not None else 'none')
            kinds_seen[kn] = kinds_seen.get(kn, 0) + 1
            ck.count((year, sseed, name), nontrivial=len(s1.asked) > 0)
            for p in probs:
                ck.violation('C20:%s:%s' % (name, '-'.join(p.split()[:4])), p,
                             {'kind': 'failing-input', 'year': year, 'forms': forms, 'seed': sseed, 'profile': prof,
                              'interruption': name, 'initial': init2, 'exception': repr(exc)}, found=True)
        if idx == 0:
            ck.sample({'year': year, 'forms': forms, 'prompts_in_full_session': n, 'first_answers': s_full.asked[:4],
                       'finished_as': kind0})
    ck.cov['session_kinds'] = kinds_seen
    return sf.finish_family(ck, 'C20')
