#!/usr/bin/env python3
"""Regenerates /verif/MANIFEST.json from the table below (single place to keep it current)."""
import json, os
ROOT = os.path.dirname(os.path.dirname(os.path.abspath(__file__)))
PROPS = ['C%02d' % i for i in range(1, 21)]
BASELINE = "cd /repo && /venv/bin/python -m pytest -ra -q -p no:cacheprovider --timeout=900 --continue-on-collection-errors"

CLAIMED = {
 'C16': dict(
    category='proof',
    text="Rocq theorems. (a) Renumbering: Perm.line_renumber / C16_renumber_<y> - for every money line whose body is the aggregation "
         "shape sum([v[f'<form>:{n}.<box>'] for n in range(i[<count>])]) (plain, guarded by count > 0, or under float()), for ANY count "
         "and ANY permutation of the copy numbers, the catalogue interpreter stores the identical value in the two stores (induction over "
         "the copies inside the interpreter: s1_eval; qsum_perm). Covers 1040 lines 25a, 2a and 8959/8995 totals; the other ~24 "
         "aggregating lines per year (helper functions, conditional sums) are listed in the evidence and left to the search. "
         "(b) Unit slope: C16_slope_<y> - in the catalogue model, two stores that agree on 1040 lines 24, 25b, 25c, 26, 32 and differ by d "
         "on 25a differ by exactly d on (34 - 37); C16_shift_dollars: rounding to cents commutes with adding whole dollars. "
         "(c) Monotone: Mono.dir_sound / top_dir_sound - a direction analysis of the arithmetic reading of a line is sound for every "
         "pair of stores (rounding is monotone; `0 if a > b else b - a` is recognised as a floor); C16_chain_<y>_<k>: nine chains per year "
         "(wages -> total income -> AGI -> taxable income up; tax -> total tax up; deduction -> taxable income down; credit -> total "
         "tax down; withholding -> payments up; medical / real-estate / cash gifts -> Schedule A up; AGI -> medical deduction down), "
         "exact, no tolerance; C16_tax_monotone_<y>: the regenerated figure_tax is monotone for every status and income. "
         "Non-vacuity: C16_slope_<y> is instantiated, inside Coq, on a real pair of solved returns (base, d dollars more withheld). "
         "Search: metamorphic pairs of REAL solved returns - all permutations of up to 3 copies of each of six forms, increments of a wage "
         "box, of each Schedule A amount, of each withholding box - thousands of pairs per thorough run.",
    design_ref='DESIGN.md §4 C16',
    note="The end-to-end statements (more wages never lower TOTAL tax, a larger expense never raises it) are proved only along chains that "
         "hold the other lines fixed; lines defined by helper functions (1040 lines 12, 13, 16, 19, Schedule A 5a/5e ...) are crossed only "
         "by the real-run pairs. The proved list is frozen in oracles/c16_theorems.json. Print Assumptions: closed under the global context.",
    technique='Rocq proofs (induction over the interpreter for the aggregation shape, sound direction analysis, rounding lemmas, lra) + metamorphic real-run pairs',
 ),
 'C15': dict(
    category='proof',
    text="Rocq theorems generated per year over the regenerated catalogue model: C15_fed_balance_<y> - for EVERY store on which Form 1040 lines "
         "24, 33, 34, 35a, 36, 37 hold what their definitions yield (Forms.line_value, the validated model of FloatField.value; any "
         "amount applied to next year's tax, any cent values): 34 - 37 = 33 - 24, not (34 > 0 and 37 > 0), 35a + 36 = 34, and the four "
         "are >= 0; C15_nc_balance_<y> - the D-400 likewise in its overpayment and tax-due branches (28 = 25 - 19, 34 + 33 = 28, "
         "26a = 19 - 25 > 0, the refund pseudo-line agrees); C15_nn_<y>_<i> - about 430 money lines per year: if the lines and inputs "
         "a line reads are >= 0 (except the lines listed with reasons in oracles/may_be_negative.json) its stored value is >= 0. "
         "C15_signs_<y> assembles these lemmas along the dependency order into ONE theorem per year: if the ~110 boundary lines (helper-function "
         "lines and per-copy boxes read by the set) and the money inputs are >= 0 and every line of the set holds what its definition yields, "
         "then all ~430 lines of the set are >= 0. "
         "The proofs go through XexpProofs.xtop_sound (arithmetic reading of a line body = what the interpreter stores, proved for every "
         "store) and Rounding.v (round-half-even is monotone, the identity on its grid, commutes with max/min). The list of sign lemmas "
         "proved on the baseline is frozen (oracles/c15_nonneg.json): one that stops checking is reported. Search: seeded real returns "
         "with non-negative amounts (deductions above income, itemizers, owing, refunds applied forward, dividends-only, NC) - balance and "
         "the sign of EVERY money line not in may_be_negative.json.",
    design_ref='DESIGN.md §4 C15',
    note="Lines defined by helper functions (about 100 per year) are boundary hypotheses of C15_signs_<y>, and signs that depend on relations "
         "between lines (e.g. 35a = 34 - 36) are in the balance theorems only; both are covered by the real-return monitor. Statement over exact decimals (binary64 outside); the monitor uses a half-cent tolerance. "
         "Print Assumptions: closed under the global context.",
    technique='Rocq theorems (lra/lia over Q, proved rounding lemmas, proved tie xtop_sound to the catalogue interpreter) generated over regenerated line bodies + real-return monitor',
 ),
 'C02': dict(
    category='proof',
    text="Per year and per line whose IRS template widget carries an arithmetic instruction (accessibility text: Add lines ..., Subtract line "
         "a from line b [If zero or less, enter 0], Multiply line a by r, Enter the smaller/larger of ..., carry), a generated Rocq lemma "
         "C02_<year>_<i>: for EVERY value store (a function from line names to rationals, lines the form never fills read 0), the arithmetic "
         "expression compiled from the translated line body equals the instruction's term (lra over Q after case analysis of max/min/if). "
         "The same lemmas are also stated on the STORED value through Xexp.tsem (C02x_<year>_<i>: whatever the interpreter stores for the "
         "line equals the rounding of the instruction's term) - all 73 lines per year that carry a lemma (sums over constant lists included), tied to the interpreter by the proved "
         "XexpProofs.xtop_sound, including the conditional-blank lines (`a - b if a > b else None`). "
         "ArithProofs.compile_sound proves, for the core fragment (+, -, literal*, max, min, float(), reads), that Forms.line_value - the "
         "validated model of FloatField.value - is exactly the rounding of that expression. About 75 lines per year; the list of lines proved on the "
         "baseline is frozen (oracles/c02_obligations.json) so that a line silently leaving the fragment or losing its widget is reported. "
         "A failing lemma triggers a search over stores with the REAL Field.value against an independent evaluation of the instruction. "
         "Carry sentences of the templates ('enter here and on Form 1040, line 8', 'also include this amount on ... line 4b'; 11 per year) are "
         "obligations too: the destination line statically reads the source line, through intermediate lines and for every copy of a "
         "per-person form (reflective reachability over the regenerated reference graph). The N.C. templates have no accessibility text: their "
         "printed captions are decoded from the page content streams (tools/pdf_text.py, tools/nc_text.py) and give about 17 more line lemmas per year "
         "(Add Lines 6 and 7; Multiply Line 14 by 4.75% (0.0475), if zero or less enter a zero; ...) and the carries between Schedule S / A and D-400 "
         "('(From Form D-400 Schedule S, Part A, Line 16)': both ends equal on real returns; a source line the solve never evaluated is "
         "evaluated by its shipped definition on the return's own values and answers).",
    design_ref='DESIGN.md §4 C02',
    note="Coverage is limited by what the templates say: only sentences the strict phrase grammar "
         "consumes completely yield an obligation (counted in evidence: ~107 widgets with arithmetic words, ~80 parsed per year), and conditional "
         "instructions depending on form structure are outside. The older Arith.compile path (core fragment proved, extended fragment "
         "validated) is kept beside it as a second derivation of the same lemmas. Statement is over exact decimals "
         "before rounding; binary64 is outside. Trusted: tools/pdf_reader.py, tools/pdf_text.py, tools/nc_text.py, tools/instr.py, tools/gen_forms.py, one override "
         "(oracles/instr_overrides.json). Print Assumptions: closed under the global context.",
    technique='Rocq per-line lemmas (lra over Q) over arithmetic terms compiled from regenerated line bodies, compile_sound proof to the Forms interpreter, instruction oracle parsed from the bundled PDFs',
 ),
 'C18': dict(
    category='proof',
    text="Per form with a template and per year, Rocq theorem C18_<form>_<year>: form_mappings_ok template aliases mappings = true "
         "(vm_compute over data regenerated on this run: the form's pdf_fields by introspection, the template's field table by "
         "tools/pdf_reader.py from the bundled PDF - XFA packet for the 30 IRS templates, AcroForm dictionaries for the 9 NC ones), with "
         "Prop reading form_mappings_ok_spec: every mapping targets an existing widget of the same kind; where the widget's "
         "accessibility text (IRS) or name (NC: ..._li12b_...) carries a line label the mapped line is that line, or the pair is listed "
         "with its reason in oracles/label_alias.json; a button's export value is one the widget offers; a length limit is not larger "
         "than the template's; the mapped line is declared; no widget is driven twice; the mapping list is not empty. Exhaustive over "
         "all 1729 mappings. Exclusive groups: the real value_fn of every button mapping is evaluated for EVERY value of its driving "
         "line (booleans, all enumeration members, None) - at most one box per group on.",
    design_ref='DESIGN.md §4 C18',
    note="Thin use of Coq (checked statement over extracted data). Trusted: the PDF reader written for this project (no PDF library offline), "
         "the label grammar, the alias list (4 pairs per year, reasons recorded). value_fn are Python lambdas evaluated, not modelled.",
    technique='Rocq reflective finite check over regenerated mappings and parsed templates + exhaustive evaluation of value functions',
 ),
 'C14': dict(
    category='proof',
    text="Rocq theorems per line type: C14_bool_rt, C14_int_rt and C14_year_rt (through the standard library's decimal strings, all "
         "integers), C14_enum_rt (any member name that is listed and non-empty, and the empty choice) with the premises checked in the "
         "kernel for every member of every enumeration of the code base (C14_enum_members_ok, C14_every_member_reads_back), C14_money_rt "
         "(a value with p decimal places, as a scaled integer, through sign / integer part / p fraction digits - all p, all magnitudes). "
         "The float text is a theorem too (coq/FloatText.v, C14_float_text_roundtrip): with binary64 round-to-nearest-even modelled over exact "
         "rationals (dbl: 53 significant bits, subnormal floor), a stored money value v - the double nearest to a p-place decimal k/10^p, which "
         "is what round(x, p) returns - is written by f'{v:.{p}f}' with exactly the digits k, and float(text) followed by round(_, p) gives back "
         "the same double, whenever doubles near it are closer together than 10^-p; the guard is proved for every amount below 2^46 dollars at two "
         "places, 2^36 at five, 2^52 at none (C14_float_text_guard_*). The model is executed in the kernel and compared with CPython's "
         "float()/format() and the real FloatField on seeded and boundary cases on every run (inside and beyond the guard). In addition every "
         "generated extreme (all places settings, -0.0, 5e-324, 1e22, ties) and every value of every explored real solution goes through the REAL "
         "chain to_string -> ConfigParser.write -> file -> read -> PDFFiller._read_form_fields and is compared bit for bit (enumerations by member, "
         "text up to surrounding white space per line, tax year).",
    design_ref='DESIGN.md §4 C14',
    note="The float theorem is about correctly rounded conversions (what CPython's dtoa/strtod guarantee), tied by execution, not about the C code; beyond the guard (7e13 dollars and more) the digits do change and only the exploration speaks. configparser is trusted; one open finding: "
         "a continuation line starting with '#'/';' is dropped. Print Assumptions: closed under the global context.",
    technique='Rocq round-trip proofs per type + real writer/reader chain on generated extremes and real solutions',
 ),
 'C19': dict(
    category='proof',
    text="Rocq theorems: C19_fdf_roundtrip / C19_fdf_entry_roundtrip - for EVERY list of (field name, value) byte strings (any mix of "
         "parentheses, backslashes, quotes, CR/LF, any length) the text written by the model of _create_fdf is read back by a reader of "
         "the PDF literal-string syntax (ISO 32000-1 7.3.4.2: nesting, all escapes, octal, line continuation, EOL normalisation) as exactly "
         "the mapped text; C19_fill_selection - the forms filled are a duplicate-free permutation of the forms that need filing, sorted by "
         "(jurisdiction, sequence number) (stable insertion sort, proved sorted); too-long and bad-choice values raise, fitting values are "
         "never altered. Tie: the model writer is compared byte for byte with the real _create_fdf on adversarial data. Search: real "
         "solutions with adversarial text in the string inputs are filled with a stand-in pdftk; every captured FDF is decoded by an "
         "independent reader and compared with the mapped text; forms filled/order/cat command checked.",
    design_ref='DESIGN.md §4 C19',
    note="pdftk is replaced by a capturing stand-in; encoding of non-ASCII text is outside the property. needs_filing() bodies are Python, "
         "exercised not modelled. Print Assumptions: closed under the global context.",
    technique='Rocq proofs (induction on strings/lists) over a byte-level model of the FDF writer and the PDF string reader + byte-exact correspondence',
 ),
 'C12': dict(
    category='proof',
    text="Rocq theorems over Forms.typed_value / line_value (the model of TypedField.value and FloatField.value): C12_typed_value_typed "
         "(any stored value has exactly the declared type - bool is not int, int is not float - and a money value is a rounding to the "
         "declared places), C12_none_or_blank_is_empty, C12_wrong_type_is_rejected (TypeError, never stored or coerced), "
         "C12_line_value_typed (in the catalogue model a line's value exists only through typed_value). For every pv a body may return. "
         "Tie: the real field classes on generated return values (bools, ints, floats incl. ties and -0.0, blank strings, None, members "
         "of the wrong enumeration, subclasses of int/float/str, containers) against the model; InputForm mirroring checked for every "
         "input of every input-only form of every year; every stored value of real-form scenarios checked for type and rounding.",
    design_ref='DESIGN.md §4 C12',
    note="round(): the model is half-even on the exact decimal; CPython rounds the binary value - exact decimal ties are counted and accepted "
         "within one unit (stated). Print Assumptions: closed under the global context.",
    technique='Rocq proofs over the field-typing model + differential correspondence with the real field classes',
 ),
 'C11': dict(
    category='proof',
    text="Rocq theorems over coq/Inputs.v (a model of all seven input classes and of InputStore.__getitem__, including Python's int() and "
         "float() literal grammars) for EVERY ASCII string: C11_getitem_gate (a value reaches a line only from supplied text that passed "
         "the class's own validation), C11_store_value_typed, C11_float_input_is_finite, C11_invalid_is_reported, "
         "C11_getitem_never_raises (validation and conversion agree), C11_supplied_not_missing, C11_absent_not_defaulted. "
         "Tie: adversarial strings (white space incl. FS..US, case, signs, underscores, exponents, nan/inf, overflow boundary "
         "1.7976931348623159e308, near-miss enumeration names) through the real classes, the real InputStore (prompt path and file path) "
         "and the model - valid(), value() and __getitem__ compared case by case, floats as nearest double of the model's exact value.",
    design_ref='DESIGN.md §4 C11',
    note="Bytes >= 128 are opaque in the model: non-ASCII strings (unicode digits, NBSP) are run through the property monitor only (partial). "
         "re.match is a parameter of the model. configparser parsing is exercised, not modelled. Print Assumptions: closed.",
    technique='Rocq proofs over a string-level model of inputs.py + differential correspondence on adversarial strings',
 ),
 'C09': dict(
    category='proof',
    text="Rocq theorems: the solver half is C01 (a demanded line that signals not-implemented, or is blocked, prevents success - every "
         "catalogue, input and schedule). The form half: Gates.gate_sound - a line whose body consults a gate input FIRST and answers "
         "not_implemented() when it is affirmative (three syntactic shapes) evaluates to 'not implemented' on EVERY store in which the gate is "
         "true; per year C09_every_reader_refuses_<y>: for 27 of the 40 frozen gates (22 of 34 in 2021) EVERY line of the regenerated "
         "catalogue that reads the gate has such a shape (reflective check over the regenerated bodies), so whichever line consults the gate, "
         "on whatever store, the solve cannot succeed. StoreMono.line_value_mono - store monotonicity of the WHOLE line interpreter (a value or a refusal "
         "survives every enlargement of the value store, the input store and the set of participating forms; mutual induction over eval/exec) - gives "
         "C09_refusal_on_every_store_<y>: for 64 of the 86 (reader, gate) pairs of singleton forms (50 of 68 in 2021) the refusal computed in the kernel on the "
         "store holding only the affirmative gate holds on EVERY store, whatever the shape of the reader (helper functions, statements before the gate); this "
         "adds 1040.pensions_annuities_adjustments and proves the 'consulted first' class that was argued before. The list of gates covered on the baseline is frozen (oracles/c09_static_gates.json): one "
         "that drops out is reported, with a real return that answers yes and still solves when one is found. The remaining 13 gates "
         "(read after other reads, inside helper functions, or conditional by design - marked in the oracle) and the numeric limits (foreign tax "
         "over the Form 1116 threshold, more payers than Schedule B rows, HSA contributions over the limit with and without employer money) are "
         "decided by exploration: each gate is flipped to yes in seeded real-form scenarios that consult it - conditional gates in the scenario "
         "recorded with them in the oracle - and the real solver must not report success. A gate of the oracle that no line reads is a violation.",
    design_ref='DESIGN.md §4 C09, §13',
    note="Partial: 10-12 of the 36-42 gates per year and the numeric limits rest on exploration only. The gate oracle (oracles/gates_<year>.json) was proposed from the "
         "tree as first built, reviewed against the input descriptions, frozen; three entries are marked conditional and one wrong entry was removed "
         "(DESIGN.md §13.6). Print Assumptions: closed under the global context.",
    technique='Rocq: C01 + gate_sound (every store) + reflective shape check of every reading line + store monotonicity of the interpreter (line_value_mono) lifting kernel-evaluated refusals to every store; flipped-gate exploration on the real solver for the rest',
 ),
 'C08': dict(
    category='proof',
    text="Per year, Rocq theorem C08_statutory_amounts_<year>: probes_ok cat tax probes = true - for every (tax year, filing status, item) of "
         "the independent oracle table (oracles/statutory.json: 44 items x statuses x years, each with its citation), the "
         "shipped line that shows the amount, evaluated by the interpreter of the regenerated deep embedding on a minimal store, yields the "
         "published amount (or switches outcome exactly at it). Exhaustive over the finite triple set, decided by vm_compute in the kernel; "
         "the amounts PRINTED in the bundled templates (page text and accessibility text: standard deductions, CTC phase-out starts, SALT cap, "
         "Medicare thresholds, HSA limits, QBI limits, Schedule B thresholds, credit amounts, N.C. rate and standard deductions; about 60 per year) "
         "are compared with the same table, so that code, table and template agree pairwise; "
         "works uniformly for 2023 threshold tables and the 2021/2022 inline if/elif chains because both live in the translated lines. "
         "Every probe is also replayed on the real line (Field.value). Tie: translator validation on real returns.",
    design_ref='DESIGN.md §4 C08',
    note="Coverage = the oracle's item list (standard deduction, capital-gain breakpoints, AMT exemption/phase-out/28% breakpoint, Additional "
         "Medicare threshold and rate, SALT cap, CTC/ODC/ACTC amounts, NC rate and standard deduction, 2021 recovery-rebate amounts, EIC AGI and investment-income limits, QBI simplified-form income limit, HSA limits, retirement-savings and "
         "foreign-tax limits, Schedule B thresholds, medical floor, educator-expense maximum, NC child-deduction brackets and NC $20,000 cap); "
         "EIC credit amounts and the NC real-estate-tax limit are not in the oracle. The oracle is a hand "
         "transcription (trusted). Each probe holds for every store that agrees with the minimal one on the names the line reads "
         "(monotonicity of the interpreter is argued, not proved).",
    technique='Rocq reflective evaluation (vm_compute) of regenerated line definitions against an independent cited table',
 ),
 'C17': dict(
    category='proof',
    text="Per year, Rocq theorems C17_catalogue_ok_<year> and C17_status_lookups_total_<year> (vm_compute over data regenerated by "
         "introspection of every (year, class, allowed instance) and over the regenerated threshold tables), with Prop readings "
         "catalogue_ok_spec and status_total_spec: every class instantiates, declares the directory's year, has metadata, unique form "
         "name, duplicate-free lower-case dot-free input and line names; every status-keyed table yields exactly one value per status "
         "through the modelled lookup of form.py:135-149. The real list-forms / list-form-inputs commands are run for every form and the "
         "printed template, uncommented, must parse back to exactly the declared inputs.",
    design_ref='DESIGN.md §4 C17',
    note="Finite and exhaustive; Coq's contribution is the checked statement over extracted data. Trusted: introspection, configparser.",
    technique='Rocq reflective finite check + Prop-reading lemmas; real CLI listing commands',
 ),
 'C10': dict(
    category='proof',
    text="Per year, Rocq theorem C10_names_ok_<year>: names_ok cat decls absent known = true, where cat is the deep embedding of EVERY line "
         "body regenerated from the form sources on this run (fail-closed ast translator), decls the declared names obtained by "
         "introspection, and names_ok the reference analysis of coq/FormsRefs.v computed inside the kernel: every v[...]/i[...]/"
         "threshold()/form()/attribute reference on every syntactic path (both arms of every conditional, loop bodies with loop variables "
         "over constants expanded and open indices accepted only in the instance position of a name) resolves, or names a form listed "
         "as deliberately absent. 'known' = the open findings of known_findings.jsonl (currently 17 lines that can reach the solver's "
         "internal assertion / an undeclared input); anything else fails the theorem. Tie: the same ASTs re-evaluate real solutions line by "
         "line (translator validation, exact agreement). Dynamic witness search: internal exceptions leaving solve() on real-form scenarios. "
         "Soundness of the collection against the interpreter, for EVERY line: RefsSound.waits_are_collected (mutual induction over eval/exec, any store, "
         "any fuel) - whatever name a line can wait for (a line, RNeedV; an input, RNeedI) is qualify(s) for a string s that matches the pieces of a "
         "reference the analysis collected from a read node of that line (literal parts as written; alternative sets read as wildcards); per year "
         "C10_waits_collected_<year> instantiates it for every line of the regenerated catalogue (the analysis never exhausts its own fuel: checked in the kernel); second clause: a line that ends in an attribute error has a KAttrErr reference among those collected, which names_ok never accepts outside the known findings; third clause: the assertion of Form.threshold (RCrash CThreshold) comes only from a collected KThreshold reference.",
    design_ref='DESIGN.md §4 C10',
    note="Finite, exhaustive, decided by computation in the kernel. Soundness of the analysis w.r.t. the interpreter is proved for the names a line can wait for "
         "(weak matching: that a loop variable's value lies among the collected alternatives, and the threshold / form() / attribute references, are still "
         "argued by construction). Trusted: translator (validated), oracles/absent_forms.json.",
    technique='Rocq reflective check (vm_compute) over a regenerated deep embedding + soundness theorem of the reference collection w.r.t. the interpreter (mutual induction) + translator validation',
 ),
 'C05': dict(
    category='proof',
    text="Rocq theorem C05_schedule_independent: two finished runs of the solver model on the same catalogue that differ in attempt order "
         "(arbitrary rank functions), in order/multiplicity of requested forms and fields, and in how inputs arrived (file vs prompt), "
         "but end with equal input stores, schedule the same lines, hold the same value for every line and report the same verdict. "
         "Proved via a declarative spec: stored values are well-founded derivations (invariant), every scheduled derivable line has its "
         "value when the loop exits (terminal_complete), derivations are functional, and the scheduled set equals a schedule-free demand "
         "closure DemS. Corollary C05_prompt_equals_file. Tie: model vs real solver traces under natural and random ranks; monitor "
         "permutes attempt order (sort_keys substituted), request order, input-file order and the file/prompt split on generated and "
         "real forms, comparing verdict, values, forms and all three diagnostics as sets. Layer B: C05_line_outcome_ignores_store_layout (StoreMono.line_value_ext, mutual induction over the whole line interpreter) - the outcome of a line, including the name it waits for, depends only on the bindings of the stores, not on their order, shadowed duplicates or the order of the participating forms.",
    design_ref='DESIGN.md §3.2-3.4, §4 C05',
    note="Equality of the three diagnostic sets and of the forms set is decided by the monitor (theorem covers scheduled set, values, verdict); "
         "runs that abort are outside the theorem (which abort is reported first is order dependent); configparser parsing not modelled. "
         "Print Assumptions: closed under the global context.",
    technique='Rocq: soundness+completeness against a declarative well-founded spec (Derives/DemS), functional derivations; differential correspondence; metamorphic monitor',
 ),
 'C06': dict(
    category='proof',
    text="Rocq theorems about the DependencyTracker model for EVERY history of add_unmet/meet/generator steps (C06_tracker_history_wf), "
         "exact multiset accounting of registrations (add = +1, each yield consumes exactly one registration under the head met dependency, "
         "a complete drain releases exactly the registrations under met dependencies and leaves none: C06_drain_complete), and for every run "
         "of the solver model each input is asked at most once and nothing is asked after a refusal (C06_prompts_bounded). "
         "Bounded work, the part that is a theorem (SolverWaits.v): for every catalogue with distinct line names, every input, rank "
         "function, answer oracle and fuel - whether the run finishes, fails, aborts or is cut short - no line ever waits twice for the same "
         "line (C06_no_repeated_wait: the list of all (waiter, line) registrations ever made has no duplicates) and each line is in at most "
         "one place, queued or registered under one dependency of one tracker (C06_one_place_per_line), so a line is attempted only "
         "when registered nowhere and each attempt registers it at most once; proved by a token invariant carried through the whole "
         "control flow next to the two earlier invariants. The count of evaluations is a theorem too (SolverCount.v, C06_bounded_attempts): in "
         "every such run, for every line f, #attempts(f) <= 1 + #distinct lines f was registered to wait for + #answered prompts that named f "
         "as waiting + #input names whose specification was loaded (a retry inside one attempt follows the loading of a new form's input "
         "specifications) - a counting invariant (attempts + live tokens <= credits) carried through the same control-flow induction. "
         "TERMINATION is a theorem as well (SolverTerm.v): for a catalogue whose lines, inputs and forms lie in finite lists UL, UI, UF, every "
         "state any run passes through has logged at most BOUND = |UL|(1+|UI|) + |UL|^2 + |UL||UI| + |UI| events (C06_total_work_bounded: the "
         "per-line bound summed over the lines being solved, with |edges| <= |UL|^2 by the no-repeated-wait theorem, at most |UI| prompts each "
         "naming at most |UL| lines); every pop of the queue logs an event and every pass of the main loop logs an event or is the single pass "
         "that only clears the met list; a retry inside an attempt loads the input specifications of a not-yet-loaded form; hence with fuel > "
         "2*BOUND+1 and fewer forms than the retry limit the model never stops for lack of fuel (C06_terminates) - cyclic and self-referential "
         "definitions, unknown names and a user who stops answering included. "
         "Tie: tracker histories (random + all short ones) and solver traces (attempt events included) executed on model and real code; the "
         "monitor on the real solver keeps a step budget and re-checks the numeric bound on real forms, and a real-form monitor checks that "
         "no line is left waiting on a dependency that holds a value.",
    design_ref='DESIGN.md §4 C06',
    note="Trusted as for C01. The termination theorem is about the model (a fuelled transcription of the while loops; fuel is not a bound in the "
         "real code): it transfers to solver.py through the trace correspondence, which is sampled. Wall-clock and recursion depth are runtime. "
         "The theorems of SolverWaits.v / SolverCount.v / SolverTerm.v assume NoDup of the requested forms and no individually requested lines; "
         "the retry limit of the model (64 nested specification loads inside ONE attempt; every numbered copy of a form counts as a form) exceeds the number of forms of every shipped year (23-24) with room for some forty copies - the real code has no such limit, only Python's recursion depth.",
    technique='Rocq refinement proof of the tracker (Permutation accounting) + invariant on the prompt transcript; correspondence; budgeted monitor',
 ),
 'C13': dict(
    category='proof',
    text="Rocq theorems C13_prompts_demand_exact (every prompt in every finished or aborted run: the input is absent from the supplied "
         "inputs, at least one line is quoted, every quoted line consults that input on the final stores; no input asked twice; nothing "
         "after a refusal) and C13_rerun_does_not_reask (a re-run on the written-back store never asks again for an answer it holds). "
         "Tie: solver traces incl. the needed_by lists compared model vs code; monitor re-evaluates quoted lines at prompt time and "
         "replays solve -> write back -> solve (no prompt, identical result, unread inputs droppable) on generated and real forms.",
    design_ref='DESIGN.md §4 C13',
    note="Trusted as for C01; C13_rerun_quiet is stated for a re-run whose user would refuse every question (so 'asks nothing' is forced); Print Assumptions: closed.",
    technique='Rocq inductive invariant over the prompt transcript + differential correspondence + write-back replays',
 ),
 'C20': dict(
    category='proof',
    text="Rocq theorems C20_session_keeps_answers (whatever way solve ends - finished, refused prompt, or an exception leaving solve() - "
         "the input store afterwards contains every value it held before and every answer given, and nothing else) and "
         "C20_rerun_does_not_reask. Proved for finished AND aborted runs via an induction that also covers the error exits. "
         "The CLI glue (try/finally write-back, Ctrl-C -> refused) is exercised on the real entry point with scripted stdin: Ctrl-C / EOF "
         "at prompt k (all k thorough), aborting sessions; file must parse, keep old values and answers, and the re-run must not re-ask.",
    design_ref='DESIGN.md §4 C20',
    note="Partial by nature: open(...,'w') truncation during a kill, or a second Ctrl-C inside the finally, are runtime behaviours outside any Gallina model; configparser formatting trusted.",
    technique='Rocq invariant incl. error exits + real-CLI interruption replays',
 ),
 'C04': dict(
    category='proof',
    text="Rocq theorems C04_solution_is_demand_closure / C04_partial_solution_within_closure: for every catalogue (with form-qualified "
         "names), request, rank and answer function, a run that reports success holds a value for exactly the lines of the inductively "
         "defined demand closure Dem (required lines of requested forms, requested fields, lines read on the final stores by a member, "
         "required lines of the forms of such reads), and its forms are exactly the requested forms plus the forms of such reads; a partial "
         "solution never holds a line outside Dem. Second inductive invariant (well-founded scheduling reasons via ghost edges) over the real "
         "control flow. Tie: model vs real solver traces; monitor recomputes the closure independently on real runs.",
    design_ref='DESIGN.md §3, §4 C04',
    note="Trusted as for C01 plus cat_wf (a form's lines are named form.line). Print Assumptions: closed under the global context.",
    technique='Rocq inductive invariant with ghost scheduling reasons + differential correspondence',
 ),
 'C01': dict(
    category='proof',
    text="Rocq theorems C01_no_silent_success / C01_failure_is_explained about the executable model of solver.py (coq/Solver.v), for every "
         "catalogue of reader-tree line definitions, every request, input store, answer function and EVERY rank function (attempt order): "
         "solved=true implies nothing unimplemented, no waiter, nothing queued and every scheduled line has a value its definition reproduces; "
         "otherwise every scheduled line without a value is named by a genuine diagnostic. Proved by an inductive invariant over the real "
         "control flow (no bound). The model is tied to the code by executing both on generated catalogues (full traces compared); the "
         "property's monitor also runs on the real solver over generated catalogues and real-form scenarios.",
    design_ref='DESIGN.md §3, §4 C01',
    note="Trusted: Coq kernel; hand-written model tied by differential execution (not by proof); line definitions as deterministic reader trees; "
         "abort paths (exceptions leaving solve()) are outside 'reports success'. Print Assumptions: closed under the global context.",
    technique='Rocq inductive invariant over the concrete solver model + differential correspondence with the real solver',
 ),
 'C03': dict(
    category='proof',
    text="Rocq theorem C03_solution_fixed_point: in every completed run of the solver model (solved or not), each stored value equals what its "
         "line definition yields on the final input/value stores - for every catalogue, request, rank (attempt order) and answer function. "
         "Invariant i_sound preserved by every primitive move (value stored, wait registered, specs loaded, prompt answered, drains), using "
         "monotonicity of reader programs. Layer B: C03_value_survives_larger_store (StoreMono.line_value_mono) - for the regenerated line bodies themselves, "
         "the value a line yielded when attempted is the value of its definition on every larger store (more lines, inputs, forms), so the reader-program "
         "monotonicity the kernel theorem assumes is proved of the interpreter that runs the real definitions. Tie: model vs real solver traces; monitor re-evaluates every stored line of real runs.",
    design_ref='DESIGN.md §3, §4 C03',
    note="Trusted as for C01. Print Assumptions: closed under the global context.",
    technique='Rocq inductive invariant (run_mono) over the concrete solver model + store monotonicity of the line interpreter (mutual induction) + differential correspondence',
 ),
 'C07': dict(
    category='proof',
    text="Rocq theorem C07_exact_<year> (all five statuses, every income in whole cents in [0, $1e12]): the model of figure_tax regenerated "
         "from f1040_figure_tax.py by an ast translator returns exactly the statutory schedule (IRS table-row midpoint rounded half-up below "
         "$100,000, exact bracket formula above); corollaries monotone and QSS=MFJ. The regenerated model is executed by vm_compute on "
         "structured probe incomes and compared with the real figure_tax.",
    design_ref='DESIGN.md §4 C07',
    note="Trusted: Coq kernel + vm_compute; tools/gen_tax.py; the hand-transcribed statutory brackets and IRS row layout in coq/TaxModel.v; "
         "binary64 evaluation of amount*rate-sub is tied by a rigorous error bound on probes, not proved. Print Assumptions: closed under the global context.",
    technique='Rocq proof by reflection over regenerated tables + general lemmas (induction, lia); vm_compute correspondence',
 ),
}
REASONS = {}

def main():
    checks = []
    for p in PROPS:
        if p in CLAIMED:
            c = CLAIMED[p]
            checks.append({
                'property_id': p,
                'quick_cmd': './check %s --tier quick' % p,
                'thorough_cmd': './check %s --tier thorough' % p,
                'evidence_file': '/verif/evidence/%s.json' % p,
                'replay_cmd_template': './check --replay {path}',
                'engine': 'coq-model+correspondence',
                'level_claimed': {'category': c['category'], 'text': c['text'], 'design_ref': c['design_ref']},
                'level_note': c['note'],
                'technique': c['technique'],
            })
    na = [{'property_id': p, 'reason': REASONS.get(p, 'check not built yet in this development (see DESIGN.md §9 build order); not claimed until its theorem and correspondence run')}
          for p in PROPS if p not in CLAIMED]
    m = {
        'version': 1,
        'setup_cmd': 'cd /verif/coq && coq_makefile -f _CoqProject -o Makefile && timeout 3000 make -j16',
        'hooks': {'guard': 'HABUTAX_VERIF', 'enable': 'none needed so far: harness-side substitution only (checks export HABUTAX_VERIF=1 anyway)',
                  'baseline_off_cmd': BASELINE, 'source_commits': [], 'add_only': True},
        'engines': [
            {'name': 'coq-model+correspondence', 'path': '/verif/check', 'serves_properties': sorted(CLAIMED),
             'kind_free_text': 'Rocq (Coq 8.16.1) models + theorems in /verif/coq and generated files under /verif/build; translators in /verif/tools; Python harness in /verif/vlib runs the real habutax code for correspondence and failing-input search'},
        ],
        'checks': checks,
        'not_applicable': na,
        'notes': 'Rocq machine-checked proof family. See DESIGN.md. known_findings.jsonl lists fixed/open findings.',
    }
    with open(os.path.join(ROOT, 'MANIFEST.json'), 'w') as f:
        json.dump(m, f, indent=1)
main()
