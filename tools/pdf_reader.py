"""Minimal reader for the bundled PDF templates (no pdftk, no PDF library available).

IRS templates carry an XFA template packet: fields, their accessibility text (<speak>), maxChars, check-box item values and
exclusive groups are read from it; widget names are rebuilt as pdftk reports them (subform[idx].….field[idx]).
NC templates are plain AcroForm: /T /FT /MaxLen /Ff /Opt and the appearance states (/AP /N keys) are read from the field dictionaries.
Fail-closed: a file in which neither structure is found raises ReaderError.
"""
import re
import zlib
import xml.etree.ElementTree as ET


class ReaderError(Exception):
    pass


def _streams(data):
    out = []
    for m in re.finditer(rb'(\d+) (\d+) obj(.*?)stream\r?\n', data, re.S):
        hdr = m.group(3)
        if b'endobj' in hdr:
            continue
        start = m.end()
        ml = re.search(rb'/Length (\d+)(?! \d+ R)', hdr)
        if ml:
            body = data[start:start + int(ml.group(1))]
        else:
            end = data.find(b'endstream', start)
            body = data[start:end]
        if b'FlateDecode' in hdr:
            try:
                body = zlib.decompress(body)
            except Exception:
                try:
                    body = zlib.decompressobj().decompress(body)
                except Exception:
                    continue
        out.append((int(m.group(1)), hdr, body))
    return out


def _local(tag):
    return tag.split('}', 1)[-1]


def read_xfa(data):
    tmpl = None
    for num, hdr, body in _streams(data):
        if b'<template' in body[:4000] and b'<subform' in body:
            if tmpl is None or len(body) > len(tmpl):
                tmpl = body
    if tmpl is None:
        return None
    text = tmpl.decode('utf8', 'replace')
    start = text.find('<template')
    ends = [m.end() for m in re.finditer(r'</template\s*>', text)]
    text = text[start:ends[-1]] if ends else text[start:] + '</template>'
    root = ET.fromstring(text)
    fields = {}
    order = []

    def walk(node, path, group):
        counts = {}
        for ch in list(node):
            tag = _local(ch.tag)
            if tag not in ('subform', 'field', 'exclGroup', 'subformSet', 'area'):
                continue
            name = ch.get('name')
            if tag in ('subformSet', 'area') or name is None:
                walk(ch, path, group)
                continue
            idx = counts.get(name, 0)
            counts[name] = idx + 1
            here = path + ['%s[%d]' % (name, idx)]
            if tag == 'subform':
                walk(ch, here, group)
            elif tag == 'exclGroup':
                walk(ch, here, '.'.join(here))
            else:
                info = {'kind': 'text', 'maxlen': None, 'on_values': [], 'speak': '', 'group': group, 'choices': []}
                for d in ch.iter():
                    t = _local(d.tag)
                    if t == 'checkButton':
                        info['kind'] = 'check'
                    elif t == 'choiceList':
                        info['kind'] = 'choice'
                    elif t == 'speak' and d.text and not info['speak']:
                        info['speak'] = ' '.join(d.text.split())
                    elif t == 'text' and d.get('maxChars'):
                        info['maxlen'] = int(d.get('maxChars'))
                    elif t == 'comb' and d.get('numberOfCells'):
                        info['maxlen'] = int(d.get('numberOfCells'))
                items = [d for d in ch if _local(d.tag) == 'items']
                if items:
                    vals = [(x.text or '') for x in list(items[0])]
                    if info['kind'] == 'check':
                        info['on_values'] = vals[:1]
                    else:
                        info['choices'] = vals
                full = '.'.join(here)
                fields[full] = info
                order.append(full)
    walk(root, [], None)
    return {'fields': fields, 'order': order, 'source': 'xfa'}


def _pdf_str(b):
    # literal or hex string -> text (enough for field names)
    b = b.strip()
    if b.startswith(b'<'):
        hx = re.sub(rb'[^0-9A-Fa-f]', b'', b)
        raw = bytes.fromhex(hx.decode())
        if raw.startswith(b'\xfe\xff'):
            return raw[2:].decode('utf-16-be', 'replace')
        return raw.decode('latin1')
    s = b[1:-1]
    s = re.sub(rb'\\([()\\])', rb'\1', s)
    if s.startswith(b'\xfe\xff'):
        return s[2:].decode('utf-16-be', 'replace')
    return s.decode('latin1')


def read_acroform(data):
    objs = {}
    for m in re.finditer(rb'(\d+) (\d+) obj(.*?)endobj', data, re.S):
        objs[int(m.group(1))] = m.group(3)
    # object streams
    for num, hdr, body in _streams(data):
        if b'/ObjStm' in hdr:
            mN = re.search(rb'/N (\d+)', hdr)
            mF = re.search(rb'/First (\d+)', hdr)
            if not (mN and mF):
                continue
            n, first = int(mN.group(1)), int(mF.group(1))
            nums = [int(x) for x in body[:first].split()]
            for k in range(n):
                onum, off = nums[2 * k], nums[2 * k + 1]
                nxt = nums[2 * k + 3] if k + 1 < n else len(body) - first
                objs[onum] = body[first + off:first + nxt]
    fields = {}
    order = []
    parent_of = {}
    name_of = {}
    for num, body in objs.items():
        mt = re.search(rb'/T\s*(\((?:[^()\\]|\\.)*\)|<[0-9A-Fa-f\s]*>)', body)
        if mt:
            name_of[num] = _pdf_str(mt.group(1))
        mp = re.search(rb'/Parent (\d+) \d+ R', body)
        if mp:
            parent_of[num] = int(mp.group(1))

    def full_name(num):
        parts = []
        seen = set()
        while num is not None and num not in seen:
            seen.add(num)
            if num in name_of:
                parts.append(name_of[num])
            num = parent_of.get(num)
        return '.'.join(reversed(parts))

    def inherited(num, key):
        seen = set()
        while num is not None and num not in seen:
            seen.add(num)
            m = re.search(key, objs.get(num, b''))
            if m:
                return m
            num = parent_of.get(num)
        return None
    for num, body in sorted(objs.items()):
        if num not in name_of:
            continue
        if re.search(rb'/Kids\s*\[', body) and not re.search(rb'/Subtype\s*/Widget', body):
            # non-terminal unless its kids are unnamed widgets
            kids = [int(x) for x in re.findall(rb'(\d+) \d+ R', re.search(rb'/Kids\s*\[(.*?)\]', body, re.S).group(1))]
            if any(k in name_of for k in kids):
                continue
        ft = inherited(num, rb'/FT\s*/(\w+)')
        if not ft:
            continue
        kind = {b'Tx': 'text', b'Btn': 'check', b'Ch': 'choice'}.get(ft.group(1), 'other')
        info = {'kind': kind, 'maxlen': None, 'on_values': [], 'speak': '', 'group': None, 'choices': []}
        ml = inherited(num, rb'/MaxLen (\d+)')
        if ml:
            info['maxlen'] = int(ml.group(1))
        tu = re.search(rb'/TU\s*(\((?:[^()\\]|\\.)*\))', body)
        if tu:
            info['speak'] = _pdf_str(tu.group(1))
        if kind == 'check':
            states = set()
            widgets = [num]
            mk = re.search(rb'/Kids\s*\[(.*?)\]', body, re.S)
            if mk:
                widgets += [int(x) for x in re.findall(rb'(\d+) \d+ R', mk.group(1))]
            for w in widgets:
                wb = objs.get(w, b'')
                ap = re.search(rb'/AP\s*<<(.*?)>>\s*>>', wb, re.S) or re.search(rb'/AP\s*<<(.*)', wb, re.S)
                if ap:
                    mn = re.search(rb'/N\s*<<(.*?)>>', ap.group(1), re.S)
                    if mn:
                        for st in re.findall(rb'/([^\s/<>\[\]()]+)\s+\d+ \d+ R', mn.group(1)):
                            if st != b'Off':
                                states.add(st.decode('latin1'))
            info['on_values'] = sorted(states)
        if kind == 'choice':
            mo = inherited(num, rb'/Opt\s*\[(.*?)\]\s*(?:/|>>)')
            if mo:
                info['choices'] = [_pdf_str(x) for x in re.findall(rb'\((?:[^()\\]|\\.)*\)', mo.group(1))]
        fn = full_name(num)
        fields[fn] = info
        order.append(fn)
    if not fields:
        return None
    return {'fields': fields, 'order': order, 'source': 'acroform'}


def read_template(path):
    with open(path, 'rb') as f:
        data = f.read()
    x = read_xfa(data)
    if x and x['fields']:
        return x
    a = read_acroform(data)
    if a:
        return a
    raise ReaderError('%s: neither an XFA template nor AcroForm field dictionaries found' % path)


LABEL = re.compile(r'^\s*(?:Line\s+)?(\d{1,2}[a-z]?(?:\(\w\))?)\s*[.:]\s', re.I)


def line_label(speak):
    """'15. Taxable income ...' -> '15' ; 'Part 1. ... 1. Foreign tax credit' handled by taking the last leading label"""
    if not speak:
        return None
    s = re.sub(r'^(?:Page \d+\.\s*)?(?:Part [IVX\d]+\.?\s*[^.]*\.\s*)?', '', speak)
    m = LABEL.match(s)
    if not m:
        return None
    lab = m.group(1).lower()
    # "25. Federal income tax withheld from: a. Form(s) W-2." is the box of line 25a
    m2 = re.match(r'^\s*(?:Line\s+)?\d{1,2}\s*[.:]\s[^.:]*?(?:\([^)]*\))?[^.:]*?[.:]\s*([a-hA-H])\.\s', s)
    if m2 and lab.isdigit():
        lab = lab + m2.group(1).lower()
    return lab


if __name__ == '__main__':
    import sys
    t = read_template(sys.argv[1])
    print(t['source'], len(t['fields']))
    for n in t['order'][:int(sys.argv[2]) if len(sys.argv) > 2 else 25]:
        i = t['fields'][n]
        print(n, i['kind'], i['maxlen'], i['on_values'], i['choices'][:3], '|', i['speak'][:90], '|', line_label(i['speak']))
