"""One-off helper (run by hand, output reviewed and frozen under oracles/): propose the gate inputs of each year.
A boolean input is proposed when, on seeded real-form scenarios that solve with it answered 'no', answering 'yes'
makes the solve fail with an unimplemented line.  The frozen list is what C09 demands from then on."""
import json, os, random, sys
sys.path.insert(0, os.path.dirname(os.path.dirname(os.path.abspath(__file__))))
from vlib import scenarios, common

H = scenarios.habutax_modules()
out = {}
for year in common.YEARS:
    rng = random.Random(99 + year)
    gates = {}
    seen_read = {}
    n_solved = 0
    for (y, forms, seed, prof) in scenarios.scenario_stream(rng, 200, years=(year,)):
        forms = ['1040', 'nc_d-400'] if rng.random() < 0.5 else ['1040']
        base = scenarios.run_scenario(H, year, forms, seed, prof)
        if base['exc'] is not None or not base['ok']:
            continue
        n_solved += 1
        for (name, ans, nb) in base['policy'].asked:
            spec = base['solver']._input_map.get(name)
            if spec is None or type(spec).__name__ != 'BooleanInput' or ans != 'no':
                continue
            key = name.split('.')[0].split(':')[0] + '.' + name.split('.')[1]
            if seen_read.get(key, 0) >= 3:
                continue
            seen_read[key] = seen_read.get(key, 0) + 1
            r = scenarios.run_scenario(H, year, forms, seed, prof, overrides={name: 'yes'})
            if r['exc'] is None and not r['ok'] and r['solver'].unimplemented_fields():
                g = gates.setdefault(key, {'input': key, 'help': spec.help()[:200], 'unimplemented': set(), 'seen': 0})
                g['seen'] += 1
                g['unimplemented'].update(r['solver'].unimplemented_fields()[:3])
            elif r['exc'] is None and r['ok']:
                gates.setdefault(key, {'input': key, 'help': spec.help()[:200], 'unimplemented': set(), 'seen': 0})['solved_when_yes'] = True
    lst = []
    for k, g in sorted(gates.items()):
        g['unimplemented'] = sorted(g['unimplemented'])
        lst.append(g)
    out[year] = lst
    print(year, 'solved baselines', n_solved, 'candidate inputs', len(lst), file=sys.stderr)
json.dump(out, sys.stdout, indent=1)
