"""Printed text of a PDF page, with positions (no PDF library available): enough of the content-stream language to read the
captions of the bundled N.C. templates, whose form fields carry no accessibility text.

 - objects (also inside object streams), page tree order, /Contents, /Resources /Font
 - fonts: /ToUnicode CMaps (bfchar / bfrange), 2-byte codes for Type0 fonts, 1-byte otherwise; without a CMap: Latin-1
 - operators: BT ET Tf Tm Td TD T* TL Tj TJ ' "  (the graphics matrix is followed through q/Q/cm for the origin only)
Fail-closed: a page whose content cannot be tokenised raises TextError; unknown glyph codes become U+FFFD (visible in the output).
"""
import re
import zlib


class TextError(Exception):
    pass


def _objects(data):
    objs, streams = {}, {}
    for m in re.finditer(rb'(\d+) (\d+) obj(.*?)endobj', data, re.S):
        objs[int(m.group(1))] = m.group(3)
    for m in re.finditer(rb'(\d+) (\d+) obj(.*?)endobj', data, re.S):
        whole = m.group(3)
        ms = re.search(rb'stream\r?\n', whole)
        if not ms:
            continue
        hdr = whole[:ms.start()]
        start = m.start(3) + ms.end()
        ml = re.search(rb'/Length (\d+)(?! \d+ R)', hdr)
        if ml:
            body = data[start:start + int(ml.group(1))]
        else:
            body = data[start:data.find(b'endstream', start)]
        if b'FlateDecode' in hdr:
            try:
                body = zlib.decompress(body)
            except Exception:
                try:
                    body = zlib.decompressobj().decompress(body)
                except Exception:
                    continue
        streams[int(m.group(1))] = (hdr, body)
    for num, (hdr, body) in list(streams.items()):
        if b'/ObjStm' in hdr:
            mN, mF = re.search(rb'/N (\d+)', hdr), re.search(rb'/First (\d+)', hdr)
            if not (mN and mF):
                continue
            n, first = int(mN.group(1)), int(mF.group(1))
            nums = [int(x) for x in body[:first].split()]
            for k in range(n):
                onum, off = nums[2 * k], nums[2 * k + 1]
                nxt = nums[2 * k + 3] if k + 1 < n else len(body) - first
                objs[onum] = body[first + off:first + nxt]
    return objs, streams


def _cmap(body):
    m = {}
    width = 1
    cs = re.search(rb'begincodespacerange\s*<([0-9A-Fa-f]+)>', body)
    if cs:
        width = len(cs.group(1)) // 2
    for blk in re.findall(rb'beginbfchar(.*?)endbfchar', body, re.S):
        for a, b in re.findall(rb'<([0-9A-Fa-f]+)>\s*<([0-9A-Fa-f]*)>', blk):
            m[int(a, 16)] = bytes.fromhex(b.decode()).decode('utf-16-be', 'replace')
    for blk in re.findall(rb'beginbfrange(.*?)endbfrange', body, re.S):
        for a, b, c in re.findall(rb'<([0-9A-Fa-f]+)>\s*<([0-9A-Fa-f]+)>\s*(<[0-9A-Fa-f]*>|\[[^\]]*\])', blk):
            lo, hi = int(a, 16), int(b, 16)
            if c.startswith(b'['):
                dst = re.findall(rb'<([0-9A-Fa-f]*)>', c)
                for k, d in enumerate(dst):
                    m[lo + k] = bytes.fromhex(d.decode()).decode('utf-16-be', 'replace')
            else:
                base = bytes.fromhex(c[1:-1].decode())
                u = int.from_bytes(base[-2:], 'big')
                pre = base[:-2].decode('utf-16-be', 'replace')
                for k in range(hi - lo + 1):
                    m[lo + k] = pre + chr(u + k)
    return width, m


def _dict_at(objs, body, key):
    """the dictionary (bytes) that follows /key in body: inline << >> or an indirect reference"""
    m = re.search(rb'/' + key + rb'\s*(\d+) \d+ R', body)
    if m:
        return objs.get(int(m.group(1)), b'')
    i = body.find(b'/' + key)
    if i < 0:
        return b''
    j = body.find(b'<<', i)
    if j < 0:
        return b''
    depth, k = 0, j
    while k < len(body):
        if body[k:k + 2] == b'<<':
            depth += 1
            k += 2
        elif body[k:k + 2] == b'>>':
            depth -= 1
            k += 2
            if depth == 0:
                return body[j:k]
        else:
            k += 1
    return b''


def _pages(objs):
    root = None
    for num, b in objs.items():
        if re.search(rb'/Type\s*/Catalog', b):
            root = b
    out = []
    if root is None:
        return sorted(n for n, b in objs.items() if re.search(rb'/Type\s*/Page(?!s)', b))

    def walk(num, seen):
        if num in seen:
            return
        seen.add(num)
        b = objs.get(num, b'')
        if re.search(rb'/Type\s*/Pages', b):
            mk = re.search(rb'/Kids\s*\[(.*?)\]', b, re.S)
            for k in re.findall(rb'(\d+) \d+ R', mk.group(1) if mk else b''):
                walk(int(k), seen)
        elif re.search(rb'/Type\s*/Page', b):
            out.append(num)
    mp = re.search(rb'/Pages\s*(\d+) \d+ R', root)
    if mp:
        walk(int(mp.group(1)), set())
    return out


TOKEN = re.compile(rb'\s*(\((?:[^()\\]|\\.|\((?:[^()\\]|\\.)*\))*\)|<[0-9A-Fa-f\s]*>|\[|\]|<<|>>|/[^\s/<>\[\]()]*|[-+]?\d*\.?\d+|[A-Za-z\'"*]+|%[^\n]*)', re.S)


def _unescape(s):
    out = bytearray()
    i = 0
    while i < len(s):
        c = s[i]
        if c == 0x5c and i + 1 < len(s):
            n = s[i + 1]
            if n in b'nrtbf':
                out.append({ord('n'): 10, ord('r'): 13, ord('t'): 9, ord('b'): 8, ord('f'): 12}[n])
                i += 2
            elif 0x30 <= n <= 0x37:
                j = i + 1
                while j < len(s) and j < i + 4 and 0x30 <= s[j] <= 0x37:
                    j += 1
                out.append(int(s[i + 1:j], 8) & 255)
                i = j
            elif n in (10, 13):
                i += 2
            else:
                out.append(n)
                i += 2
        else:
            out.append(c)
            i += 1
    return bytes(out)


def page_chunks(path):
    """[(page index, x, y, font size, text)] in content order"""
    data = open(path, 'rb').read()
    objs, streams = _objects(data)
    res = []
    for pi, pnum in enumerate(_pages(objs)):
        pb = objs[pnum]
        rd = _dict_at(objs, pb, b'Resources')
        fd = _dict_at(objs, rd, b'Font')
        fonts = {}
        for name, ref in re.findall(rb'/([^\s/<>\[\]()]+)\s+(\d+) \d+ R', fd):
            fb = objs.get(int(ref), b'')
            width, cm = (2 if re.search(rb'/Subtype\s*/Type0', fb) else 1), None
            mt = re.search(rb'/ToUnicode\s*(\d+) \d+ R', fb)
            if mt and int(mt.group(1)) in streams:
                w2, cm = _cmap(streams[int(mt.group(1))][1])
                width = max(width, w2) if re.search(rb'/Subtype\s*/Type0', fb) else 1
            fonts[name] = (width, cm)
        mc = re.search(rb'/Contents\s*(\[(.*?)\]|(\d+) \d+ R)', pb, re.S)
        if not mc:
            continue
        refs = [int(x) for x in re.findall(rb'(\d+) \d+ R', mc.group(1))]
        content = b'\n'.join(streams[r][1] for r in refs if r in streams)

        def decode(raw, font):
            width, cm = fonts.get(font, (1, None))
            if width == 2:
                codes = [int.from_bytes(raw[k:k + 2], 'big') for k in range(0, len(raw) - 1, 2)]
            else:
                codes = list(raw)
            if cm is None:
                return ''.join(chr(c) for c in codes)
            return ''.join(cm.get(c, '�') for c in codes)
        stack = []
        ctm = [(1.0, 0.0, 0.0, 1.0, 0.0, 0.0)]
        tm = [1.0, 0.0, 0.0, 1.0, 0.0, 0.0]
        lm = list(tm)
        leading, font, size = 0.0, None, 1.0
        pos = 0
        in_array, arr = False, []

        def emit(txt):
            if txt:
                c = ctm[-1]
                x = c[0] * tm[4] + c[2] * tm[5] + c[4]
                y = c[1] * tm[4] + c[3] * tm[5] + c[5]
                res.append((pi, round(x, 2), round(y, 2), round(size * abs(tm[3] or tm[0]), 2), txt))

        def num(v):
            try:
                return float(v)
            except Exception:
                raise TextError('%s page %d: operand %r' % (path, pi, v))
        while pos < len(content):
            m = TOKEN.match(content, pos)
            if not m:
                if content[pos:].strip() == b'':
                    break
                # inline images and the like: skip one byte
                pos += 1
                continue
            pos = m.end()
            t = m.group(1)
            if t.startswith(b'%'):
                continue
            if t == b'[':
                in_array, arr = True, []
                continue
            if t == b']':
                in_array = False
                stack.append(('arr', arr))
                continue
            if t.startswith(b'(') or (t.startswith(b'<') and not t.startswith(b'<<')):
                raw = _unescape(t[1:-1]) if t.startswith(b'(') else bytes.fromhex((re.sub(rb'\s', b'', t[1:-1]) + (b'0' if len(re.sub(rb'\s', b'', t[1:-1])) % 2 else b'')).decode())
                (arr if in_array else stack).append(('str', raw))
                continue
            if re.match(rb'^[-+]?\d*\.?\d+$', t):
                (arr if in_array else stack).append(('num', t))
                continue
            if t.startswith(b'/') or t in (b'<<', b'>>'):
                stack.append(('name', t))
                continue
            op = t
            args = stack
            stack = []
            try:
                if op == b'BT':
                    tm = [1.0, 0.0, 0.0, 1.0, 0.0, 0.0]
                    lm = list(tm)
                elif op == b'Tf' and len(args) >= 2:
                    font, size = args[-2][1][1:], num(args[-1][1])
                elif op == b'TL' and args:
                    leading = num(args[-1][1])
                elif op == b'Tm' and len(args) >= 6:
                    tm = [num(a[1]) for a in args[-6:]]
                    lm = list(tm)
                elif op in (b'Td', b'TD') and len(args) >= 2:
                    tx, ty = num(args[-2][1]), num(args[-1][1])
                    if op == b'TD':
                        leading = -ty
                    lm[4] += tx * lm[0] + ty * lm[2]
                    lm[5] += tx * lm[1] + ty * lm[3]
                    tm = list(lm)
                elif op == b'T*':
                    lm[4] += -leading * lm[2]
                    lm[5] += -leading * lm[3]
                    tm = list(lm)
                elif op in (b'Tj', b"'", b'"') and args:
                    if op != b'Tj':
                        lm[4] += -leading * lm[2]
                        lm[5] += -leading * lm[3]
                        tm = list(lm)
                    if args[-1][0] == 'str':
                        emit(decode(args[-1][1], font))
                elif op == b'TJ' and args and args[-1][0] == 'arr':
                    txt = ''
                    for kind, v in args[-1][1]:
                        if kind == 'str':
                            txt += decode(v, font)
                        elif kind == 'num' and num(v) < -200:
                            txt += ' '
                    emit(txt)
                elif op == b'q':
                    ctm.append(ctm[-1])
                elif op == b'Q':
                    if len(ctm) > 1:
                        ctm.pop()
                elif op == b'cm' and len(args) >= 6:
                    a, b, c, d, e, f = [num(x[1]) for x in args[-6:]]
                    A, B, C, D, E, F = ctm[-1]
                    ctm[-1] = (a * A + b * C, a * B + b * D, c * A + d * C, c * B + d * D, e * A + f * C + E, e * B + f * D + F)
            except TextError:
                raise
            except Exception as e:  # noqa
                raise TextError('%s page %d: %s near %r' % (path, pi, e, content[max(0, pos - 40):pos]))
    return res


def page_rows(path, ytol=2.5):
    """[(page, y, [(x, size, text)] left to right)] top to bottom"""
    by_page = {}
    for c in page_chunks(path):
        by_page.setdefault(c[0], []).append(c)
    out = []
    for pi in sorted(by_page):
        rows = []
        for c in sorted(by_page[pi], key=lambda c: (-c[2], c[1])):
            if rows and abs(rows[-1][0] - c[2]) <= ytol:
                rows[-1][1].append(c)
            else:
                rows.append([c[2], [c]])
        for y, row in rows:
            out.append((pi, y, [(c[1], c[3], c[4]) for c in sorted(row, key=lambda c: c[1])]))
    return out


def page_lines(path, ytol=2.5):
    """[(page, y, x of first chunk, text)] : chunks on one baseline joined left to right, top to bottom"""
    chunks = page_chunks(path)
    out = []
    by_page = {}
    for c in chunks:
        by_page.setdefault(c[0], []).append(c)
    for pi in sorted(by_page):
        cs = sorted(by_page[pi], key=lambda c: (-c[2], c[1]))
        rows = []
        for c in cs:
            if rows and abs(rows[-1][0] - c[2]) <= ytol:
                rows[-1][1].append(c)
            else:
                rows.append([c[2], [c]])
        for y, row in rows:
            row.sort(key=lambda c: c[1])
            txt = ''
            for c in row:
                if txt and not txt.endswith(' ') and not c[4].startswith(' '):
                    txt += ' '
                txt += c[4]
            out.append((pi, y, row[0][1], re.sub(r'\s+', ' ', txt).strip()))
    return out


if __name__ == '__main__':
    import sys
    for pi, y, x, t in page_lines(sys.argv[1]):
        print('%d %7.1f %6.1f  %s' % (pi, y, x, t))
