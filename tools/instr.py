"""Official line instructions from the accessibility text of the bundled IRS templates -> a small term language.

parse(text, line_names) returns (kind, ...) or None.  The grammar must consume every sentence of the text: leading
"N." label, then ONE instruction sentence (optionally followed by a floor/ceiling sentence), then only sentences
that are known to be informational.  Anything else yields None (no obligation), never a guess.
"""
import re

INFO = re.compile(r'^(This is|These are|Enter here|Enter the result|Enter this amount|Also[, ]|Note:|Caution|For details|Attach|See instructions|'
                  r'If more than zero, also include|If zero, stop here|Skip |Enter 0 on line|Go to |and go to|You may be subject|'
                  r'Open parenthesis|Close parenthesis|Total |Qualified business income|Income limitation|R E I T|Additional Medicare Tax|'
                  r'H S A deduction|Taxable amount|Refund|Amount You Owe)', re.I)
LINE = r'(\d{1,2}[a-z]?)'


def natural_key(s):
    m = re.match(r'^(\d+)([a-z]?)$', s)
    return (int(m.group(1)), m.group(2)) if m else (10 ** 6, s)


def expand(items, line_names):
    """['1', ('5','7'), '9'] -> explicit list, ranges follow the natural order of the form's plain line names"""
    plain = sorted([n for n in line_names if re.match(r'^\d+[a-z]?$', n)], key=natural_key)
    out = []
    for it in items:
        if isinstance(it, tuple):
            a, b = it
            if a not in plain or b not in plain:
                return None
            i, j = plain.index(a), plain.index(b)
            if i > j:
                return None
            out += plain[i:j + 1]
        else:
            out.append(it)
    return out


def parse_line_list(s):
    """'1 through 4, 5a, 5b, and 7' -> items"""
    s = s.replace(' and ', ', ').replace(',,', ',')
    items = []
    for part in [p.strip() for p in s.split(',') if p.strip()]:
        m = re.match(r'^%s through %s$' % (LINE, LINE), part)
        if m:
            items.append((m.group(1), m.group(2)))
            continue
        m = re.match(r'^%s$' % LINE, part)
        if m:
            items.append(m.group(1))
            continue
        return None
    return items


def sentences(text):
    # split on '. ' but keep decimals like 0.075 and 7.5 % together
    t = re.sub(r'(\d)\.(\d)', r'\1<DOT>\2', text)
    parts = [p.strip().replace('<DOT>', '.') for p in re.split(r'\.\s+|\.$', t) if p.strip()]
    return parts


def parse(text, line_names):
    sents = sentences(text)
    if not sents:
        return None
    # drop leading headings / label
    while sents and not re.match(r'^(Line\s+)?\d{1,2}[a-z]?$', sents[0]):
        if re.match(r'^(Page \d+|Part [IVX\d ]+|[A-Z][A-Za-z ,()&-]+)$', sents[0]) and len(sents) > 1:
            sents = sents[1:]
        else:
            break
    if not sents or not re.match(r'^(Line\s+)?\d{1,2}[a-z]?$', sents[0]):
        return None
    sents = sents[1:]
    # skip descriptive sentences before the instruction (a title such as "Total other income")
    while sents and INFO.match(sents[0]) and len(sents) > 1 and not re.match(r'^(Add |Subtract |Multiply |Combine |Enter the (smaller|larger|amount))', sents[0]):
        sents = sents[1:]
    if not sents:
        return None
    s = sents[0]
    rest = sents[1:]
    term = None
    m = re.match(r'^(Add|Combine) lines (.+)$', s)
    if m:
        items = parse_line_list(m.group(2))
        lines = expand(items, line_names) if items else None
        if lines:
            term = ('sum', lines)
    m = re.match(r'^Subtract line %s from line %s$' % (LINE, LINE), s)
    if m:
        term = ('sub', m.group(2), m.group(1))
    m = re.match(r'^If line %s is more than line %s, subtract line %s from line %s$' % (LINE, LINE, LINE, LINE), s)
    if m and m.group(1) == m.group(4) and m.group(2) == m.group(3):
        term = ('subfloor', m.group(1), m.group(2))
    m = re.match(r'^Multiply line ' + LINE + r' by ([\d.]+) ?% \((0?\.\d+)\)$', s)
    if m:
        from decimal import Decimal
        if Decimal(m.group(2)) / 100 == Decimal(m.group(3)):
            term = ('scale', m.group(1), m.group(3))
    m = re.match(r'^Multiply line %s by \$([\d,]+)$' % LINE, s)
    if m:
        term = ('scale', m.group(1), m.group(2).replace(',', ''))
    m = re.match(r'^Enter the smaller of line %s or line %s( here)?( and on .*)?$' % (LINE, LINE), s)
    if m:
        term = ('min', m.group(1), m.group(2))
    m = re.match(r'^Enter the larger of line %s or line %s$' % (LINE, LINE), s)
    if m:
        term = ('max', m.group(1), m.group(2))
    m = re.match(r'^Enter the amount from line %s$' % LINE, s)
    if m:
        term = ('carry', m.group(1))
    if term is None:
        return None
    # modifiers
    while rest:
        r = rest[0]
        if re.match(r'^If zero or less, enter 0(, and skip .*)?$', r) or \
                (term[0] == 'sub' and re.match(r'^If line %s is more than line %s, enter 0$' % (term[2], term[1]), r)):
            if term[0] == 'sub':
                term = ('subfloor', term[1], term[2])
            elif term[0] == 'sum':
                term = ('sumfloor', term[1])
            else:
                return None
            rest = rest[1:]
            continue
        m2 = re.match(r'^If more than zero and not a multiple of \$([\d,]+), enter the next multiple of \$([\d,]+)$', r)
        if m2 and m2.group(1) == m2.group(2) and term[0] == 'subfloor':
            term = ('subfloorceil', term[1], term[2], m2.group(1).replace(',', ''))
            rest = rest[1:]
            while rest and re.match(r'^(For example|if the result is)', rest[0], re.I):
                rest = rest[1:]
            continue
        if re.match(r'^If greater than zero, enter 0$', r) and term[0] == 'sum':
            term = ('sumceil0', term[1])
            rest = rest[1:]
            continue
        break
    for r in rest:
        if not INFO.match(r):
            return None
    return term


def to_aexp(term):
    def L(n):
        return '(ALine "%s")' % n
    k = term[0]
    if k in ('sum', 'sumfloor', 'sumceil0'):
        e = L(term[1][0])
        for n in term[1][1:]:
            e = '(AAdd %s %s)' % (e, L(n))
        if k == 'sumfloor':
            e = '(AMax (AConst 0) %s)' % e
        if k == 'sumceil0':
            e = '(AMin (AConst 0) %s)' % e
        return e
    if k == 'sub':
        return '(ASub %s %s)' % (L(term[1]), L(term[2]))
    if k == 'subfloor':
        return '(AMax (AConst 0) (ASub %s %s))' % (L(term[1]), L(term[2]))
    if k == 'scalefloor':
        return '(AMax (AConst 0) %s)' % to_aexp(('scale', term[1], term[2]))
    if k == 'scale':
        from decimal import Decimal
        d = Decimal(term[2])
        sign, digits, exp = d.as_tuple()
        num = int(''.join(map(str, digits)))
        den = 10 ** (-exp) if exp < 0 else 1
        if exp > 0:
            num *= 10 ** exp
        return '(AScale (Qmake %d %d%%positive) %s)' % (num, den, L(term[1]))
    if k == 'min':
        return '(AMin %s %s)' % (L(term[1]), L(term[2]))
    if k == 'max':
        return '(AMax %s %s)' % (L(term[1]), L(term[2]))
    if k == 'carry':
        return L(term[1])
    raise ValueError(k)


def lines_of(term):
    k = term[0]
    if k in ('sum', 'sumfloor', 'sumceil0'):
        return list(term[1])
    if k in ('scale', 'scalefloor', 'carry'):
        return [term[1]]
    return [term[1], term[2]]


def has_coq_term(term):
    """terms the arithmetic readings (Arith / Xexp) can express; the others are compared on real returns only"""
    return term[0] != 'subfloorceil'


def evaluate(term, env):
    """reference evaluation with Fractions (for the failing-input search)"""
    from fractions import Fraction
    k = term[0]
    if k == 'sum':
        return sum(env[n] for n in term[1])
    if k == 'sumfloor':
        return max(Fraction(0), sum(env[n] for n in term[1]))
    if k == 'sumceil0':
        return min(Fraction(0), sum(env[n] for n in term[1]))
    if k == 'sub':
        return env[term[1]] - env[term[2]]
    if k == 'subfloor':
        return max(Fraction(0), env[term[1]] - env[term[2]])
    if k == 'subfloorceil':
        d = max(Fraction(0), env[term[1]] - env[term[2]])
        u = Fraction(term[3])
        return -((-d) // u) * u
    if k == 'scale':
        return env[term[1]] * Fraction(term[2])
    if k == 'scalefloor':
        return max(Fraction(0), env[term[1]] * Fraction(term[2]))
    if k == 'min':
        return min(env[term[1]], env[term[2]])
    if k == 'max':
        return max(env[term[1]], env[term[2]])
    if k == 'carry':
        return env[term[1]]


# ------------------------------------------------------------------------------------------------ carry sentences
CARRY = re.compile(r'(?:Enter (?:here|the result here|this amount|the total here|the smaller[^.]*?here|the result) and on|'
                   r'include (?:this amount|it) on|Also enter (?:this amount )?on)\s+(?:\d{4} )?(Form|Schedule)\s+([\w-]+)[^.]*?line\s+(\d+[a-z]?)', re.I)
DEST_FORM = {('form', '1040'): '1040', ('schedule', '1'): '1040_s1', ('schedule', '2'): '1040_s2', ('schedule', '3'): '1040_s3',
             ('schedule', 'a'): '1040_sa', ('schedule', 'b'): '1040_sb'}


def carries(text):
    """'... Enter here and on Form 1040, 1040-SR, or 1040-NR, line 8.' -> [('1040', '8')]"""
    out = []
    for m in CARRY.finditer(text):
        d = DEST_FORM.get((m.group(1).lower(), m.group(2).lower()))
        if d:
            out.append((d, m.group(3).lower()))
    return out


def to_xexp(term):
    """the same term in the constructors of coq/Xexp.v"""
    def L(n):
        return '(XLine "%s")' % n
    k = term[0]
    if k in ('sum', 'sumfloor', 'sumceil0'):
        e = L(term[1][0])
        for n in term[1][1:]:
            e = '(XAdd %s %s)' % (e, L(n))
        if k == 'sumfloor':
            e = '(XMax (XConst 0) %s)' % e
        if k == 'sumceil0':
            e = '(XMin (XConst 0) %s)' % e
        return e
    if k == 'sub':
        return '(XSub %s %s)' % (L(term[1]), L(term[2]))
    if k == 'subfloor':
        return '(XMax (XConst 0) (XSub %s %s))' % (L(term[1]), L(term[2]))
    if k in ('scale', 'scalefloor'):
        return to_aexp(term).replace('AScale', 'XScale').replace('ALine', 'XLine').replace('AMax', 'XMax').replace('AConst', 'XConst')
    if k == 'min':
        return '(XMin %s %s)' % (L(term[1]), L(term[2]))
    if k == 'max':
        return '(XMax %s %s)' % (L(term[1]), L(term[2]))
    if k == 'carry':
        return L(term[1])
    raise ValueError(k)
