#!/usr/bin/env python3
"""Confirms sub-agent mutants in a scratch worktree: patch applies to the current /repo HEAD, the 55 baseline tests pass,
the demo says HOLDS on the clean tree and VIOLATED on the mutated tree.  Copies confirmed ones to /verif/seeded/<id>-<k>/."""
import json, os, shutil, subprocess, sys
def sh(cmd, cwd=None, env=None):
    p = subprocess.run(cmd, shell=True, cwd=cwd, env=env, stdout=subprocess.PIPE, stderr=subprocess.STDOUT, text=True)
    return p.returncode, p.stdout
head = sh('git -C /repo rev-parse HEAD')[1].strip()
ROUND = int(os.environ.get('SEED_ROUND', '1'))          # round 2: /tmp/wt2_*, /tmp/seed2_*, kept as <id>-3 and <id>-4
SFX = '' if ROUND == 1 else str(ROUND)
OFFSET = int(os.environ.get('SEED_OFFSET', 2 * (ROUND - 1)))
ids = sys.argv[1:] or ['C%02d' % i for i in range(1, 21)]
report = []
for pid in ids:
    wt, out = '/tmp/wt%s_%s' % (SFX, pid), '/tmp/seed%s_%s' % (SFX, pid)
    if not os.path.isdir(wt) or not os.path.exists(out + '/meta.json'):
        report.append((pid, 0, 'missing')); continue
    sh('git checkout -q -- . && git checkout -q --detach %s' % head, cwd=wt)
    meta = json.load(open(out + '/meta.json'))
    env = dict(os.environ, PYTHONPATH=wt, PYTHONHASHSEED='0')
    for k in (1, 2):
        patch, demo = '%s/patch%d.diff' % (out, k), '%s/demo%d.py' % (out, k)
        if not (os.path.exists(patch) and os.path.exists(demo)):
            report.append((pid, k, 'missing files')); continue
        sh('git checkout -q -- .', cwd=wt)
        rc0, clean = sh('/venv/bin/python %s' % demo, cwd=out, env=env)
        rc, o = sh('git apply %s' % patch, cwd=wt)
        if rc != 0:
            report.append((pid, k, 'patch does not apply: ' + o[-200:])); continue
        rct, t = sh('/venv/bin/python -m pytest -q -p no:cacheprovider --continue-on-collection-errors 2>&1 | tail -1', cwd=wt, env=env)
        rc1, mut = sh('/venv/bin/python %s' % demo, cwd=out, env=env)
        sh('git checkout -q -- .', cwd=wt)
        ok = ('55 passed' in t) and ('PROPERTY HOLDS' in clean) and ('PROPERTY VIOLATED' in mut) and 'PROPERTY VIOLATED' not in clean
        status = 'confirmed' if ok else 'NOT confirmed: tests=%s clean=%s mut=%s' % (t.strip()[-40:], clean.strip()[-80:], mut.strip()[-80:])
        report.append((pid, k, status))
        if ok:
            dst = '/verif/seeded/%s-%d' % (pid, k + OFFSET)
            os.makedirs(dst, exist_ok=True)
            shutil.copy(patch, dst + '/patch.diff'); shutil.copy(demo, dst + '/demo.py')
            m = [x for x in meta if x.get('patch') == 'patch%d.diff' % k]
            m = dict(m[0]) if m else {}
            m.update({'property': pid, 'confirmed_on_repo_head': head, 'tests': t.strip(),
                      'demo_clean': [l for l in clean.splitlines() if 'PROPERTY' in l][:1], 'demo_mutated': [l for l in mut.splitlines() if 'PROPERTY' in l][:1]})
            m.pop('patch', None); m.pop('demo', None)
            json.dump(m, open(dst + '/meta.json', 'w'), indent=1)
for r in report:
    print(*r)
