#!/usr/bin/env python3
"""Runs the registered quick check of each seeded mutant's property against a scratch copy of the repo with the patch applied
(HABUTAX_REPO points the checks at the copy; /repo itself is not touched).  Writes /verif/seeded/RESULTS.json."""
import json, os, shutil, subprocess, sys, time
ROOT = '/verif'
only = sys.argv[1:]
res_path = os.environ.get('SEED_RESULTS', ROOT + '/seeded/RESULTS.json')
results = json.load(open(res_path)) if os.path.exists(res_path) else {}
for d in sorted(os.listdir(ROOT + '/seeded')):
    p = ROOT + '/seeded/' + d
    if not os.path.isdir(p) or (only and d not in only and d.split('-')[0] not in only):
        continue
    pid = d.split('-')[0]
    scratch = '/tmp/mutrun_%s' % d
    shutil.rmtree(scratch, ignore_errors=True)
    os.makedirs(scratch)
    subprocess.run('cp -r /repo/habutax %s/ && cp -r /repo/tests %s/ 2>/dev/null; cd %s && patch -s -p1 < %s/patch.diff' % (scratch, scratch, scratch, p), shell=True, check=True)
    t0 = time.time()
    os.makedirs('/tmp/mutrun_evidence', exist_ok=True)
    env = dict(os.environ, HABUTAX_REPO=scratch, VERIF_EVIDENCE_DIR='/tmp/mutrun_evidence')   # the committed evidence stays that of the unchanged tree
    r = subprocess.run('./check %s --tier quick' % pid, shell=True, cwd=ROOT, env=env, stdout=subprocess.PIPE, stderr=subprocess.STDOUT, text=True)
    viol = [l for l in r.stdout.splitlines() if l.startswith('VIOLATION')]
    results[d] = {'property': pid, 'exit': r.returncode, 'caught': r.returncode == 1 and bool(viol), 'violation_lines': viol[:6],
                  'with_failing_input': any('no-failing-input-found' not in l for l in viol), 'seconds': round(time.time() - t0, 1),
                  'summary': r.stdout.strip().splitlines()[-1][:300] if r.stdout.strip() else ''}
    print(d, results[d]['caught'], results[d]['with_failing_input'], results[d]['seconds'], flush=True)
    json.dump(results, open(res_path, 'w'), indent=1)
    shutil.rmtree(scratch, ignore_errors=True)
