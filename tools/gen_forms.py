"""Layer B translator: habutax/forms/ty<year>  ->  (a) catalogue facts by introspection, (b) every line body as a
term of the deep embedding coq/Forms.v.  Fail-closed: a construct outside the recognised subset raises
TranslateError(file, line, node kind) - never skipped.

Run under /venv/bin/python with the repo on sys.path (vlib.scenarios.habutax_modules() does that).
"""
import ast
import enum as pyenum
import inspect
import types
from decimal import Decimal


class TranslateError(Exception):
    pass


# --------------------------------------------------------------------------- Coq text helpers
def cstr(s):
    out = []
    for ch in s:
        if ch == '"':
            out.append('""')
        elif ord(ch) < 32 or ord(ch) > 126:
            out.append('?')
        else:
            out.append(ch)
    return '"' + ''.join(out) + '"'


def cz(n):
    return '(%d)%%Z' % n if n < 0 else '%d%%Z' % n


def cq(d):
    d = Decimal(d)
    sign, digits, exp = d.as_tuple()
    num = int(''.join(map(str, digits)) or '0')
    if sign:
        num = -num
    if exp >= 0:
        num *= 10 ** exp
        den = 1
    else:
        den = 10 ** (-exp)
    from math import gcd
    g = gcd(abs(num), den) or 1
    return '(Qmake %s %d%%positive)' % (cz(num // g), den // g)


def clist(items):
    return '[' + '; '.join(items) + ']'


def copt(x):
    return 'None' if x is None else '(Some %s)' % x


# --------------------------------------------------------------------------- enum registry
class Enums(object):
    def __init__(self, enum_module):
        self.by_id = {}
        self.names = {}
        for k, v in vars(enum_module).items():
            if isinstance(v, type) and issubclass(v, pyenum.Enum) and v is not pyenum.Enum:
                self.by_id[id(v)] = k
                self.names[k] = v

    def name_of(self, cls):
        if id(cls) in self.by_id:
            return self.by_id[id(cls)]
        nm = 'dyn:' + cls.__name__
        self.by_id[id(cls)] = nm
        self.names[nm] = cls
        return nm

    def pv(self, member):
        return '(PEnum %s %s)' % (cstr(self.name_of(type(member))), cstr(member.name))


def const_pv(v, enums):
    if v is None:
        return 'PNone'
    if isinstance(v, bool):
        return '(PBool %s)' % ('true' if v else 'false')
    if isinstance(v, int):
        return '(PInt %s)' % cz(v)
    if isinstance(v, float):
        return '(PNum %s)' % cq(repr(v))
    if isinstance(v, str):
        return '(PStr %s)' % cstr(v)
    if isinstance(v, pyenum.Enum):
        return enums.pv(v)
    if isinstance(v, (tuple, list)):
        return '(%s %s)' % ('PTuple' if isinstance(v, tuple) else 'PList', clist([const_pv(x, enums) for x in v]))
    raise TranslateError('constant of unsupported type %r' % type(v))


# --------------------------------------------------------------------------- function -> AST
_AST_CACHE = {}


def file_ast(path):
    if path not in _AST_CACHE:
        with open(path) as f:
            src = f.read()
        tree = ast.parse(src)
        idx = {}
        for node in ast.walk(tree):
            if isinstance(node, (ast.Lambda, ast.FunctionDef)):
                idx.setdefault(node.lineno, []).append(node)
        _AST_CACHE[path] = (src, tree, idx, src.split('\n'))
    return _AST_CACHE[path]


def fn_node(fn):
    code = fn.__code__
    path = code.co_filename
    src, tree, idx, lines = file_ast(path)
    cands = idx.get(code.co_firstlineno, [])
    if code.co_name == '<lambda>':
        cands = [c for c in cands if isinstance(c, ast.Lambda)]
    else:
        cands = [c for c in cands if isinstance(c, ast.FunctionDef) and c.name == code.co_name]
        if not cands:   # decorators shift co_firstlineno; search by name nearby
            for ln in range(code.co_firstlineno, code.co_firstlineno + 5):
                cands += [c for c in idx.get(ln, []) if isinstance(c, ast.FunctionDef) and c.name == code.co_name]
    if len(cands) > 1:
        # disambiguate lambdas on one line by the column of the first instruction
        cols = [p[2] for p in code.co_positions() if p[0] == code.co_firstlineno and p[2] is not None]
        if cols:
            col = min(cols)
            inside = [c for c in cands if c.col_offset <= col <= (c.end_col_offset or 10 ** 9)]
            if inside:
                inside.sort(key=lambda c: -c.col_offset)
                cands = [inside[0]]
    if len(cands) != 1:
        raise TranslateError('%s:%d: cannot locate the definition of %s (%d candidates)' % (
            path, code.co_firstlineno, code.co_name, len(cands)))
    return path, cands[0], lines


def free_value(fn, name):
    """value a free name has inside fn (closure cell, then module global, then builtin)"""
    code = fn.__code__
    if name in code.co_freevars and fn.__closure__:
        cell = fn.__closure__[code.co_freevars.index(name)]
        try:
            return True, cell.cell_contents
        except ValueError:
            return False, None
    if name in fn.__globals__:
        return True, fn.__globals__[name]
    import builtins
    if hasattr(builtins, name):
        return True, getattr(builtins, name)
    return False, None


CODE_ALTS = {}    # code object -> {instance: function}: the same definition as bound in each allowed instance of its form
SIMPLE = None


def register_alts(inst, fn, seen=None):
    seen = seen if seen is not None else set()
    if id(fn) in seen or not isinstance(fn, types.FunctionType):
        return
    seen.add(id(fn))
    CODE_ALTS.setdefault(fn.__code__, {})[str(inst)] = fn
    for cell in fn.__closure__ or ():
        try:
            v = cell.cell_contents
        except ValueError:
            continue
        if isinstance(v, types.FunctionType):
            register_alts(inst, v, seen)


def free_value_alts(fn, name):
    """None when the free name denotes the same constant in every allowed instance of the form; else {instance: constant}.
    (A closure variable computed from the instance in __init__, e.g. other = 'spouse' if instance == 'you' else 'taxpayer'.)"""
    alts = CODE_ALTS.get(fn.__code__)
    if not alts or len(alts) < 2:
        return None
    simple = (int, float, str, bool, type(None), tuple, pyenum.Enum)
    vals = {inst: free_value(f, name) for inst, f in alts.items()}
    if not all(ok and isinstance(v, simple) for ok, v in vals.values()):
        return None
    first = next(iter(vals.values()))[1]
    if all(v == first and type(v) is type(first) for _, v in vals.values()):
        return None
    return {inst: v for inst, (_, v) in vals.items()}


BUILTIN_FN = {'sum': 'FSum', 'min': 'FMin', 'max': 'FMax', 'float': 'FFloat', 'str': 'FStr', 'len': 'FLen',
              'round': 'FRound', 'ceil': 'FCeil', 'list': 'FList', 'any': 'FAny'}
BOP = {ast.Add: 'OAdd', ast.Sub: 'OSub', ast.Mult: 'OMul', ast.Div: 'ODiv'}
COP = {ast.Gt: 'CGt', ast.GtE: 'CGe', ast.Lt: 'CLt', ast.LtE: 'CLe', ast.Eq: 'CEq', ast.NotEq: 'CNe',
       ast.Is: 'CIs', ast.IsNot: 'CIsNot', ast.In: 'CIn', ast.NotIn: 'CNotIn'}


class Tr(object):
    """translates one function (a line definition or an inlined helper)"""
    def __init__(self, fn, field_obj, enums, depth=0, refs=None):
        self.fn = fn
        self.field = field_obj
        self.enums = enums
        self.depth = depth
        self.path, self.node, self.lines = fn_node(fn)
        a = self.node.args
        names = [x.arg for x in a.args]
        if a.vararg or a.kwarg or a.kwonlyargs:
            self.fail(self.node, 'unsupported parameter list')
        self.params = names
        self.S = names[0] if names else None
        self.I = names[1] if len(names) > 1 else None
        self.V = names[2] if len(names) > 2 else None
        self.locals = set(names)
        self.refs = refs if refs is not None else []     # (kind, name parts, lineno)
        self.uses = {'mul': False, 'div': False, 'figure_tax': False}
        # defaults (n=n): constants bound at definition time
        self.consts = {}
        defaults = fn.__defaults__ or ()
        for nm, dv in zip(names[len(names) - len(defaults):], defaults):
            self.consts[nm] = dv

    def fail(self, node, msg):
        raise TranslateError('%s:%s: %s (%s)' % (self.path, getattr(node, 'lineno', '?'), msg, type(node).__name__))

    def seg(self, node):
        ln = self.lines[node.lineno - 1]
        if node.lineno == node.end_lineno:
            return ln.encode('utf8')[node.col_offset:node.end_col_offset].decode('utf8')
        return None

    # ------------------------------------------------------------- expressions
    def static_value(self, node):
        """(known, value) for an expression that denotes a definition-time constant / module object"""
        if isinstance(node, ast.Name):
            if node.id in self.consts:
                return True, self.consts[node.id]
            if node.id in self.locals:
                return False, None
            if free_value_alts(self.fn, node.id):
                return False, None          # instance dependent: not a definition-time constant of the line
            return free_value(self.fn, node.id)
        if isinstance(node, ast.Attribute):
            if isinstance(node.value, ast.Name) and node.value.id == self.S and self.field is not None:
                # attribute of the Field object itself (s.which_1099int)
                if node.attr in ('not_implemented', 'threshold', 'form', 'name', 'base_name'):
                    return False, None
                if hasattr(self.field, node.attr) and not callable(getattr(self.field, node.attr)):
                    return True, getattr(self.field, node.attr)
                return False, None
            ok, base = self.static_value(node.value)
            if not ok:
                return False, None
            if isinstance(base, (types.ModuleType, type)) or isinstance(base, pyenum.Enum):
                try:
                    return True, getattr(base, node.attr)
                except AttributeError:
                    return True, AttributeError(node.attr)
            return False, None
        return False, None

    def name_parts(self, node):
        """key expression of v[...] / i[...] -> list of NLit / NExp"""
        if isinstance(node, ast.Constant) and isinstance(node.value, str):
            return [('lit', node.value)]
        if isinstance(node, ast.JoinedStr):
            parts = []
            for p in node.values:
                if isinstance(p, ast.Constant):
                    parts.append(('lit', p.value))
                elif isinstance(p, ast.FormattedValue):
                    if p.format_spec is not None or p.conversion != -1:
                        self.fail(p, 'format specification in a name')
                    ok, val = self.static_value(p.value)
                    if ok and isinstance(val, (int, str)) and not isinstance(val, bool):
                        parts.append(('lit', str(val)))
                    else:
                        parts.append(('exp', self.expr(p.value)))
                else:
                    self.fail(p, 'unsupported f-string part')
            merged = []
            for k, v in parts:
                if k == 'lit' and merged and merged[-1][0] == 'lit':
                    merged[-1] = ('lit', merged[-1][1] + v)
                else:
                    merged.append((k, v))
            return merged
        return [('exp', self.expr(node))]

    def emit_parts(self, parts):
        return clist(['(NLit %s)' % cstr(v) if k == 'lit' else '(NExp %s)' % v for k, v in parts])

    def expr(self, n):
        if isinstance(n, ast.Constant):
            if isinstance(n.value, float):
                s = self.seg(n)
                return '(EConst (PNum %s))' % cq(s.replace('_', '') if s else repr(n.value))
            return '(EConst %s)' % const_pv(n.value, self.enums)
        if isinstance(n, ast.Name):
            if n.id in self.consts:
                return '(EConst %s)' % const_pv(self.consts[n.id], self.enums)
            if n.id in self.locals:
                return '(EVar %s)' % cstr(n.id)
            alts = free_value_alts(self.fn, n.id)
            if alts:
                # the constant depends on the instance of the form: a table indexed by the instance
                items = ['(EConst (PStr %s), EConst %s)' % (cstr(inst), const_pv(v, self.enums)) for inst, v in sorted(alts.items())]
                return '(EIndexE (EDict %s) EInstance)' % clist(items)
            ok, val = free_value(self.fn, n.id)
            if ok and isinstance(val, (int, float, str, bool, type(None), tuple, pyenum.Enum)):
                return '(EConst %s)' % const_pv(val, self.enums)
            self.fail(n, 'free name %r is not a constant' % n.id)
        if isinstance(n, ast.Attribute):
            ok, val = self.static_value(n)
            if ok:
                if isinstance(val, AttributeError):
                    self.refs.append(('attrerr', [('lit', self.seg(n) or n.attr)], n.lineno))
                    return '(EAttrErr %s)' % cstr(self.seg(n) or n.attr)
                if isinstance(val, (int, float, str, bool, type(None), tuple, pyenum.Enum)):
                    return '(EConst %s)' % const_pv(val, self.enums)
            self.fail(n, 'unsupported attribute access %s' % (self.seg(n),))
        if isinstance(n, ast.Subscript):
            if isinstance(n.value, ast.Name) and n.value.id in (self.V, self.I) and n.value.id is not None:
                kind = 'RV' if n.value.id == self.V else 'RI'
                parts = self.name_parts(n.slice)
                self.refs.append((kind, parts, n.lineno))
                return '(ERead %s %s)' % (kind, self.emit_parts(parts))
            if isinstance(n.slice, ast.Slice):
                def bound(b):
                    if b is None:
                        return 'None'
                    if isinstance(b, ast.Constant) and isinstance(b.value, int):
                        return '(Some %s)' % cz(b.value)
                    if isinstance(b, ast.UnaryOp) and isinstance(b.op, ast.USub) and isinstance(b.operand, ast.Constant):
                        return '(Some %s)' % cz(-b.operand.value)
                    self.fail(b, 'non-constant slice bound')
                if n.slice.step is not None:
                    self.fail(n, 'slice step')
                return '(ESlice %s %s %s)' % (self.expr(n.value), bound(n.slice.lower), bound(n.slice.upper))
            idx = n.slice
            if not isinstance(idx, (ast.Constant, ast.UnaryOp)):
                return '(EIndexE %s %s)' % (self.expr(n.value), self.expr(idx))
            if isinstance(idx, ast.Constant) and isinstance(idx.value, int):
                return '(EIndex %s %s)' % (self.expr(n.value), cz(idx.value))
            if isinstance(idx, ast.UnaryOp) and isinstance(idx.op, ast.USub) and isinstance(idx.operand, ast.Constant):
                return '(EIndex %s %s)' % (self.expr(n.value), cz(-idx.operand.value))
            self.fail(n, 'unsupported subscript')
        if isinstance(n, ast.BinOp):
            if type(n.op) not in BOP:
                self.fail(n, 'unsupported binary operator')
            if isinstance(n.op, ast.Mult):
                self.uses['mul'] = True
            if isinstance(n.op, ast.Div):
                self.uses['div'] = True
            return '(EBin %s %s %s)' % (BOP[type(n.op)], self.expr(n.left), self.expr(n.right))
        if isinstance(n, ast.UnaryOp):
            if isinstance(n.op, ast.Not):
                return '(ENot %s)' % self.expr(n.operand)
            if isinstance(n.op, ast.USub):
                if isinstance(n.operand, ast.Constant) and isinstance(n.operand.value, (int, float)):
                    s = self.seg(n.operand)
                    if isinstance(n.operand.value, float):
                        return '(EConst (PNum %s))' % cq('-' + s)
                    return '(EConst (PInt %s))' % cz(-n.operand.value)
                return '(ENeg %s)' % self.expr(n.operand)
            self.fail(n, 'unsupported unary operator')
        if isinstance(n, ast.BoolOp):
            vals = [self.expr(v) for v in n.values]
            ctor = 'EAnd' if isinstance(n.op, ast.And) else 'EOr'
            out = vals[-1]
            for v in reversed(vals[:-1]):
                out = '(%s %s %s)' % (ctor, v, out)
            return out
        if isinstance(n, ast.Compare):
            if len(n.ops) != 1 or type(n.ops[0]) not in COP:
                self.fail(n, 'unsupported comparison')
            return '(ECmp %s %s %s)' % (COP[type(n.ops[0])], self.expr(n.left), self.expr(n.comparators[0]))
        if isinstance(n, ast.IfExp):
            return '(EIf %s %s %s)' % (self.expr(n.test), self.expr(n.body), self.expr(n.orelse))
        if isinstance(n, ast.Tuple):
            return '(ETuple %s)' % clist([self.expr(e) for e in n.elts])
        if isinstance(n, ast.List):
            return '(EList %s)' % clist([self.expr(e) for e in n.elts])
        if isinstance(n, ast.JoinedStr):
            parts = self.name_parts(n)
            return '(EFStr %s)' % self.emit_parts(parts)
        if isinstance(n, ast.Dict):
            if any(k is None for k in n.keys):
                self.fail(n, 'dict unpacking')
            return '(EDict %s)' % clist(['(%s, %s)' % (self.expr(k), self.expr(v)) for k, v in zip(n.keys, n.values)])
        if isinstance(n, (ast.ListComp, ast.GeneratorExp)):
            if len(n.generators) != 1:
                self.fail(n, 'nested comprehension')
            g = n.generators[0]
            if not isinstance(g.target, ast.Name) or g.is_async:
                self.fail(n, 'unsupported comprehension target')
            src = self.iter_src(g.iter)
            saved = set(self.locals)
            shadow = self.consts.pop(g.target.id, None)
            self.locals.add(g.target.id)
            cond = None
            if g.ifs:
                c = [self.expr(x) for x in g.ifs]
                cond = c[-1]
                for x in reversed(c[:-1]):
                    cond = '(EAnd %s %s)' % (x, cond)
            body = self.expr(n.elt)
            self.locals = saved
            if shadow is not None:
                self.consts[g.target.id] = shadow
            return '(EComp %s %s %s %s)' % (body, cstr(g.target.id), src, copt(cond))
        if isinstance(n, ast.Call):
            return self.call(n)
        self.fail(n, 'unsupported expression')

    def static_seq(self, n):
        """(ok, python list) for an iteration source built only from constants, range() and list concatenation"""
        if isinstance(n, ast.Constant) and isinstance(n.value, str):
            return True, list(n.value)
        if isinstance(n, (ast.List, ast.Tuple)):
            out = []
            for e in n.elts:
                if isinstance(e, ast.Constant) and isinstance(e.value, (int, str)) and not isinstance(e.value, bool):
                    out.append(e.value)
                else:
                    return False, None
            return True, out
        if isinstance(n, ast.Call) and isinstance(n.func, ast.Name) and not n.keywords:
            if n.func.id == 'range' and 1 <= len(n.args) <= 2:
                vals = []
                for a in n.args:
                    ok, v = self.fold_int(a)
                    if not ok:
                        return False, None
                    vals.append(v)
                return True, list(range(*vals))
            if n.func.id == 'list' and len(n.args) == 1:
                return self.static_seq(n.args[0])
        if isinstance(n, ast.BinOp) and isinstance(n.op, ast.Add):
            o1, a = self.static_seq(n.left)
            o2, b = self.static_seq(n.right)
            if o1 and o2:
                return True, a + b
        return False, None

    def iter_src(self, it):
        ok, seq = self.static_seq(it)
        if ok:
            return '(EConst (PList %s))' % clist([const_pv(x, self.enums) for x in seq])
        if isinstance(it, ast.Call) and isinstance(it.func, ast.Name) and it.func.id == 'range' and not it.keywords:
            if len(it.args) == 1:
                return '(ERange %s)' % self.expr(it.args[0])
            if len(it.args) == 2:
                vals = []
                for a in it.args:
                    ok, v = self.fold_int(a)
                    if not ok:
                        self.fail(it, 'two-argument range with non-constant bounds')
                    vals.append(v)
                return '(EConst (PList %s))' % clist(['(PInt %s)' % cz(k) for k in range(vals[0], vals[1])])
            self.fail(it, 'unsupported range()')
        return self.expr(it)

    def fold_int(self, a):
        if isinstance(a, ast.Constant) and isinstance(a.value, int) and not isinstance(a.value, bool):
            return True, a.value
        if isinstance(a, ast.BinOp) and isinstance(a.op, (ast.Add, ast.Sub, ast.Mult)):
            o1, x = self.fold_int(a.left)
            o2, y = self.fold_int(a.right)
            if o1 and o2:
                return True, (x + y if isinstance(a.op, ast.Add) else (x - y if isinstance(a.op, ast.Sub) else x * y))
            return False, None
        ok, v = self.static_value(a)
        if ok and isinstance(v, int) and not isinstance(v, bool):
            return True, v
        return False, None

    def is_self(self, n):
        return isinstance(n, ast.Name) and n.id == self.S

    def call(self, n):
        f = n.func
        # --- methods on the field object
        if isinstance(f, ast.Attribute) and self.is_self(f.value):
            if f.attr == 'not_implemented':
                return 'EUnimpl'
            if f.attr == 'threshold':
                return self.threshold(None, n)
            if f.attr in ('form', 'name', 'base_name'):
                self.fail(n, 'bare %s() call' % f.attr)
            self.refs.append(('attrerr', [('lit', '%s.%s' % (self.S, f.attr))], n.lineno))
            return '(EAttrErr %s)' % cstr('%s.%s' % (self.S, f.attr))
        if isinstance(f, ast.Attribute) and isinstance(f.value, ast.Call) and isinstance(f.value.func, ast.Attribute) \
                and self.is_self(f.value.func.value) and f.value.func.attr == 'form':
            inner = f.value
            if f.attr == 'instance' and not inner.args and not n.args:
                return 'EInstance'
            if f.attr == 'threshold' and len(inner.args) == 1 and isinstance(inner.args[0], ast.Constant):
                self.refs.append(('form', [('lit', inner.args[0].value)], n.lineno))
                return self.threshold(inner.args[0].value, n)
            self.fail(n, 'unsupported use of .form()')
        # --- string / list methods
        if isinstance(f, ast.Attribute):
            if f.attr == 'upper' and not n.args:
                return '(ECall FUpper %s)' % clist([self.expr(f.value)])
            if f.attr == 'strip' and not n.args:
                return '(ECall FStrip %s)' % clist([self.expr(f.value)])
            if f.attr == 'join' and len(n.args) == 1 and isinstance(f.value, ast.Constant) and isinstance(f.value.value, str):
                return '(ECall (FJoin %s) %s)' % (cstr(f.value.value), clist([self.expr(n.args[0])]))
            # a captured object that is not the field (the f8606 defect: `self` is the Form)
            ok, val = self.static_value(f.value)
            if ok and not hasattr(val, f.attr):
                self.refs.append(('attrerr', [('lit', self.seg(f) or f.attr)], n.lineno))
                return '(EAttrErr %s)' % cstr(self.seg(f) or f.attr)
            self.fail(n, 'unsupported method call .%s()' % f.attr)
        if not isinstance(f, ast.Name):
            self.fail(n, 'unsupported call target')
        if n.keywords:
            self.fail(n, 'keyword arguments in call to %s' % f.id)
        if f.id in self.locals:
            self.fail(n, 'call of a local value')
        if f.id == 'range':
            return self.iter_src(n)
        ok, target = free_value(self.fn, f.id)
        if f.id in BUILTIN_FN and (not ok or getattr(target, '__module__', '') in ('builtins', 'math')):
            args = n.args
            # arities the model implements; anything else fails closed rather than being mis-read
            arity = {'sum': (1, 2), 'float': (1, 1), 'str': (1, 1), 'len': (1, 1), 'any': (1, 1), 'list': (1, 1), 'round': (1, 2), 'ceil': (1, 1)}.get(f.id)
            if arity is not None and not (arity[0] <= len(args) <= arity[1]):
                self.fail(n, 'call of %s with %d arguments' % (f.id, len(args)))
            if f.id == 'sum' and len(args) == 2:
                # sum(iterable, start) = start + the items (exact arithmetic in the model: the order of additions does not matter)
                return '(EBin OAdd %s (ECall FSum %s))' % (self.expr(args[1]), clist([self.expr(args[0])]))
            if f.id in ('sum', 'any', 'list', 'min', 'max') and len(args) == 1 and isinstance(args[0], ast.GeneratorExp):
                return '(ECall %s %s)' % (BUILTIN_FN[f.id], clist([self.expr(args[0])]))
            return '(ECall %s %s)' % (BUILTIN_FN[f.id], clist([self.expr(a) for a in args]))
        if ok and isinstance(target, types.FunctionType):
            if target.__name__ == 'figure_tax':
                self.uses['figure_tax'] = True
                return '(ECall FFigureTax %s)' % clist([self.expr(a) for a in n.args])
            return self.inline(target, n)
        self.fail(n, 'call of unsupported function %r' % f.id)

    def threshold(self, form, n):
        if not n.args:
            self.fail(n, 'threshold() without a name')
        nparts = self.name_parts(n.args[0])
        key = None
        if len(n.args) == 2:
            key = self.expr(n.args[1])
        elif len(n.args) > 2:
            self.fail(n, 'threshold() with too many arguments')
        for kw in n.keywords:
            if kw.arg == 'requested_key':
                key = self.expr(kw.value)
            else:
                self.fail(n, 'unsupported keyword for threshold()')
        self.refs.append(('threshold', [('lit', (form or '') + '|')] + nparts, n.lineno))
        return '(EThreshold %s %s %s)' % (copt(cstr(form)) if form else 'None', self.emit_parts(nparts), copt(key))

    def inline(self, target, n):
        if self.depth > 6:
            self.fail(n, 'helper nesting too deep')
        sub = Tr(target, self.field, self.enums, self.depth + 1, self.refs)
        if len(n.args) != len(sub.params):
            # defaults of the helper cover the rest
            if len(n.args) > len(sub.params) or len(sub.params) - len(n.args) > len(target.__defaults__ or ()):
                self.fail(n, 'helper %s called with %d arguments, takes %d' % (target.__name__, len(n.args), len(sub.params)))
        binds = []
        for pname, arg in zip(sub.params, n.args):
            # S/I/V must be passed through unchanged, everything else is a value parameter
            if isinstance(arg, ast.Name) and arg.id in (self.S, self.I, self.V) and arg.id is not None:
                role = 'S' if arg.id == self.S else ('I' if arg.id == self.I else 'V')
                if role == 'S':
                    sub.S = pname
                elif role == 'I':
                    sub.I = pname
                else:
                    sub.V = pname
                continue
            sub.consts.pop(pname, None)
            binds.append('(%s, %s)' % (cstr(pname), self.expr(arg)))
        # parameters of the helper that did not receive S/I/V keep no role
        passed = [a.id for a in n.args if isinstance(a, ast.Name)]
        if sub.S is not None and self.S not in passed:
            sub.S = None
        if sub.I is not None and (self.I not in passed):
            sub.I = None
        if sub.V is not None and (self.V not in passed):
            sub.V = None
        body = sub.body()
        for k in self.uses:
            self.uses[k] = self.uses[k] or sub.uses[k]
        return '(EBlock %s %s)' % (clist(binds), body)

    # ------------------------------------------------------------- statements
    def body(self):
        if isinstance(self.node, ast.Lambda):
            return clist(['(SReturn %s)' % self.expr(self.node.body)])
        return self.stmts(self.node.body)

    def stmts(self, lst):
        out = []
        for s in lst:
            r = self.stmt(s)
            if r is not None:
                out.append(r)
        return clist(out)

    def stmt(self, s):
        if isinstance(s, ast.Expr):
            if isinstance(s.value, ast.Constant) and isinstance(s.value.value, str):
                return None     # docstring
            v = s.value
            if isinstance(v, ast.Call) and isinstance(v.func, ast.Attribute) and v.func.attr == 'append' \
                    and isinstance(v.func.value, ast.Name) and v.func.value.id in self.locals and len(v.args) == 1:
                return '(SAppend %s %s)' % (cstr(v.func.value.id), self.expr(v.args[0]))
            return '(SExpr %s)' % self.expr(v)
        if isinstance(s, ast.Assign):
            if len(s.targets) != 1:
                self.fail(s, 'chained assignment')
            t = s.targets[0]
            if isinstance(t, ast.Name):
                ok, val = self.static_value(s.value)
                if ok and isinstance(val, (type, types.ModuleType)):
                    self.consts[t.id] = val          # alias of a class/module (statuses = enum.filing_status)
                    return None
                e = self.expr(s.value)
                self.locals.add(t.id)
                self.consts.pop(t.id, None)
                return '(SAssign %s %s)' % (cstr(t.id), e)
            if isinstance(t, ast.Tuple) and all(isinstance(x, ast.Name) for x in t.elts):
                e = self.expr(s.value)
                for x in t.elts:
                    self.locals.add(x.id)
                    self.consts.pop(x.id, None)
                return '(STupleAssign %s %s)' % (clist([cstr(x.id) for x in t.elts]), e)
            self.fail(s, 'unsupported assignment target')
        if isinstance(s, ast.AugAssign):
            if not isinstance(s.target, ast.Name) or type(s.op) not in BOP:
                self.fail(s, 'unsupported augmented assignment')
            if isinstance(s.op, ast.Mult):
                self.uses['mul'] = True
            if isinstance(s.op, ast.Div):
                self.uses['div'] = True
            return '(SAug %s %s %s)' % (cstr(s.target.id), BOP[type(s.op)], self.expr(s.value))
        if isinstance(s, ast.If):
            c = self.expr(s.test)
            return '(SIf %s %s %s)' % (c, self.stmts(s.body), self.stmts(s.orelse))
        if isinstance(s, ast.For):
            if s.orelse:
                self.fail(s, 'for/else')
            src = self.iter_src(s.iter)
            if isinstance(s.target, ast.Tuple) and all(isinstance(x, ast.Name) for x in s.target.elts):
                for x in s.target.elts:
                    self.locals.add(x.id)
                    self.consts.pop(x.id, None)
                inner = self.stmts(s.body)
                unpack = '(STupleAssign %s (EVar "_it"))' % clist([cstr(x.id) for x in s.target.elts])
                return '(SFor "_it" %s (%s :: %s))' % (src, unpack, inner)
            if not isinstance(s.target, ast.Name):
                self.fail(s, 'unsupported for loop target')
            self.locals.add(s.target.id)
            self.consts.pop(s.target.id, None)
            return '(SFor %s %s %s)' % (cstr(s.target.id), src, self.stmts(s.body))
        if isinstance(s, ast.Return):
            return '(SReturn %s)' % (self.expr(s.value) if s.value is not None else '(EConst PNone)')
        if isinstance(s, ast.Continue):
            return 'SContinue'
        if isinstance(s, ast.Break):
            return 'SBreak'
        if isinstance(s, ast.Pass):
            return None
        if isinstance(s, ast.Assert):
            return '(SAssert %s)' % self.expr(s.test)
        self.fail(s, 'unsupported statement')


# --------------------------------------------------------------------------- introspection
def field_type(f, H, enums):
    F = H['fields']
    t = type(f)
    if t is F.StringField:
        return 'TStr', 'str'
    if t is F.BooleanField:
        return 'TBool', 'bool'
    if t is F.IntegerField:
        return 'TInt', 'int'
    if t is F.FloatField:
        return '(TFloat %s)' % cz(f._places), 'float:%d' % f._places
    if t is F.EnumField:
        return '(TEnum %s)' % cstr(enums.name_of(f.enum())), 'enum:%s' % enums.name_of(f.enum())
    raise TranslateError('unknown field class %s for %s' % (t.__name__, f.name()))


def instances_of(cls):
    vi = getattr(cls, 'valid_instances', None)
    if vi:
        return list(vi)
    return [None]


def introspect_year(H, year):
    """facts about the year's catalogue; never raises for a single bad class: records ctor_error instead"""
    enums = Enums(H['enum'])
    out = {'year': year, 'forms': [], 'enums': {}}
    classes = H['forms'].available_forms[year]
    numeric = {}   # classes instantiated with numeric instances: detected from 'number_<name>' inputs of 1040
    for cls in classes:
        rec = {'class': cls.__name__, 'name': getattr(cls, 'form_name', None), 'module': cls.__module__,
               'tax_year': getattr(cls, 'tax_year', None),
               'description': getattr(cls, 'description', None), 'long_description': getattr(cls, 'long_description', None),
               'jurisdiction': getattr(getattr(cls, 'jurisdiction', None), 'name', None),
               'sequence_no': getattr(cls, 'sequence_no', None),
               'valid_instances': list(getattr(cls, 'valid_instances', []) or []), 'instances': {}}
        for inst in instances_of(cls) + (['0', '1'] if not getattr(cls, 'valid_instances', None) else []):
            try:
                obj = cls(instance=inst)
                irec = {'inputs': [], 'lines': [], 'thresholds': sorted(obj._thresholds.keys()) if isinstance(obj._thresholds, dict) else None,
                        'pdf_file': obj.pdf_file(), 'n_pdf_fields': len(obj.pdf_fields()), 'obj': obj}
                for i in obj.inputs():
                    d = {'name': i.base_name(), 'cls': type(i).__name__}
                    if isinstance(vars(i).get('enum'), type):
                        d['enum'] = enums.name_of(i.enum)
                        d['members'] = list(i.enum.__members__.keys())
                        d['allow_empty'] = bool(i.allow_empty)
                    if '_regex_str' in vars(i):
                        d['regex'] = i._regex_str
                    d['help'] = i.help()
                    irec['inputs'].append(d)
                req = set(id(f) for f in obj.required_fields())
                for f in obj.fields():
                    irec['lines'].append({'name': f.base_name(), 'cls': type(f).__name__,
                                          'type': field_type(f, H, enums)[1], 'required': id(f) in req})
                rec['instances'][str(inst)] = irec
            except Exception as e:  # noqa
                rec['instances'][str(inst)] = {'ctor_error': '%s: %s' % (type(e).__name__, e)}
        out['forms'].append(rec)
    out['_enums'] = enums
    return out


def translate_year(H, year):
    """returns (coq_text, summary dict).  Raises TranslateError on anything outside the subset."""
    enums = Enums(H['enum'])
    classes = H['forms'].available_forms[year]
    forms_txt = []
    summary = {'year': year, 'forms': {}}
    for cls in classes:
        inst0 = instances_of(cls)[0]
        obj = cls(instance=inst0)
        # the same class must declare the same lines for every allowed instance (bodies may use the instance)
        sig0 = [(f.base_name(), type(f).__name__) for f in obj.fields()]
        for other in instances_of(cls)[1:]:
            o2 = cls(instance=other)
            if [(f.base_name(), type(f).__name__) for f in o2.fields()] != sig0:
                raise TranslateError('%s: lines differ between instances %r and %r' % (cls.__name__, inst0, other))
        req = set(id(f) for f in obj.required_fields())
        if getattr(cls, 'valid_instances', None):
            for other in instances_of(cls):
                for f2 in (obj if other == inst0 else cls(instance=other)).fields():
                    register_alts(other, f2._value.__func__)
        lines_txt = []
        fsum = {'lines': {}, 'inputs': {}, 'thresholds': {}, 'instance0': inst0,
                'valid_instances': list(getattr(cls, 'valid_instances', []) or [])}
        for f in obj.fields():
            tr = Tr(f._value.__func__, f, enums)
            body = tr.body()
            ty, tys = field_type(f, H, enums)
            lines_txt.append('    Line %s %s %s\n      %s' % (cstr(f.base_name()), ty, 'true' if id(f) in req else 'false', body))
            fsum['lines'][f.base_name()] = {
                'type': tys, 'required': id(f) in req, 'file': tr.path, 'lineno': tr.node.lineno,
                'refs': [(k, [(a, b if a == 'lit' else '*') for a, b in parts], ln) for (k, parts, ln) in tr.refs],
                'uses': dict(tr.uses)}
        inputs_txt = []
        for i in obj.inputs():
            inputs_txt.append('(%s, %s)' % (cstr(i.base_name()), cstr(type(i).__name__)))
            d = {'cls': type(i).__name__}
            if isinstance(vars(i).get('enum'), type):
                d['enum'] = enums.name_of(i.enum)
                d['members'] = list(i.enum.__members__.keys())
                d['allow_empty'] = bool(i.allow_empty)
            d['help'] = i.help()
            fsum['inputs'][i.base_name()] = d
        th_txt = []
        for name, t in (obj._thresholds or {}).items():
            if isinstance(t, dict):
                rows = []
                for k, val in t.items():
                    keys = list(k) if isinstance(k, tuple) else [k]
                    rows.append('(%s, %s)' % (clist([const_pv(x, enums) for x in keys]), const_pv(val, enums)))
                th_txt.append('Threshold %s None %s' % (cstr(name), clist(rows)))
                fsum['thresholds'][name] = {'table': [([getattr(x, 'name', x) for x in (list(k) if isinstance(k, tuple) else [k])],
                                                       val if not isinstance(val, pyenum.Enum) else val.name) for k, val in t.items()]}
            else:
                th_txt.append('Threshold %s (Some %s) []' % (cstr(name), const_pv(t, enums)))
                fsum['thresholds'][name] = {'scalar': t}
        forms_txt.append('  Form %s\n   %s\n   [\n%s\n   ]\n   %s' % (
            cstr(cls.form_name), clist(inputs_txt), ';\n'.join(lines_txt), clist(th_txt)))
        summary['forms'][cls.form_name] = fsum
    summary['enums'] = {k: list(v.__members__.keys()) for k, v in enums.names.items()}
    text = ('(* GENERATED by tools/gen_forms.py from habutax/forms/ty%d - do not edit *)\n'
            'From Coq Require Import ZArith QArith List String.\nFrom HV Require Import Forms.\nImport ListNotations.\n'
            'Open Scope string_scope.\n\nDefinition cat : catalogue := [\n%s\n].\n') % (year, ';\n'.join(forms_txt))
    return text, summary
