#!/bin/bash
# usage: goal.sh File.v LINE  -> prints the goal just before LINE (must be a sentence boundary inside a proof)
f=$1; n=$2
head -n $((n-1)) $f > /tmp/_goal.v
echo "Show. Abort." >> /tmp/_goal.v
cd $(dirname $f) && coqtop -q -Q /verif/coq HV -batch -load-vernac-source /tmp/_goal.v 2>&1 | tail -${3:-40}
