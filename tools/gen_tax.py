"""Translator for habutax/forms/ty<year>/f1040_figure_tax.py -> Gen/Tax<year>.v (a [taxcfg]).

Fail-closed: any shape it does not recognise raises TranslateError naming file/line/node.
Reads the *source text* with `ast` (never imports it), so what is modelled is what is written.
"""
import ast
import sys
from decimal import Decimal

STATUS_INDEX = {
    'Single': 0, 'MarriedFilingJointly': 1, 'MarriedFilingSeparately': 2, 'HeadOfHousehold': 3,
    'QualifyingWidowWidower': 4, 'QualifyingSurvivingSpouse': 4,
}


_LINES = {}


class TranslateError(Exception):
    pass


def fail(path, node, msg):
    raise TranslateError('%s:%s: %s (%s)' % (path, getattr(node, 'lineno', '?'), msg,
                                             type(node).__name__))


def const_num(path, src, node):
    """numeric literal -> Decimal from its source text (handles unary minus)"""
    if isinstance(node, ast.UnaryOp) and isinstance(node.op, ast.USub):
        return -const_num(path, src, node.operand)
    if isinstance(node, ast.Constant) and isinstance(node.value, (int, float)) and not isinstance(node.value, bool):
        lines = _LINES.get(src)
        if lines is None:
            _LINES.clear()
            lines = _LINES.setdefault(src, src.split('\n'))
        if node.lineno == node.end_lineno:
            seg = lines[node.lineno - 1].encode('utf8')[node.col_offset:node.end_col_offset].decode('utf8')
        else:
            seg = ast.get_source_segment(src, node)
        try:
            return Decimal(seg.replace('_', ''))
        except Exception:
            fail(path, node, 'numeric literal %r not decimal' % seg)
    fail(path, node, 'expected numeric literal')


def is_name(n, name):
    return isinstance(n, ast.Name) and n.id == name


def row_index(path, n, rowvar):
    if isinstance(n, ast.Subscript) and is_name(n.value, rowvar):
        s = n.slice
        if isinstance(s, ast.Constant) and isinstance(s.value, int):
            return s.value
    return None


FLIP = {ast.GtE: ast.LtE, ast.Gt: ast.Lt, ast.LtE: ast.GtE, ast.Lt: ast.Gt}


def one_cmp(path, n, amount, rowvar):
    """Compare(amount op row[i]) (either operand order) -> (kind, opname, idx)"""
    if not (isinstance(n, ast.Compare) and len(n.ops) == 1):
        fail(path, n, 'expected a single comparison')
    l, op, r = n.left, type(n.ops[0]), n.comparators[0]
    if is_name(r, amount):
        if op not in FLIP:
            fail(path, n, 'unsupported comparison operator')
        l, r, op = r, l, FLIP[op]
    if not is_name(l, amount):
        fail(path, n, 'comparison does not involve the amount')
    idx = row_index(path, r, rowvar)
    if op in (ast.GtE, ast.Gt):
        return ('lo', 'Ge' if op is ast.GtE else 'Gt', idx, r)
    if op in (ast.Lt, ast.LtE):
        return ('hi', 'Lt' if op is ast.Lt else 'Le', idx, r)
    fail(path, n, 'unsupported comparison operator')


def translate(path):
    with open(path) as f:
        src = f.read()
    tree = ast.parse(src)
    glob = {}
    funcs = {}
    for node in tree.body:
        if isinstance(node, ast.Assign) and len(node.targets) == 1 and isinstance(node.targets[0], ast.Name):
            glob[node.targets[0].id] = node.value
        elif isinstance(node, ast.FunctionDef):
            funcs[node.name] = node
    for need in ('TAX_TABLE', 'TAX_WORKSHEET_VALUES'):
        if need not in glob:
            raise TranslateError('%s: %s not found' % (path, need))
    for need in ('figure_tax_table', 'figure_tax_worksheet', 'figure_tax'):
        if need not in funcs:
            raise TranslateError('%s: def %s not found' % (path, need))

    # ---- data
    def tuple_items(n):
        if not isinstance(n, (ast.Tuple, ast.List)):
            fail(path, n, 'expected tuple literal')
        return n.elts

    table = []
    for r in tuple_items(glob['TAX_TABLE']):
        vals = [const_num(path, src, e) for e in tuple_items(r)]
        for v in vals:
            if v != v.to_integral_value():
                fail(path, r, 'non-integer tax table entry')
        table.append([int(v) for v in vals])
    wk = []
    for blk in tuple_items(glob['TAX_WORKSHEET_VALUES']):
        rows = []
        for r in tuple_items(blk):
            vals = [const_num(path, src, e) for e in tuple_items(r)]
            rows.append(vals)
        wk.append(rows)

    cfg = {'table': table}

    # ---- figure_tax_table(amount, col)
    fn = funcs['figure_tax_table']
    amount, colv = [a.arg for a in fn.args.args]
    body = [s for s in fn.body if not (isinstance(s, ast.Expr) and isinstance(s.value, ast.Constant))]
    if not (len(body) == 2 and isinstance(body[0], ast.For) and isinstance(body[1], ast.Assert)):
        fail(path, fn, 'figure_tax_table: expected `for` then `assert False`')
    loop = body[0]
    if not (is_name(loop.iter, 'TAX_TABLE') and isinstance(loop.target, ast.Name) and not loop.orelse):
        fail(path, loop, 'figure_tax_table: loop must iterate TAX_TABLE')
    rowv = loop.target.id
    if not (len(loop.body) == 1 and isinstance(loop.body[0], ast.If) and not loop.body[0].orelse):
        fail(path, loop, 'figure_tax_table: loop body must be one `if`')
    iff = loop.body[0]
    if not (isinstance(iff.test, ast.BoolOp) and isinstance(iff.test.op, ast.And) and len(iff.test.values) == 2):
        fail(path, iff, 'figure_tax_table: condition must be a two-sided `and`')
    got = {}
    for c in iff.test.values:
        kind, op, idx, _ = one_cmp(path, c, amount, rowv)
        got[kind] = (op, idx)
    if set(got) != {'lo', 'hi'} or got['lo'][1] != 0 or got['hi'][1] != 1:
        fail(path, iff, 'figure_tax_table: condition must bound the amount by row[0] and row[1]')
    cfg['tab_lo'], cfg['tab_hi'] = got['lo'][0], got['hi'][0]
    if not (len(iff.body) == 1 and isinstance(iff.body[0], ast.Return)):
        fail(path, iff, 'figure_tax_table: `if` body must be a return')
    rv = iff.body[0].value
    if isinstance(rv, ast.Call) and is_name(rv.func, 'float') and len(rv.args) == 1:
        rv = rv.args[0]
    if not (isinstance(rv, ast.Subscript) and is_name(rv.value, rowv) and is_name(rv.slice, colv)):
        fail(path, iff.body[0], 'figure_tax_table: must return row[column]')

    # ---- figure_tax_worksheet(amount, idx)
    fn = funcs['figure_tax_worksheet']
    amount, idxv = [a.arg for a in fn.args.args]
    body = [s for s in fn.body if not (isinstance(s, ast.Expr) and isinstance(s.value, ast.Constant))]
    first_var = None
    if body and isinstance(body[0], ast.Assign) and isinstance(body[0].value, ast.Constant) and body[0].value.value is True:
        first_var = body[0].targets[0].id
        body = body[1:]
    if not (len(body) == 2 and isinstance(body[0], ast.For) and isinstance(body[1], ast.Assert)):
        fail(path, fn, 'figure_tax_worksheet: expected `for` then `assert False`')
    loop = body[0]
    it = loop.iter
    if not (isinstance(it, ast.Subscript) and is_name(it.value, 'TAX_WORKSHEET_VALUES')
            and isinstance(it.slice, ast.BinOp) and isinstance(it.slice.op, ast.Sub)
            and is_name(it.slice.left, idxv) and isinstance(it.slice.right, ast.Constant)
            and isinstance(it.slice.right.value, int)):
        fail(path, loop, 'figure_tax_worksheet: loop must iterate TAX_WORKSHEET_VALUES[index - k]')
    cfg['wk_off'] = it.slice.right.value
    rowv = loop.target.id
    stmts = list(loop.body)
    lo_first = lo_rest = hi = None
    meets_var = None
    if first_var is not None:
        # meets = A if first_row else B ; if meets and C: return ... ; first_row = False
        if not (len(stmts) == 3 and isinstance(stmts[0], ast.Assign) and isinstance(stmts[0].value, ast.IfExp)
                and is_name(stmts[0].value.test, first_var) and isinstance(stmts[1], ast.If)
                and isinstance(stmts[2], ast.Assign) and is_name(stmts[2].targets[0], first_var)
                and isinstance(stmts[2].value, ast.Constant) and stmts[2].value.value is False):
            fail(path, loop, 'figure_tax_worksheet: unrecognised first-row shape')
        meets_var = stmts[0].targets[0].id
        k1, op1, i1, _ = one_cmp(path, stmts[0].value.body, amount, rowv)
        k2, op2, i2, _ = one_cmp(path, stmts[0].value.orelse, amount, rowv)
        if not (k1 == k2 == 'lo' and i1 == i2 == 0):
            fail(path, stmts[0], 'figure_tax_worksheet: lower bound must compare with row[0]')
        lo_first, lo_rest = op1, op2
        iff = stmts[1]
        t = iff.test
        if not (isinstance(t, ast.BoolOp) and isinstance(t.op, ast.And) and len(t.values) == 2
                and is_name(t.values[0], meets_var)):
            fail(path, iff, 'figure_tax_worksheet: condition must be `meets_lower_bound and ...`')
        k3, op3, i3, _ = one_cmp(path, t.values[1], amount, rowv)
        if not (k3 == 'hi' and i3 == 1):
            fail(path, iff, 'figure_tax_worksheet: upper bound must compare with row[1]')
        hi = op3
    else:
        if not (len(stmts) == 1 and isinstance(stmts[0], ast.If)):
            fail(path, loop, 'figure_tax_worksheet: loop body must be one `if`')
        iff = stmts[0]
        t = iff.test
        if not (isinstance(t, ast.BoolOp) and isinstance(t.op, ast.And) and len(t.values) == 2):
            fail(path, iff, 'figure_tax_worksheet: condition must be a two-sided `and`')
        got = {}
        for c in t.values:
            kind, op, idx, _ = one_cmp(path, c, amount, rowv)
            got[kind] = (op, idx)
        if set(got) != {'lo', 'hi'} or got['lo'][1] != 0 or got['hi'][1] != 1:
            fail(path, iff, 'figure_tax_worksheet: condition must bound the amount by row[0] and row[1]')
        lo_first = lo_rest = got['lo'][0]
        hi = got['hi'][0]
    if iff.orelse or not (len(iff.body) == 1 and isinstance(iff.body[0], ast.Return)):
        fail(path, iff, 'figure_tax_worksheet: `if` body must be a return')
    rv = iff.body[0].value
    ok = False
    if isinstance(rv, ast.BinOp) and isinstance(rv.op, ast.Sub) and row_index(path, rv.right, rowv) == 3 \
            and isinstance(rv.left, ast.BinOp) and isinstance(rv.left.op, ast.Mult):
        a, b = rv.left.left, rv.left.right
        if (is_name(a, amount) and row_index(path, b, rowv) == 2) or (is_name(b, amount) and row_index(path, a, rowv) == 2):
            ok = True
    if not ok:
        fail(path, iff.body[0], 'figure_tax_worksheet: must return amount * row[2] - row[3]')
    cfg['wk_first'], cfg['wk_rest'], cfg['wk_hi'] = lo_first, lo_rest, hi

    wkz = []
    for rows in wk:
        out = []
        for (lo, hi_, rate, sub) in rows:
            bp = rate * 10000
            cents = sub * 100
            if lo != lo.to_integral_value() or hi_ != hi_.to_integral_value() or bp != bp.to_integral_value() \
                    or cents != cents.to_integral_value():
                raise TranslateError('%s: worksheet row %r is not (dollars, dollars, basis points, cents)' % (path, (lo, hi_, rate, sub)))
            out.append((int(lo), int(hi_), int(bp), int(cents), str(rate), str(sub)))
        wkz.append(out)
    cfg['wk'] = wkz

    # ---- figure_tax(amount, filing_status)
    fn = funcs['figure_tax']
    amount, stv = [a.arg for a in fn.args.args]
    body = list(fn.body)
    idxname = None
    cols = [None] * 5
    stmt_i = 0
    if isinstance(body[0], ast.Assign) and isinstance(body[0].value, ast.Constant) and body[0].value.value is None:
        idxname = body[0].targets[0].id
        stmt_i = 1
    chain = body[stmt_i]
    if not isinstance(chain, ast.If):
        fail(path, chain, 'figure_tax: expected the status if/elif chain')

    def status_names(test):
        if not (isinstance(test, ast.Compare) and len(test.ops) == 1 and is_name(test.left, stv)):
            fail(path, test, 'figure_tax: status test must compare the status argument')
        op = test.ops[0]
        r = test.comparators[0]

        def member(n):
            if isinstance(n, ast.Attribute) and n.attr in STATUS_INDEX:
                return n.attr
            fail(path, n, 'figure_tax: unknown filing status member')
        if isinstance(op, (ast.Is, ast.Eq)):
            return [member(r)]
        if isinstance(op, ast.In) and isinstance(r, (ast.List, ast.Tuple, ast.Set)):
            return [member(e) for e in r.elts]
        fail(path, test, 'figure_tax: unsupported status test')

    seen = set()
    node = chain
    while True:
        names = status_names(node.test)
        if not (len(node.body) == 1 and isinstance(node.body[0], ast.Assign)
                and isinstance(node.body[0].value, ast.Constant) and isinstance(node.body[0].value.value, int)):
            fail(path, node, 'figure_tax: status branch must assign a constant column')
        tgt = node.body[0].targets[0].id
        if idxname is None:
            idxname = tgt
        if tgt != idxname:
            fail(path, node, 'figure_tax: status branch assigns a different variable')
        for nm in names:
            i = STATUS_INDEX[nm]
            if i not in seen:      # first matching branch wins
                seen.add(i)
                cols[i] = node.body[0].value.value
        if len(node.orelse) == 0:
            break
        if len(node.orelse) == 1 and isinstance(node.orelse[0], ast.If):
            node = node.orelse[0]
            continue
        fail(path, node, 'figure_tax: unexpected else branch in status chain')
    rest = body[stmt_i + 1:]
    if not (len(rest) == 2 and isinstance(rest[0], ast.If) and not rest[0].orelse and isinstance(rest[1], ast.Return)):
        fail(path, fn, 'figure_tax: expected `if amount < cut: return table(...)` then `return worksheet(...)`')
    kind, op, idx, rnode = one_cmp(path, rest[0].test, amount, '__none__')
    if kind != 'hi':
        fail(path, rest[0], 'figure_tax: cut-off test must be an upper bound on the amount')
    cut = const_num(path, src, rnode)
    if cut != cut.to_integral_value():
        fail(path, rest[0], 'figure_tax: non-integer cut-off')
    cfg['cut'], cfg['cutop'] = int(cut), op

    def is_call(n, fname, a1, a2):
        return (isinstance(n, ast.Call) and is_name(n.func, fname) and len(n.args) == 2
                and is_name(n.args[0], a1) and is_name(n.args[1], a2) and not n.keywords)
    if not (len(rest[0].body) == 1 and isinstance(rest[0].body[0], ast.Return)
            and is_call(rest[0].body[0].value, 'figure_tax_table', amount, idxname)):
        fail(path, rest[0], 'figure_tax: below the cut-off must return figure_tax_table(amount, index)')
    if not is_call(rest[1].value, 'figure_tax_worksheet', amount, idxname):
        fail(path, rest[1], 'figure_tax: otherwise must return figure_tax_worksheet(amount, index)')
    cfg['cols'] = cols
    return cfg


def emit(cfg, year):
    def z(n):
        return '(%d)' % n if n < 0 else str(n)
    out = ['(* GENERATED by tools/gen_tax.py from habutax/forms/ty%d/f1040_figure_tax.py — do not edit *)' % year,
           'From Coq Require Import ZArith List.', 'From HV Require Import TaxModel.', 'Import ListNotations.',
           'Open Scope Z_scope.', '']
    out.append('Definition table : list trow := [')
    rows = []
    for r in cfg['table']:
        rows.append('  TRow %s %s [%s]' % (z(r[0]), z(r[1]), '; '.join(z(v) for v in r)))
    out.append(';\n'.join(rows))
    out.append('].')
    out.append('')
    out.append('Definition wk : list (list wrow) := [')
    blks = []
    for rows in cfg['wk']:
        blks.append('  [' + ';\n   '.join('WRow %s %s %s %s' % (z(a), z(b), z(c), z(d)) for (a, b, c, d, _, _) in rows) + ']')
    out.append(';\n'.join(blks))
    out.append('].')
    out.append('')
    cols = '; '.join('None' if c is None else 'Some %d%%nat' % c for c in cfg['cols'])
    out.append('Definition cfg : taxcfg := TaxCfg %s %s %s %s %s %s %s [%s] %d%%nat table wk.' % (
        cfg['tab_lo'], cfg['tab_hi'], cfg['wk_first'], cfg['wk_rest'], cfg['wk_hi'], z(cfg['cut']), cfg['cutop'],
        cols, cfg['wk_off']))
    return '\n'.join(out) + '\n'


if __name__ == '__main__':
    c = translate(sys.argv[1])
    sys.stdout.write(emit(c, int(sys.argv[2])))
