#!/usr/bin/env python3
"""Rewrites the table of seeded changes in DESIGN.md from seeded/*/meta.json and seeded/RESULTS.json."""
import json, os, re
ROOT = os.path.dirname(os.path.dirname(os.path.abspath(__file__)))
res = json.load(open(ROOT + '/seeded/RESULTS.json'))
rows = ['| seed | change (as described by the sub-agent) | quick check of its property | reported with |', '|---|---|---|---|']


def key(d):
    m = re.match(r'C(\d+)-(\d+)', d)
    return (int(m.group(1)), int(m.group(2)))
for d in sorted([x for x in os.listdir(ROOT + '/seeded') if re.match(r'C\d+-\d+$', x)], key=key):
    meta = json.load(open('%s/seeded/%s/meta.json' % (ROOT, d)))
    r = res.get(d, {})
    what = re.sub(r'\s+', ' ', meta.get('what', '')).replace('|', '/')[:170]
    caught = 'caught' if r.get('caught') else '**missed**'
    how = ('failing input' if r.get('with_failing_input') else 'theorem/correspondence named, no-failing-input-found') if r.get('caught') else '—'
    rows.append('| %s | %s | %s | %s |' % (d, what, caught, how))
p = ROOT + '/DESIGN.md'
s = open(p).read()
m = re.search(r'\| seed \| change \(as described by the sub-agent\).*?\n(?=\n)', s, re.S)
s = s[:m.start()] + '\n'.join(rows) + '\n' + s[m.end():]
open(p, 'w').write(s)
n = sum(1 for d in res if res[d].get('caught'))
print('%d seeds, %d caught, %d with failing input' % (len(res), n, sum(1 for d in res if res[d].get('with_failing_input'))))
