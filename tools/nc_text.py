"""Captions of the bundled N.C. templates (printed page text, read by tools/pdf_text.py) -> the instruction terms of tools/instr.py.

The N.C. templates are plain AcroForms without accessibility text; what a line must hold is printed next to its number:
   "8. Add Lines 6 and 7", "17. Subtract Line 16 from Line 15", "15. ... Multiply Line 14 by 4.75% (0.0475). If zero or less, enter a zero.",
   "7. Additions to Federal Adjusted Gross Income (From Form D-400 Schedule S, Part A, Line 16)",
   "16. Total Additions - Add Lines 1 through 15 (Enter the total here and on Form D-400, Line 7)".
Strict: a caption yields a term only when the whole of it is consumed by the grammar below; otherwise None (no obligation), never a guess.
"""
import re
from decimal import Decimal

import instr
import pdf_text

LINE = r'(\d{1,2}[a-z]?)'
FORMS = [('D-400 Schedule S', 'nc_d-400_ss'), ('D-400 Schedule A', 'nc_d-400_sa'), ('D-400', 'nc_d-400')]


def _segments(row):
    """chunks of one baseline -> [(x, text)] split where the horizontal gap is wide (columns)"""
    segs = []
    for x, size, text in row:
        if not text.strip():
            continue
        if segs:
            px, psize, ptext = segs[-1]
            end = px + len(ptext) * psize * 0.5
            if x - end <= 3.0 * max(size, psize):
                segs[-1] = (px, psize, (ptext + ('' if ptext.endswith(' ') or text.startswith(' ') else ' ') + text))
                continue
        segs.append((x, size, text))
    return [(x, re.sub(r'\s+', ' ', t).strip()) for x, s, t in segs]


def captions(path):
    """{line label: caption text} ; labels '7', '12a', '12b', ..."""
    rows = pdf_text.page_rows(path)
    blocks = []          # [page, label, x0, [(y, x, text)]]
    for pi, y, row in rows:
        segs = _segments(row)
        if not segs:
            continue
        x, t = segs[0]
        m = re.match(r'^(\d{1,2})\s?\.\s+(\S.*)$', t)
        if m and x < 75 and not (blocks and blocks[-1][0] == pi and int(m.group(1)) < int(blocks[-1][1])):
            blocks.append([pi, m.group(1), x, [(y, x, m.group(2))] + [(y, sx, st) for sx, st in segs[1:]], True])
        elif blocks and blocks[-1][0] == pi and blocks[-1][4]:
            if x < blocks[-1][2] + 5:
                blocks[-1][4] = False          # a row that is not indented ends the caption
            else:
                blocks[-1][3] += [(y, sx, st) for sx, st in segs]
    caps = {}
    for pi, label, x0, segs, _open in blocks:
        main = [s for s in segs if s[1] < x0 + 45]
        side = [s for s in segs if s[1] >= x0 + 45]
        # sub-items "a." "b." ... open their own caption (7a, 7b, ...)
        parts, cur = [], [label, []]
        for k, (y, x, t) in enumerate(main):
            m = re.match(r'^([a-f])\.\s+(\S.*)$', t)
            if m and (k == 0 or x >= x0 + 5):
                if cur[1]:
                    parts.append(cur)
                cur = [label + m.group(1), [m.group(2)]]
            else:
                cur[1].append(t)
        parts.append(cur)
        for lab, ts in parts:
            text = ' '.join(ts)
            text = re.sub(r'\s+%s\.$' % re.escape(lab), '', text)
            caps.setdefault(lab, text)
        cols = []
        for y, x, t in side:
            for c in cols:
                if abs(c[0] - x) <= 25:
                    c[1].append(t)
                    break
            else:
                cols.append([x, [t]])
        for x, ts in cols:
            t = ' '.join(ts)
            m = re.match(r'^(\d{1,2}[a-z])\.\s+(\S.*)$', t)
            if m and m.group(1).startswith(label):
                caps.setdefault(m.group(1), m.group(2))
    return caps


INFO = re.compile(r'^(\(.*\)|This is .*|If less than zero, see instructions|See instructions.*|Otherwise, go to Line \d+|Enter the total here and on Form D-400, Line \d+[a-z]?)$', re.I)


def _line_list(s):
    """'9, 10b, and 11' / '20a through 22' / '17 through 22, 23f, 24f, and 25 through 40' -> items, rest of the string"""
    toks = re.findall(r'\d{1,2}[a-z]?|through|and|,|\S+', s)
    items, k = [], 0
    while k < len(toks):
        t = toks[k]
        if re.match(r'^\d{1,2}[a-z]?$', t):
            if k + 2 < len(toks) and toks[k + 1] == 'through' and re.match(r'^\d{1,2}[a-z]?$', toks[k + 2]):
                items.append((t, toks[k + 2]))
                k += 3
            else:
                items.append(t)
                k += 1
        elif t in (',', 'and'):
            k += 1
        else:
            break
    return items, ' '.join(toks[k:])


def parse(caption, line_names):
    """instruction term of a caption, or None"""
    c = caption.strip()
    # a title followed by the instruction in parentheses: "... Before Limitation (Add Lines 1 and 2)"
    m = re.match(r'^[^()]*\(((?:Add Lines|Subtract Line|Multiply Line|Compare Line)[^()]*(?:\([\d.]+\)[^()]*)?)\)$', c)
    if m:
        c = m.group(1)
    # parenthesised remarks are informational unless they carry the instruction themselves
    c = re.sub(r'\s*\((?:From Form [^)]*|Enter the total here and on[^)]*|See instructions[^)]*|If less than zero, see instructions\.?|Amended Returns Only[^)]*)\)', '', c)
    c = re.sub(r'\s*Pay in U\.S\. Currency from a Domestic Bank.*$', '', c)
    c = re.sub(r'^[A-Z][A-Za-z.,\' ]*? - ', '', c)             # "Total Additions - ", "Amount Due - "
    if re.match(r'^North Carolina Income Tax\s+', c):
        c = re.sub(r'^North Carolina Income Tax\s+', '', c)
    if re.match(r'^North Carolina Taxable Income Full-year residents enter the amount from Line %s\. Part-year residents and nonresidents multiply' % LINE, c):
        return ('carry', re.match(r'^.*?from Line %s\.' % LINE, c).group(1))
    sents = [x.strip() for x in instr.sentences(c)]
    if not sents:
        return None
    s, rest = sents[0], sents[1:]
    term = None
    m = re.match(r'^Add Lines (.+)$', s)
    if m:
        items, tail = _line_list(m.group(1))
        if items and tail == '':
            lines = instr.expand(items, line_names)
            if lines:
                term = ('sum', lines)
    m = re.match(r'^Subtract Line %s from Line %s$' % (LINE, LINE), s)
    if m:
        term = ('sub', m.group(2), m.group(1))
    m = re.match(r'^Compare Line %s to Line %s; enter whichever is less$' % (LINE, LINE), s)
    if m:
        term = ('min', m.group(1), m.group(2))
    m = re.match(r'^Multiply Line ' + LINE + r' by ([\d.]+) ?% \((0?\.\d+)\)$', s)
    if m and Decimal(m.group(2)) / 100 == Decimal(m.group(3)):
        term = ('scale', m.group(1), m.group(3))
    if term is None:
        return None
    while rest:
        r = rest[0]
        if re.match(r'^If zero or less, enter a zero$', r) or \
                (term[0] == 'sub' and re.match(r'^If Line %s is more than Line %s ?, enter a zero$' % (re.escape(term[2]), re.escape(term[1])), r)):
            if term[0] == 'scale':
                term = ('scalefloor', term[1], term[2])
            elif term[0] == 'sub':
                term = ('subfloor', term[1], term[2])
            else:
                return None
            rest = rest[1:]
            continue
        break
    for r in rest:
        if not INFO.match(r):
            return None
    return term


def _form_of(words):
    for name, f in FORMS:
        if words.strip().startswith(name):
            return f
    return None


def carries(caption):
    """'(Enter the total here and on Form D-400, Line 7)' -> [('nc_d-400', '7')]"""
    out = []
    for m in re.finditer(r'Enter the total here and on\s+Form (D-400[^,)]*),\s*Line\s+%s' % LINE, caption):
        f = _form_of(m.group(1))
        if f:
            out.append((f, m.group(2)))
    return out


def froms(caption):
    """'(From Form D-400 Schedule S, Part A, Line 16)' -> [('nc_d-400_ss', '16')]"""
    out = []
    for m in re.finditer(r'\(From Form (D-400[^,)]*),(?: Part [A-Z0-9]+,)?\s*Line\s+%s[.)]' % LINE, caption):
        f = _form_of(m.group(1))
        if f and re.match(r'^D-400( Schedule [SA])?$', m.group(1).strip()):
            out.append((f, m.group(2)))
    m = re.match(r'^Enter the amount from Form (D-400(?: Schedule [SA])?), Line %s\.?$' % LINE, caption.strip())
    if m and _form_of(m.group(1)):
        out.append((_form_of(m.group(1)), m.group(2)))
    return out


if __name__ == '__main__':
    import sys
    for k, v in captions(sys.argv[1]).items():
        print('%-4s %s' % (k, v))
        print('       term=%r carries=%r froms=%r' % (parse(v, [str(i) for i in range(1, 60)] + ['10a', '10b', '12a', '12b', '20a', '20b', '21a', '21b', '21c', '21d', '26a', '26d', '26e', '23f', '24f']), carries(v), froms(v)))
