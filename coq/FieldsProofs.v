(** C12 — what TypedField.value / FloatField.value (modelled by [Forms.typed_value]) lets into the value store. *)
From Coq Require Import ZArith QArith List Bool String.
From HV Require Import Forms.
Import ListNotations.
Open Scope string_scope.

Definition has_ltype (t:ltype) (v:pv) : Prop :=
  match t, v with
  | TStr, PStr _ | TBool, PBool _ | TInt, PInt _ => True
  | TFloat p, PNum q => exists q0, q = qround p q0
  | TEnum e, PEnum e' _ => e = e'
  | TEnum _, PNone => True
  | _, _ => False
  end.

Definition blank (v:pv) : bool := match v with PNone => true | PStr s => is_blank s | _ => false end.
Definition empty_of (t:ltype) : pv :=
  match t with TStr => PStr "" | TBool => PBool false | TInt => PInt 0 | TFloat _ => PNum 0 | TEnum _ => PNone end.

(* exactly the declared type (bool is not int, int is not float), money rounded to the declared places *)
Theorem typed_value_typed t v w : typed_value t v = RVal w -> has_ltype t w.
Proof.
  unfold typed_value. fold (blank v).
  destruct (blank v) eqn:Eb.
  - intros H. inversion H; subst. destruct t; cbn; auto. exists 0. reflexivity.
  - destruct t, v; try discriminate; intros H; inversion H; subst; cbn; auto.
    + eexists. reflexivity.
    + destruct (String.eqb e e0) eqn:E; [|discriminate]. inversion H1; subst. apply String.eqb_eq. exact E.
Qed.

Theorem none_or_blank_is_empty t v : blank v = true -> typed_value t v = RVal (empty_of t).
Proof. unfold typed_value. fold (blank v). intros ->. destruct t; reflexivity. Qed.

(* anything else of another type is rejected, never stored or coerced *)
Theorem wrong_type_is_rejected t v :
  blank v = false ->
  (match t, v with
   | TStr, PStr _ | TBool, PBool _ | TInt, PInt _ | TFloat _, PNum _ => False
   | TEnum e, PEnum e' _ => e <> e'
   | _, _ => True end) ->
  typed_value t v = RCrash CTypeError.
Proof.
  unfold typed_value. fold (blank v). intros -> H.
  destruct t, v; try reflexivity; try contradiction.
  destruct (String.eqb e e0) eqn:E; [apply String.eqb_eq in E; contradiction|reflexivity].
Qed.

Theorem float_is_rounded p q : blank (PNum q) = false -> typed_value (TFloat p) (PNum q) = RVal (PNum (qround p q)).
Proof. reflexivity. Qed.

(* the only way a line's value comes into existence in the catalogue model is through [typed_value] *)
Theorem line_value_goes_through_typed_value c fuel l w :
  line_value c fuel l = RVal w -> has_ltype (l_type l) w.
Proof.
  unfold line_value. destruct (exec c fuel (l_body l) []) as [[r sg]| | | |]; cbn [bind]; try discriminate.
  apply typed_value_typed.
Qed.
