(** Layer A — executable model of habutax/solver.py (DependencyTracker + Solver), habutax/values.py
    (ValueStore.__getitem__) and the read path of habutax/inputs.py (InputStore.__getitem__).

    Names (lines, inputs, form instances) are numbers assigned by the harness; a line definition is a
    finite reader tree [prog].  Data structures mirror the Python ones: dicts are insertion-ordered
    association lists, [_met] is a list popped from the front, the queue is re-sorted (stably, by the
    caller-supplied [rank], standing for [sort_keys]) on every insertion and popped from the end.
    Nothing in this file is a proof. *)
From Coq Require Import ZArith NArith List Bool.
Import ListNotations.

Definition name := N.
Definition V := Z.

Inductive err :=
| EUnsupportedForm (f:name)      (* NotImplementedError, solver.py:163-164 *)
| EAssertLine (d:name)           (* assert ud.dependency in self._field_map, solver.py:223 *)
| ERecursion (i:name)            (* input not defined by its form: RuntimeError, solver.py:232-234 *)
| EInvalidInput (i:name)         (* inputs.InvalidInput escapes, inputs.py:209-210 *)
| EKeyField (f:name)             (* self._field_map[field_name], solver.py:246 *)
| EBody (code:Z)                 (* any exception raised by a line body (TypeError, AssertionError, ...) *)
| EOutOfFuel.

Inductive prog :=
| Ret (v:V)
| Unimpl                                   (* self.not_implemented() *)
| Crash (code:Z)
| ReadV (d:name) (k:V -> prog)             (* v['d'] *)
| ReadI (i:name) (k:V -> prog).            (* i['i'] *)

(* input store: None = not provided; Some None = provided but invalid; Some (Some v) = valid value v *)
Definition istore := list (name * option V).
Definition vstore := list (name * V).

Fixpoint alookup {A} (k:name) (l:list (name * A)) : option A :=
  match l with
  | [] => None
  | (k', a) :: r => if N.eqb k k' then Some a else alookup k r
  end.

Fixpoint aset {A} (k:name) (a:A) (l:list (name * A)) : list (name * A) :=   (* dict[k] = a *)
  match l with
  | [] => [(k, a)]
  | (k', a') :: r => if N.eqb k k' then (k', a) :: r else (k', a') :: aset k a r
  end.

Definition mem (k:name) (l:list name) : bool := existsb (N.eqb k) l.

Inductive outcome :=
| OVal (v:V) | ONeedV (d:name) | ONeedI (i:name) | ONeedSpec (i:name) | OInvalid (i:name)
| OUnimpl | OCrash (code:Z).

Fixpoint run (p:prog) (specs:list name) (I:istore) (S:vstore) : outcome :=
  match p with
  | Ret v => OVal v
  | Unimpl => OUnimpl
  | Crash c => OCrash c
  | ReadV d k => match alookup d S with Some v => run (k v) specs I S | None => ONeedV d end
  | ReadI i k =>
      if negb (mem i specs) then ONeedSpec i
      else match alookup i I with
           | None => ONeedI i
           | Some None => OInvalid i
           | Some (Some v) => run (k v) specs I S
           end
  end.

(** * DependencyTracker *)
Record tracker := Tracker { unmet : list (name * list name); met : list name }.
Definition tr_empty := Tracker [] [].

Definition add_unmet (d w:name) (t:tracker) : tracker :=
  match alookup d (unmet t) with
  | None => Tracker (unmet t ++ [(d, [w])]) (met t)
  | Some l => Tracker (aset d (l ++ [w]) (unmet t)) (met t)
  end.
Definition has_met (t:tracker) : bool := match met t with [] => false | _ => true end.
Definition has_unmet (t:tracker) : bool :=
  existsb (fun dl => negb (match snd dl with [] => true | _ => false end) && negb (mem (fst dl) (met t))) (unmet t).
Definition meet (d:name) (t:tracker) : tracker := Tracker (unmet t) (met t ++ [d]).
Definition unmet_dependencies (t:tracker) : list name := map fst (unmet t).
Definition unmet_dependents (d:name) (t:tracker) : list name :=
  match alookup d (unmet t) with Some l => l | None => [] end.

Fixpoint aremove {A} (k:name) (l:list (name * A)) : list (name * A) :=
  match l with
  | [] => []
  | (k', a) :: r => if N.eqb k k' then r else (k', a) :: aremove k r
  end.

(* one iteration of the generator's while loop: Some (yielded?, t') or None when _met is empty *)
Definition drain_step (t:tracker) : option (option name * tracker) :=
  match met t with
  | [] => None
  | m :: ms =>
      match alookup m (unmet t) with
      | Some l =>
          match rev l with
          | [] => Some (None, Tracker (aremove m (unmet t)) ms)      (* unreachable: pop() of an empty list *)
          | w :: rl =>
              match rl with
              | [] => Some (Some w, Tracker (aremove m (unmet t)) ms)
              | _ => Some (Some w, Tracker (aset m (rev rl) (unmet t)) (m :: ms))
              end
          end
      | None => Some (None, Tracker (unmet t) ms)
      end
  end.

(* list(met_dependents()) with fuel; fuel bound: total waiters + |met| *)
Fixpoint drain_all (fuel:nat) (t:tracker) (acc:list name) : list name * tracker :=
  match fuel with
  | O => (acc, t)
  | S n => match drain_step t with
           | None => (acc, t)
           | Some (Some w, t') => drain_all n t' (acc ++ [w])
           | Some (None, t') => drain_all n t' acc
           end
  end.
Definition drain_fuel (t:tracker) : nat :=
  S (length (met t) + fold_right (fun dl a => length (snd dl) + a)%nat 0%nat (unmet t)).
Definition drain (t:tracker) : list name * tracker := drain_all (drain_fuel t) t [].

(** * Catalogue and solver state *)
Record forminfo := FormInfo { f_inputs : list name; f_required : list name; f_optional : list name }.
Record catalogue := Cat {
  c_form : name -> option forminfo;        (* None: not in the year's available_forms *)
  c_body : name -> prog;
  c_form_of_line : name -> name;
  c_form_of_input : name -> name
}.

Inductive event :=
| EvAttempt (f:name)
| EvPrompt (i:name) (needed_by:list name) (answered:bool).

Record state := State {
  inp : istore; specs : list name; forms : list name; fmap : list name; vals : vstore;
  unatt : list name; unimpl : list name; solving : list name;
  fdep : tracker; idep : tracker; refused : bool;
  trace : list event;                 (* newest first *)
  edges : list (name * name)          (* ghost: (g, d) = g blocked on line d at some time *)
}.

Section WithCat.
Context (C:catalogue) (rank:name -> N).

(* stable insertion sort by rank (list.sort(key=sort_keys) is stable) *)
Fixpoint insert_sorted (x:name) (l:list name) : list name :=
  match l with
  | [] => [x]
  | y :: r => if N.ltb (rank x) (rank y) then x :: y :: r else y :: insert_sorted x r
  end.
Definition sort_rank (l:list name) : list name := fold_left (fun acc x => insert_sorted x acc) l [].

Definition add_unattempted (l:list name) (s:state) : state :=
  State (inp s) (specs s) (forms s) (fmap s) (vals s) (sort_rank (unatt s ++ l)) (unimpl s) (solving s)
        (fdep s) (idep s) (refused s) (trace s) (edges s).

Definition add_names (l acc:list name) : list name :=     (* dict/set update: keep first occurrence *)
  fold_left (fun a x => if mem x a then a else a ++ [x]) l acc.

Definition add_form (f:name) (input_only:bool) (s:state) : state + err :=
  match c_form C f with
  | None => inr (EUnsupportedForm f)
  | Some fi =>
      let s1 := State (inp s) (add_names (f_inputs fi) (specs s)) (forms s) (fmap s) (vals s) (unatt s)
                      (unimpl s) (solving s) (fdep s) (idep s) (refused s) (trace s) (edges s) in
      if input_only then inl s1
      else
        let s2 := State (inp s1) (specs s1) (add_names [f] (forms s1))
                        (add_names (f_required fi ++ f_optional fi) (fmap s1)) (vals s1) (unatt s1)
                        (unimpl s1) (add_names (f_required fi) (solving s1)) (fdep s1) (idep s1)
                        (refused s1) (trace s1) (edges s1) in
        inl (add_unattempted (f_required fi) s2)
  end.

Definition log (e:event) (s:state) : state :=
  State (inp s) (specs s) (forms s) (fmap s) (vals s) (unatt s) (unimpl s) (solving s)
        (fdep s) (idep s) (refused s) (e :: trace s) (edges s).

(* _attempt_field; [fuel] bounds the retry recursion after loading input specifications *)
Fixpoint attempt_field (fuel:nat) (f:name) (s:state) : state + err :=
  match fuel with
  | O => inr EOutOfFuel
  | S n =>
    let s := log (EvAttempt f) s in
    match run (c_body C f) (specs s) (inp s) (vals s) with
    | OVal v =>
        inl (State (inp s) (specs s) (forms s) (fmap s) (aset f v (vals s)) (unatt s) (unimpl s) (solving s)
                   (meet f (fdep s)) (idep s) (refused s) (trace s) (edges s))
    | ONeedV d =>
        let r :=
          if mem d (solving s) then inl s
          else
            let r1 := if mem d (fmap s) then inl s else add_form (c_form_of_line C d) false s in
            match r1 with
            | inr e => inr e
            | inl s1 =>
                if mem d (fmap s1)
                then if mem d (solving s1) then inl s1      (* already scheduled by add_form: required line *)
                     else
                     let s2 := add_unattempted [d] s1 in
                     inl (State (inp s2) (specs s2) (forms s2) (fmap s2) (vals s2) (unatt s2) (unimpl s2)
                                (add_names [d] (solving s2)) (fdep s2) (idep s2) (refused s2) (trace s2) (edges s2))
                else inr (EAssertLine d)
            end in
        match r with
        | inr e => inr e
        | inl s3 =>
            inl (State (inp s3) (specs s3) (forms s3) (fmap s3) (vals s3) (unatt s3) (unimpl s3) (solving s3)
                       (add_unmet d f (fdep s3)) (idep s3) (refused s3) (trace s3) ((f, d) :: edges s3))
        end
    | ONeedI i =>
        inl (State (inp s) (specs s) (forms s) (fmap s) (vals s) (unatt s) (unimpl s) (solving s)
                   (fdep s) (add_unmet i f (idep s)) (refused s) (trace s) (edges s))
    | ONeedSpec i =>
        match add_form (c_form_of_input C i) true s with
        | inr e => inr e
        | inl s1 => if mem i (specs s1) then attempt_field n f s1 else inr (ERecursion i)
        end
    | OInvalid i => inr (EInvalidInput i)
    | OUnimpl =>
        inl (State (inp s) (specs s) (forms s) (fmap s) (vals s) (unatt s) (unimpl s ++ [f]) (solving s)
                   (fdep s) (idep s) (refused s) (trace s) (edges s))
    | OCrash c => inr (EBody c)
    end
  end.

Definition retry_fuel : nat := 64.   (* each retry loads the specs of a distinct form first; see SolverProofs *)

Fixpoint attempt_all (l:list name) (s:state) : state + err :=
  match l with
  | [] => inl s
  | f :: r => match attempt_field retry_fuel f s with inr e => inr e | inl s' => attempt_all r s' end
  end.

(* while len(unattempted) > 0: attempt(pop()) *)
Fixpoint drain_queue (fuel:nat) (s:state) : state + err :=
  match fuel with
  | O => inr EOutOfFuel
  | S n =>
      match rev (unatt s) with
      | [] => inl s
      | f :: rq =>
          let s1 := State (inp s) (specs s) (forms s) (fmap s) (vals s) (rev rq) (unimpl s) (solving s)
                          (fdep s) (idep s) (refused s) (trace s) (edges s) in
          match attempt_field retry_fuel f s1 with
          | inr e => inr e
          | inl s2 => drain_queue n s2
          end
      end
  end.

Definition set_fdep (t:tracker) (s:state) : state :=
  State (inp s) (specs s) (forms s) (fmap s) (vals s) (unatt s) (unimpl s) (solving s)
        t (idep s) (refused s) (trace s) (edges s).
Definition set_idep (t:tracker) (s:state) : state :=
  State (inp s) (specs s) (forms s) (fmap s) (vals s) (unatt s) (unimpl s) (solving s)
        (fdep s) t (refused s) (trace s) (edges s).

(* the prompting phase; [ans i] = Some v: the user typed a valid v; None: Ctrl-C / no prompt function *)
Fixpoint prompt_all (ans:name -> option V) (l:list name) (s:state) : state :=
  match l with
  | [] => s
  | i :: r =>
      let nb := unmet_dependents i (idep s) in
      match ans i with
      | Some v =>
          let s1 := State (aset i (Some v) (inp s)) (specs s) (forms s) (fmap s) (vals s) (unatt s) (unimpl s)
                          (solving s) (fdep s) (meet i (idep s)) (refused s)
                          (EvPrompt i nb true :: trace s) (edges s) in
          prompt_all ans r s1
      | None =>
          State (inp s) (specs s) (forms s) (fmap s) (vals s) (unatt s) (unimpl s) (solving s)
                (fdep s) (idep s) true (EvPrompt i nb false :: trace s) (edges s)
      end
  end.

Definition loop_cond (s:state) : bool :=
  negb (match unatt s with [] => true | _ => false end)
  || has_met (idep s) || (has_unmet (idep s) && negb (refused s)) || has_met (fdep s).

Fixpoint main_loop (fuel:nat) (ans:name -> option V) (s:state) : state + (err * state) :=
  match fuel with
  | O => inr (EOutOfFuel, s)
  | S n =>
      if negb (loop_cond s) then inl s
      else
        match drain_queue fuel s with
        | inr e => inr (e, s)
        | inl s1 =>
            let (ws, t1) := drain (fdep s1) in
            match attempt_all (sort_rank ws) (set_fdep t1 s1) with
            | inr e => inr (e, s1)
            | inl s2 =>
                let s3 := if refused s2 then s2
                          else prompt_all ans (sort_rank (unmet_dependencies (idep s2))) s2 in
                let (wi, t2) := drain (idep s3) in
                match attempt_all wi (set_idep t2 s3) with
                | inr e => inr (e, s3)
                | inl s4 => main_loop n ans s4
                end
            end
        end
  end.

Definition init_state (I:istore) (has_prompt:bool) : state :=
  State I [] [] [] [] [] [] [] tr_empty tr_empty (negb has_prompt) [] [].

Fixpoint add_forms (l:list name) (s:state) : state + err :=
  match l with
  | [] => inl s
  | f :: r => match add_form f false s with inr e => inr e | inl s' => add_forms r s' end
  end.

Fixpoint add_fields (l:list name) (s:state) : state + err :=
  match l with
  | [] => inl s
  | f :: r => if mem f (fmap s) then add_fields r (add_unattempted [f] s) else inr (EKeyField f)
  end.

Definition solve (fuel:nat) (form_names field_names:list name) (I:istore) (has_prompt:bool)
           (ans:name -> option V) : state + (err * state) :=
  match add_forms form_names (init_state I has_prompt) with
  | inr e => inr (e, init_state I has_prompt)
  | inl s0 =>
      match add_fields field_names s0 with
      | inr e => inr (e, s0)
      | inl s1 =>
          let s2 := State (inp s1) (specs s1) (forms s1) (fmap s1) (vals s1) (unatt s1) (unimpl s1)
                          (add_names field_names (solving s1)) (fdep s1) (idep s1) (refused s1) (trace s1) (edges s1) in
          main_loop fuel ans s2
      end
  end.

Definition solved (s:state) : bool :=
  negb (has_unmet (fdep s)) && negb (has_unmet (idep s)) && match unimpl s with [] => true | _ => false end.

End WithCat.

(** * Flat rendering of a result, for the correspondence check (compared with the same encoding of the real run) *)
Definition zn (n:name) : Z := Z.of_N n.
Definition enc_names (l:list name) : list Z := Z.of_nat (length l) :: map zn l.
Definition enc_tracker (t:tracker) : list Z :=
  Z.of_nat (length (unmet t)) :: flat_map (fun dl => zn (fst dl) :: enc_names (snd dl)) (unmet t).
Definition enc_event (e:event) : list Z :=
  match e with
  | EvAttempt f => [1; zn f]
  | EvPrompt i nb a => [2; zn i; if a then 1 else 0] ++ enc_names nb
  end%Z.
Definition enc_inp (I:istore) : list Z :=
  Z.of_nat (length I) :: flat_map (fun kv => match snd kv with
                                               | None => [zn (fst kv); 0; 0]
                                               | Some v => [zn (fst kv); 1; v] end)%Z I.
Definition enc_err (e:err) : list Z :=
  match e with
  | EUnsupportedForm f => [1; 0] | EAssertLine d => [2; 0] | ERecursion i => [3; 0]
  | EInvalidInput i => [4; zn i] | EKeyField f => [5; 0] | EBody c => [6; c] | EOutOfFuel => [7; 0]
  end%Z.
Definition render (r:state + (err * state)) : list Z :=
  match r with
  | inr (e, sx) => (0 :: enc_err e ++ enc_inp (inp sx))%Z
  | inl s =>
      (1 :: (if solved s then 1 else 0)
         :: Z.of_nat (length (vals s)) :: flat_map (fun kv => [zn (fst kv); snd kv]) (vals s))
      ++ enc_names (unimpl s) ++ enc_tracker (fdep s) ++ enc_tracker (idep s)
      ++ enc_names (forms s) ++ enc_inp (inp s)
      ++ (Z.of_nat (length (trace s)) :: flat_map enc_event (rev (trace s)))
  end%Z.
