(** Reader programs: determinism and monotonicity of [run] in the three stores it consults. *)
From Coq Require Import ZArith NArith List Bool Lia.
From HV Require Import Solver TrackerProofs.
Import ListNotations.

Definition sub {A} (l l':list (name * A)) : Prop := forall k a, alookup k l = Some a -> alookup k l' = Some a.
Definition ssub (l l':list name) : Prop := forall k, In k l -> In k l'.

Lemma sub_refl {A} (l:list (name * A)) : sub l l.  Proof. intros k a H; exact H. Qed.
Lemma sub_trans {A} (a b c:list (name * A)) : sub a b -> sub b c -> sub a c.
Proof. intros H1 H2 k x H. apply H2, H1, H. Qed.
Lemma ssub_refl l : ssub l l.  Proof. intros k H; exact H. Qed.
Lemma ssub_trans a b c : ssub a b -> ssub b c -> ssub a c.
Proof. intros H1 H2 k H. apply H2, H1, H. Qed.

Lemma alookup_aset_eq {A} k (a:A) l : alookup k (aset k a l) = Some a.
Proof.
  induction l as [|[k' a'] l IH]; cbn; [rewrite N.eqb_refl; reflexivity|].
  destruct (N.eqb_spec k k'); cbn; [subst; rewrite N.eqb_refl; reflexivity|].
  destruct (N.eqb_spec k k'); [contradiction|exact IH].
Qed.

Lemma alookup_aset_neq {A} k k' (a:A) l : k <> k' -> alookup k' (aset k a l) = alookup k' l.
Proof.
  intros Hn. induction l as [|[k0 a0] l IH]; cbn.
  - destruct (N.eqb_spec k' k); [congruence|reflexivity].
  - destruct (N.eqb_spec k k0); cbn.
    + subst. destruct (N.eqb_spec k' k0); [congruence|reflexivity].
    + destruct (N.eqb_spec k' k0); [reflexivity|exact IH].
Qed.

Lemma sub_aset_new {A} k (a:A) l : alookup k l = None -> sub l (aset k a l).
Proof.
  intros Hn k' a' H. destruct (N.eq_dec k k'); [subst; congruence|].
  rewrite alookup_aset_neq; assumption.
Qed.

Lemma sub_aset_same {A} k (a:A) l : alookup k l = Some a -> sub l (aset k a l).
Proof.
  intros Hs k' a' H. destruct (N.eq_dec k k'); [subst; rewrite alookup_aset_eq; congruence|].
  rewrite alookup_aset_neq; assumption.
Qed.

Lemma aset_keys_in {A} k (a:A) l k' : In k' (map fst (aset k a l)) <-> k' = k \/ In k' (map fst l).
Proof.
  induction l as [|[k0 a0] l IH]; cbn; [intuition|].
  destruct (N.eqb_spec k k0); cbn; [subst; intuition|]. rewrite IH. intuition.
Qed.

Definition final (o:outcome) : Prop :=
  match o with OVal _ | OUnimpl | OCrash _ | OInvalid _ => True | _ => False end.

Section Run.
Variables (sp sp':list name) (I I':istore) (S S':vstore).
Hypothesis Hsp : ssub sp sp'.
Hypothesis HI : sub I I'.
Hypothesis HS : sub S S'.

Lemma mem_ssub i : mem i sp = true -> mem i sp' = true.
Proof. rewrite !mem_in. apply Hsp. Qed.

Lemma run_mono p : final (run p sp I S) -> run p sp' I' S' = run p sp I S.
Proof.
  induction p as [v| |c|d k IH|i k IH]; cbn; intros Hf; try reflexivity.
  - destruct (alookup d S) as [v|] eqn:E; [|contradiction]. rewrite (HS _ _ E). apply IH, Hf.
  - destruct (mem i sp) eqn:Em; cbn in *; [|contradiction]. rewrite (mem_ssub _ Em). cbn.
    destruct (alookup i I) as [[v|]|] eqn:E; [| |contradiction]; rewrite (HI _ _ E); [apply IH, Hf|reflexivity].
Qed.

Lemma run_needv_stable p d :
  run p sp I S = ONeedV d -> alookup d S = None /\ (alookup d S' = None -> run p sp' I' S' = ONeedV d).
Proof.
  induction p as [v| |c|d0 k IH|i k IH]; cbn; intros H; try discriminate.
  - destruct (alookup d0 S) as [v|] eqn:E.
    + rewrite (HS _ _ E). apply IH, H.
    + inversion H; subst. split; [exact E|]. intros ->. reflexivity.
  - destruct (mem i sp) eqn:Em; cbn in *; [|discriminate]. rewrite (mem_ssub _ Em). cbn.
    destruct (alookup i I) as [[v|]|] eqn:E; try discriminate. rewrite (HI _ _ E). apply IH, H.
Qed.

Lemma run_needi_stable p i :
  run p sp I S = ONeedI i ->
  alookup i I = None /\ mem i sp = true /\ (alookup i I' = None -> run p sp' I' S' = ONeedI i).
Proof.
  induction p as [v| |c|d0 k IH|i0 k IH]; cbn; intros H; try discriminate.
  - destruct (alookup d0 S) as [v|] eqn:E; [|discriminate]. rewrite (HS _ _ E). apply IH, H.
  - destruct (mem i0 sp) eqn:Em; cbn in *; [|discriminate]. rewrite (mem_ssub _ Em). cbn.
    destruct (alookup i0 I) as [[v|]|] eqn:E; try discriminate.
    + rewrite (HI _ _ E). apply IH, H.
    + inversion H; subst. repeat split; auto. intros ->. reflexivity.
Qed.

(** names consulted along the path (including the one the run blocks on) *)
Fixpoint reads (p:prog) (sp:list name) (I:istore) (S:vstore) : list name :=
  match p with
  | ReadV d k => d :: match alookup d S with Some v => reads (k v) sp I S | None => [] end
  | ReadI i k =>
      if negb (mem i sp) then []
      else match alookup i I with Some (Some v) => reads (k v) sp I S | _ => [] end
  | _ => []
  end.

Fixpoint ireads (p:prog) (sp:list name) (I:istore) (S:vstore) : list name :=
  match p with
  | ReadV d k => match alookup d S with Some v => ireads (k v) sp I S | None => [] end
  | ReadI i k =>
      i :: if negb (mem i sp) then []
           else match alookup i I with Some (Some v) => ireads (k v) sp I S | _ => [] end
  | _ => []
  end.

Lemma reads_mono p d : In d (reads p sp I S) -> In d (reads p sp' I' S').
Proof.
  induction p as [v| |c|d0 k IH|i k IH]; cbn; try tauto.
  - intros [E|H]; [left; exact E|]. right.
    destruct (alookup d0 S) as [v|] eqn:E; [|contradiction]. rewrite (HS _ _ E). apply IH, H.
  - destruct (mem i sp) eqn:Em; cbn; [|tauto]. rewrite (mem_ssub _ Em). cbn.
    destruct (alookup i I) as [[v|]|] eqn:E; try (cbn; tauto). rewrite (HI _ _ E). apply IH.
Qed.

Lemma ireads_mono p i : In i (ireads p sp I S) -> In i (ireads p sp' I' S').
Proof.
  induction p as [v| |c|d0 k IH|i0 k IH]; cbn; try tauto.
  - destruct (alookup d0 S) as [v|] eqn:E; [|contradiction]. rewrite (HS _ _ E). apply IH.
  - intros [E|H]; [left; exact E|]. right.
    destruct (mem i0 sp) eqn:Em; cbn in *; [|contradiction]. rewrite (mem_ssub _ Em). cbn.
    destruct (alookup i0 I) as [[v|]|] eqn:E; try contradiction. rewrite (HI _ _ E). apply IH, H.
Qed.
End Run.

Lemma needv_reads p sp I S d : run p sp I S = ONeedV d -> In d (reads p sp I S).
Proof.
  induction p as [v| |c|d0 k IH|i k IH]; cbn; intros H; try discriminate.
  - destruct (alookup d0 S) as [v|] eqn:E; [right; apply IH, H|inversion H; left; reflexivity].
  - destruct (mem i sp); cbn in *; [|discriminate].
    destruct (alookup i I) as [[v|]|]; try discriminate. apply IH, H.
Qed.

Lemma needi_ireads p sp I S i : run p sp I S = ONeedI i -> In i (ireads p sp I S).
Proof.
  induction p as [v| |c|d0 k IH|i0 k IH]; cbn; intros H; try discriminate.
  - destruct (alookup d0 S) as [v|] eqn:E; [apply IH, H|discriminate].
  - destruct (mem i0 sp); cbn in *; [|discriminate].
    destruct (alookup i0 I) as [[v|]|]; try discriminate; [right; apply IH, H|inversion H; left; reflexivity].
Qed.

(* a successful run only consulted names that are present *)
Lemma val_reads_present p sp I S v d :
  run p sp I S = OVal v -> In d (reads p sp I S) -> exists w, alookup d S = Some w.
Proof.
  induction p as [v0| |c|d0 k IH|i k IH]; cbn; intros H Hin; try contradiction.
  - destruct (alookup d0 S) as [w|] eqn:E; [|discriminate].
    destruct Hin as [<-|Hin]; [eauto|]. apply (IH w H Hin).
  - destruct (mem i sp); cbn in *; [|contradiction].
    destruct (alookup i I) as [[w|]|]; try contradiction. apply (IH w H Hin).
Qed.

Lemma val_ireads_present p sp I S v i :
  run p sp I S = OVal v -> In i (ireads p sp I S) -> exists w, alookup i I = Some (Some w).
Proof.
  induction p as [v0| |c|d0 k IH|i0 k IH]; cbn; intros H Hin; try contradiction.
  - destruct (alookup d0 S) as [w|] eqn:E; [|discriminate]. apply (IH w H Hin).
  - destruct (mem i0 sp); cbn in *; [|discriminate].
    destruct (alookup i0 I) as [[w|]|] eqn:E; try discriminate.
    destruct Hin as [<-|Hin]; [eauto|]. apply (IH w H Hin).
Qed.

(* two stores that agree wherever both are defined give the same final outcome *)
Lemma run_final_agree p sp I S W :
  (forall k a b, alookup k S = Some a -> alookup k W = Some b -> a = b) ->
  final (run p sp I S) -> final (run p sp I W) -> run p sp I S = run p sp I W.
Proof.
  intros Hag. induction p as [v| |c|d k IH|i k IH]; cbn; intros H1 H2; try reflexivity.
  - destruct (alookup d S) as [a|] eqn:Ea; [|contradiction].
    destruct (alookup d W) as [b|] eqn:Eb; [|contradiction].
    rewrite (Hag _ _ _ Ea Eb) in *. apply IH; assumption.
  - destruct (mem i sp); cbn in *; [|contradiction].
    destruct (alookup i I) as [[w|]|]; try contradiction; [apply IH; assumption|reflexivity].
Qed.

(* if a run blocks on [d] while a run on an agreeing store finishes, the latter defines [d] *)
Lemma run_need_vs_final p sp I S W d :
  (forall k a b, alookup k S = Some a -> alookup k W = Some b -> a = b) ->
  run p sp I S = ONeedV d -> final (run p sp I W) -> exists w, alookup d W = Some w.
Proof.
  intros Hag. induction p as [v| |c|d0 k IH|i k IH]; cbn; intros H1 H2; try discriminate.
  - destruct (alookup d0 S) as [a|] eqn:Ea.
    + destruct (alookup d0 W) as [b|] eqn:Eb; [|contradiction].
      rewrite <- (Hag _ _ _ Ea Eb) in H2. apply (IH a H1 H2).
    + inversion H1; subst. destruct (alookup d W) as [b|]; [eauto|contradiction].
  - destruct (mem i sp); cbn in *; [|discriminate].
    destruct (alookup i I) as [[w|]|]; try discriminate. apply (IH w H1 H2).
Qed.

Lemma run_needi_vs_final p sp I S W i :
  (forall k a b, alookup k S = Some a -> alookup k W = Some b -> a = b) ->
  run p sp I S = ONeedI i -> final (run p sp I W) -> False.
Proof.
  intros Hag. induction p as [v| |c|d0 k IH|i0 k IH]; cbn; intros H1 H2; try discriminate.
  - destruct (alookup d0 S) as [a|] eqn:Ea; [|discriminate].
    destruct (alookup d0 W) as [b|] eqn:Eb; [|contradiction].
    rewrite <- (Hag _ _ _ Ea Eb) in H2. apply (IH a H1 H2).
  - destruct (mem i0 sp); cbn in *; [|discriminate].
    destruct (alookup i0 I) as [[w|]|]; try discriminate; [apply (IH w H1 H2)|contradiction].
Qed.
