(** C03 — every value in a returned solution (complete or partial) is a fixed point of its line definition. *)
From Coq Require Import ZArith NArith List Bool.
From HV Require Import Solver SolverThms SolverExamples.
From HV Require Forms StoreMono.
Import ListNotations.

Theorem C03_solution_fixed_point :
  forall (C:catalogue) (rank:name -> N) (ans:name -> option V) fuel R FN I hp s,
  solve C rank fuel R FN I hp ans = inl s ->
  forall f v, alookup f (vals s) = Some v -> run (c_body C f) (specs s) (inp s) (vals s) = OVal v.
Proof. exact solution_fixed_point. Qed.

(* non-vacuity: a partial solution (cycle) and a complete one both hold values *)
Example C03_nonvacuous :
  match ex_cycle, ex_solved with
  | inl s1, inl s2 => (length (vals s1) =? 2)%nat && (length (vals s2) =? 3)%nat && negb (solved s1) && solved s2
  | _, _ => false
  end = true.
Proof. vm_compute. reflexivity. Qed.

(* Layer B (the regenerated line bodies): what a line yielded when it was attempted is what its definition yields on every later,
   larger store - more solved lines, more inputs, more participating forms - so no stored value is stale with respect to the final store *)
Theorem C03_value_survives_larger_store :
  forall (c c':Forms.ctx) fuel (l:Forms.line) v, StoreMono.ctx_le c c' ->
  Forms.line_value c fuel l = Forms.RVal v -> Forms.line_value c' fuel l = Forms.RVal v.
Proof. exact StoreMono.value_survives. Qed.

Goal True. idtac "@@PA C03_value_survives_larger_store". Abort.
Print Assumptions C03_value_survives_larger_store.
Goal True. idtac "@@PA C03_solution_fixed_point". Abort.
Print Assumptions C03_solution_fixed_point.
