(** C11 — lines only ever see validated, correctly typed, finite input values. *)
From Coq Require Import ZArith QArith List Bool String.
From HV Require Import Inputs InputsProofs.
Import ListNotations.
Open Scope string_scope.

Theorem C11_getitem_gate : forall spec prov v,
  getitem spec prov = GValue v ->
  exists k raw, spec = Some k /\ prov = Some raw /\ valid k raw = true /\ value k raw = Some v.
Proof. exact getitem_gate. Qed.

Theorem C11_store_value_typed : forall k raw v, getitem (Some k) (Some raw) = GValue v -> has_type k v.
Proof. exact store_value_typed. Qed.

Theorem C11_float_input_is_finite : forall raw v, getitem (Some IFloat) (Some raw) = GValue v -> exists q, v = VFloat q.
Proof. exact float_input_is_finite. Qed.

Theorem C11_invalid_is_reported : forall k raw, valid k raw = false -> getitem (Some k) (Some raw) = GInvalid raw.
Proof. exact invalid_is_reported. Qed.

Theorem C11_getitem_never_raises : forall spec prov, getitem spec prov <> GRaise.
Proof. exact getitem_never_raises. Qed.

Theorem C11_supplied_not_missing : forall k raw,
  getitem (Some k) (Some raw) <> GMissing /\ getitem (Some k) (Some raw) <> GMissingSpec.
Proof. exact supplied_not_missing. Qed.

Theorem C11_absent_not_defaulted : forall k, getitem (Some k) None = GMissing.
Proof. exact absent_not_defaulted. Qed.

(* non-vacuity, and the strings that used to slip through *)
Example C11_nonvacuous :
  (getitem (Some IFloat) (Some " 1_0.5e1 "), getitem (Some IFloat) (Some "nan"), getitem (Some IFloat) (Some "1e309"),
   getitem (Some IFloat) (Some "-Infinity"), getitem (Some IInteger) (Some "+1_000"), getitem (Some IBoolean) (Some " YES "),
   getitem (Some (IEnum ["Single"] true)) (Some "  "), getitem (Some ISSN) (Some "123-45-678"))
  = (GValue (VFloat (105 # 1)), GInvalid "nan", GInvalid "1e309", GInvalid "-Infinity", GValue (VInt 1000),
     GValue (VBool true), GValue VNone, GInvalid "123-45-678").
Proof. vm_compute. reflexivity. Qed.

Goal True. idtac "@@PA C11_getitem_gate". Abort.
Print Assumptions C11_getitem_gate.
Goal True. idtac "@@PA C11_store_value_typed". Abort.
Print Assumptions C11_store_value_typed.
Goal True. idtac "@@PA C11_float_input_is_finite". Abort.
Print Assumptions C11_float_input_is_finite.
Goal True. idtac "@@PA C11_getitem_never_raises". Abort.
Print Assumptions C11_getitem_never_raises.
