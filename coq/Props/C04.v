(** C04 — a solution is exactly the demand closure of the requested forms. *)
From Coq Require Import ZArith NArith List Bool.
From HV Require Import Solver RunLemmas SolverDem SolverExamples.
Import ListNotations.

(* [Dem] : least set containing the required lines of the requested forms and the requested fields, closed under
   "a line read (on the final stores) by a member" and "the required lines of the form of such a read".
   A successful solution holds a value for exactly those lines, and its forms are exactly the requested forms
   plus the forms of lines that members read. *)
Theorem C04_solution_is_demand_closure :
  forall (C:catalogue) (rank:name -> N) (ans:name -> option V) (R FN:list name) fuel I hp s,
  cat_wf C ->
  solve C rank fuel R FN I hp ans = inl s -> solved s = true ->
  (forall f, (exists v, alookup f (vals s) = Some v) <-> Dem C R FN s f) /\
  (forall F, In F (forms s) <->
     In F R \/ exists g d, Dem C R FN s g /\ In d (sreads C s g) /\ c_form_of_line C d = F).
Proof. exact solution_is_demand_closure. Qed.

Theorem C04_partial_solution_within_closure :
  forall (C:catalogue) (rank:name -> N) (ans:name -> option V) (R FN:list name) fuel I hp s,
  cat_wf C ->
  solve C rank fuel R FN I hp ans = inl s ->
  forall f v, alookup f (vals s) = Some v -> Dem C R FN s f.
Proof. exact partial_solution_within_closure. Qed.

(* non-vacuity: the example pulls in form b (1) and its required line 20 only because a.10 reads it;
   optional lines 12 and 21 stay out *)
Example C04_nonvacuous :
  match ex_solved with
  | inl s => (map fst (vals s), forms s)
  | inr _ => ([], [])
  end = ([20; 10; 11]%N, [0; 1]%N).
Proof. vm_compute. reflexivity. Qed.

Goal True. idtac "@@PA C04_solution_is_demand_closure". Abort.
Print Assumptions C04_solution_is_demand_closure.
Goal True. idtac "@@PA C04_partial_solution_within_closure". Abort.
Print Assumptions C04_partial_solution_within_closure.
