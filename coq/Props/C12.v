(** C12 — stored line values have the declared type, rounding and blank convention. *)
From Coq Require Import ZArith QArith List Bool String.
From HV Require Import Forms FieldsProofs.
Import ListNotations.
Open Scope string_scope.

Theorem C12_typed_value_typed : forall t v w, typed_value t v = RVal w -> has_ltype t w.
Proof. exact typed_value_typed. Qed.
Theorem C12_none_or_blank_is_empty : forall t v, blank v = true -> typed_value t v = RVal (empty_of t).
Proof. exact none_or_blank_is_empty. Qed.
Theorem C12_wrong_type_is_rejected : forall t v,
  blank v = false ->
  (match t, v with
   | TStr, PStr _ | TBool, PBool _ | TInt, PInt _ | TFloat _, PNum _ => False
   | TEnum e, PEnum e' _ => e <> e'
   | _, _ => True end) ->
  typed_value t v = RCrash CTypeError.
Proof. exact wrong_type_is_rejected. Qed.
Theorem C12_line_value_typed : forall c fuel l w, line_value c fuel l = RVal w -> has_ltype (l_type l) w.
Proof. exact line_value_goes_through_typed_value. Qed.

Example C12_nonvacuous :
  (typed_value TInt (PBool true), typed_value (TFloat 2) (PInt 3), typed_value (TFloat 2) (PNum (1005 # 1000)),
   typed_value (TFloat 0) (PNum (5 # 2)), typed_value TStr (PStr "  "), typed_value (TEnum "e") PNone)
  = (RCrash CTypeError, RCrash CTypeError, RVal (PNum (1 # 1)), RVal (PNum (2 # 1)), RVal (PStr ""), RVal PNone).
Proof. vm_compute. reflexivity. Qed.

Goal True. idtac "@@PA C12_typed_value_typed". Abort.
Print Assumptions C12_typed_value_typed.
Goal True. idtac "@@PA C12_wrong_type_is_rejected". Abort.
Print Assumptions C12_wrong_type_is_rejected.
Goal True. idtac "@@PA C12_line_value_typed". Abort.
Print Assumptions C12_line_value_typed.
