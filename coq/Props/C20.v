(** C20 — interrupting an interactive solve never loses input already given.
    [solve] returns [inl s] (finished) or [inr (e, s)] (an exception left solve(): unsupported form, failing line
    definition, invalid input, internal assertion ...); a Ctrl-C / end of input at a prompt is [ans i = None].
    The CLI writes [inp (result_state r)] back in every case (the `finally` of habutax/__init__.py:69-78). *)
From Coq Require Import ZArith NArith List Bool.
From HV Require Import Solver RunLemmas SolverPrompt SolverExamples.
Import ListNotations.

Theorem C20_session_keeps_answers :
  forall (C:catalogue) (rank:name -> N) (ans:name -> option V) (I0:istore) fuel R FN hp r,
  solve C rank fuel R FN I0 hp ans = r ->
  let s := result_state r in
  sub I0 (inp s) /\
  (forall i nb, In (EvPrompt i nb true) (trace s) -> exists v, ans i = Some v /\ alookup i (inp s) = Some (Some v)) /\
  (forall i x, alookup i (inp s) = Some x -> alookup i I0 = Some x \/
     (alookup i I0 = None /\ exists v nb, x = Some v /\ ans i = Some v /\ In (EvPrompt i nb true) (trace s))).
Proof. exact session_keeps_answers. Qed.

Theorem C20_rerun_does_not_reask :
  forall C rank ans ans' I0 fuel fuel' R FN hp r r',
  solve C rank fuel R FN I0 hp ans = r ->
  solve C rank fuel' R FN (inp (result_state r)) hp ans' = r' ->
  forall i nb nb' a, In (EvPrompt i nb true) (trace (result_state r)) ->
                     ~ In (EvPrompt i nb' a) (trace (result_state r')).
Proof. exact rerun_does_not_reask. Qed.

(* non-vacuity: a session that is refused at its first prompt, and one that aborts on an unsupported form after an answer *)
Definition exC2 : catalogue :=
  Cat (fun f => match f with
                | 0%N => Some (FormInfo [30%N; 31%N] [10%N; 11%N] [])
                | _ => None end)
      (fun l => match l with
                | 10%N => ReadI 30%N (fun x => Ret x)
                | 11%N => ReadV 10%N (fun x => ReadI 31%N (fun y => ReadV 50%N (fun z => Ret z)))
                | _ => Crash 0 end)
      (fun l => if (l <? 20)%N then 0%N else 9%N)
      (fun i => 0%N).
Definition ex_abort_after_answer :=
  solve exC2 exRank 50 [0%N] [] [] true (fun i => Some (Z.of_N i)).
Example C20_nonvacuous :
  match ex_abort_after_answer, ex_refused with
  | inr (EUnsupportedForm _, s), inl s2 =>
      (map fst (inp s), length (prompted (trace s)), refused s2, length (prompted (trace s2)))
  | _, _ => ([], 0%nat, false, 0%nat)
  end = ([30%N; 31%N], 2%nat, true, 1%nat).
Proof. vm_compute. reflexivity. Qed.

Goal True. idtac "@@PA C20_session_keeps_answers". Abort.
Print Assumptions C20_session_keeps_answers.
Goal True. idtac "@@PA C20_rerun_does_not_reask". Abort.
Print Assumptions C20_rerun_does_not_reask.
