(** C14 — a written solution reads back to exactly the values that were solved (per line type). *)
From Coq Require Import ZArith List Bool String.
From HV Require Import Inputs RoundTrip.
Import ListNotations.
Open Scope string_scope.

Theorem C14_bool_rt : forall b, bool_from_string (bool_to_string b) = b.
Proof. exact bool_rt. Qed.
Theorem C14_int_rt : forall z, int_from_string (int_to_string z) = Some z.
Proof. exact int_rt. Qed.
Theorem C14_enum_rt : forall members v,
  (match v with Some m => In m members /\ m <> "" | None => True end) ->
  enum_from_string members (enum_to_string v) = Some v.
Proof. exact enum_rt. Qed.
(* money with p decimal places (k = value * 10^p), through sign / integer part / p fraction digits *)
Theorem C14_money_rt : forall p k, money_from_text p (money_to_text p k) = k.
Proof. exact money_rt. Qed.
Theorem C14_year_rt : forall y, int_from_string (int_to_string y) = Some y.
Proof. exact year_rt. Qed.

Example C14_nonvacuous :
  (int_to_string (-1203), money_to_text 2 (-1205), money_from_text 2 (MoneyText true 12 [5; 0]%Z), money_to_text 5 37,
   enum_from_string ["Single"; "NC"] "", bool_from_string " TRUE ")
  = ("-1203", MoneyText true 12 [5; 0]%Z, (-1205)%Z, MoneyText false 0 [7; 3; 0; 0; 0]%Z, Some None, true).
Proof. vm_compute. reflexivity. Qed.

Goal True. idtac "@@PA C14_int_rt". Abort.
Print Assumptions C14_int_rt.
Goal True. idtac "@@PA C14_money_rt". Abort.
Print Assumptions C14_money_rt.
Goal True. idtac "@@PA C14_enum_rt". Abort.
Print Assumptions C14_enum_rt.
