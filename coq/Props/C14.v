(** C14 — a written solution reads back to exactly the values that were solved (per line type). *)
From Coq Require Import ZArith List Bool String.
From HV Require Import Inputs RoundTrip.
From Coq Require Import QArith Qabs.
From HV Require Import Forms FloatText.
Import ListNotations.
Open Scope string_scope.

Theorem C14_bool_rt : forall b, bool_from_string (bool_to_string b) = b.
Proof. exact bool_rt. Qed.
Theorem C14_int_rt : forall z, int_from_string (int_to_string z) = Some z.
Proof. exact int_rt. Qed.
Theorem C14_enum_rt : forall members v,
  (match v with Some m => In m members /\ m <> "" | None => True end) ->
  enum_from_string members (enum_to_string v) = Some v.
Proof. exact enum_rt. Qed.
(* money with p decimal places (k = value * 10^p), through sign / integer part / p fraction digits *)
Theorem C14_money_rt : forall p k, money_from_text p (money_to_text p k) = k.
Proof. exact money_rt. Qed.
Theorem C14_year_rt : forall y, int_from_string (int_to_string y) = Some y.
Proof. exact year_rt. Qed.

(* the float text: a stored money value v is the double nearest to a p-place decimal k/10^p (that is what round(x, p) returns). As long as
   doubles near it are closer together than 10^-p, the digits written by f'{v:.{p}f}' are k, and reading them back - float(text), then
   round(_, p) - gives the same double.  [dbl] is an executable model of binary64 round-to-nearest-even over exact rationals, compared with
   CPython on every run. *)
Theorem C14_float_text_roundtrip : forall p k, (0 <= p)%Z ->
  (ulp (inject_Z k / pow10 p) < 1 / pow10 p)%Q ->
  let v := of_text p k in
  to_text p v = k /\ (from_string p (to_text p v) == v)%Q.
Proof. exact float_text_roundtrip. Qed.
(* the guard holds for every amount below 2^46 = 70,368,744,177,664 dollars at two places (below 2^36 at five places, 2^52 at none) *)
Theorem C14_float_text_guard_cents : forall k, (Qabs (inject_Z k / pow10 2) < pow2 46)%Q -> (ulp (inject_Z k / pow10 2) < 1 / pow10 2)%Q.
Proof. exact guard_two_places. Qed.
Theorem C14_float_text_guard_ratio : forall k, (Qabs (inject_Z k / pow10 5) < pow2 36)%Q -> (ulp (inject_Z k / pow10 5) < 1 / pow10 5)%Q.
Proof. exact guard_five_places. Qed.
Theorem C14_float_text_guard_dollars : forall k, (Qabs (inject_Z k / pow10 0) < pow2 52)%Q -> (ulp (inject_Z k / pow10 0) < 1 / pow10 0)%Q.
Proof. exact guard_whole_dollars. Qed.
(* 0.10 is stored as 3602879701896397 / 2^55 and written back as "0.10"; beyond the guard the digits change: 2^53 + 0.01 *)
Example C14_float_text_examples :
  (Qred (dbl (1 # 10)), to_text 2 (dbl (10 # 100)), to_text 2 (of_text 2 900719925474099201))
  = ((3602879701896397 # 36028797018963968)%Q, 10%Z, 900719925474099200%Z).
Proof. vm_compute. reflexivity. Qed.

Example C14_nonvacuous :
  (int_to_string (-1203), money_to_text 2 (-1205), money_from_text 2 (MoneyText true 12 [5; 0]%Z), money_to_text 5 37,
   enum_from_string ["Single"; "NC"] "", bool_from_string " TRUE ")
  = ("-1203", MoneyText true 12 [5; 0]%Z, (-1205)%Z, MoneyText false 0 [7; 3; 0; 0; 0]%Z, Some None, true).
Proof. vm_compute. reflexivity. Qed.

Goal True. idtac "@@PA C14_int_rt". Abort.
Print Assumptions C14_int_rt.
Goal True. idtac "@@PA C14_money_rt". Abort.
Print Assumptions C14_money_rt.
Goal True. idtac "@@PA C14_enum_rt". Abort.
Print Assumptions C14_enum_rt.
Goal True. idtac "@@PA C14_float_text_roundtrip". Abort.
Print Assumptions C14_float_text_roundtrip.
Goal True. idtac "@@PA C14_float_text_guard_cents". Abort.
Print Assumptions C14_float_text_guard_cents.
