(** C05 — the result depends only on the catalogue (year), the set of requested forms/fields and the input values. *)
From Coq Require Import ZArith NArith List Bool.
From HV Require Import Solver RunLemmas SolverDem SolverPrompt SolverUnique SolverExamples.
From HV Require Forms StoreMono.
Import ListNotations.

(* Two finished runs of the same catalogue may differ in: the attempt order (rank1 / rank2 are arbitrary), the order and
   multiplicity of the requested forms and fields (only the sets must agree), and in how the inputs were supplied (file I1
   + answers ans1 versus file I2 + answers ans2) - as long as the input stores they end with hold the same values.
   Then they scheduled the same lines, hold the same value for every line, and report the same verdict. *)
Theorem C05_schedule_independent :
  forall (C:catalogue) rank1 rank2 ans1 ans2 R1 R2 FN1 FN2 fuel1 fuel2 I1 I2 hp1 hp2 s1 s2,
  cat_wf C ->
  solve C rank1 fuel1 R1 FN1 I1 hp1 ans1 = inl s1 ->
  solve C rank2 fuel2 R2 FN2 I2 hp2 ans2 = inl s2 ->
  (forall F, In F R1 <-> In F R2) -> (forall f, In f FN1 <-> In f FN2) ->
  sub (inp s1) (inp s2) -> sub (inp s2) (inp s1) ->
  (forall f, In f (solving s1) <-> In f (solving s2)) /\
  (forall f, alookup f (vals s1) = alookup f (vals s2)) /\
  solved s1 = solved s2.
Proof. exact schedule_independent. Qed.

(* prompted answers versus the same values read from the file: a run that obtained its inputs at prompts and solved
   is reproduced exactly by a prompt-less run on the written-back file (any attempt order) *)
Theorem C05_prompt_equals_file :
  forall (C:catalogue) rank1 rank2 ans1 R FN fuel1 fuel2 I hp1 hp2 s1 s2,
  cat_wf C ->
  solve C rank1 fuel1 R FN I hp1 ans1 = inl s1 -> solved s1 = true ->
  solve C rank2 fuel2 R FN (inp s1) hp2 (fun _ => None) = inl s2 ->
  solved s2 = true /\ (forall f, alookup f (vals s2) = alookup f (vals s1)) /\ prompted (trace s2) = [].
Proof. exact rerun_quiet. Qed.

(* the scheduled set of any finished run is the declarative demand closure, which mentions no schedule *)
Theorem C05_scheduled_set_is_declarative :
  forall (C:catalogue) rank ans R FN fuel I hp s sp',
  cat_wf C -> solve C rank fuel R FN I hp ans = inl s -> ssub (specs s) sp' ->
  forall f, In f (solving s) <-> DemS C R FN sp' (inp s) f.
Proof. exact solving_is_DemS. Qed.

(* non-vacuity: the same catalogue solved in two attempt orders and with the answer typed vs supplied *)
Definition ex_solved_rev := solve exC (fun n => (100 - n)%N) 50 [0%N; 0%N] [] [(31%N, Some 2); (30%N, Some 1)] false (fun _ => None).
Example C05_nonvacuous :
  match ex_solved, ex_solved_rev, ex_prompt with
  | inl a, inl b, inl c =>
      (solved a && solved b && solved c, map (fun f => alookup f (vals a)) [10; 11; 20]%N,
       map (fun f => alookup f (vals b)) [10; 11; 20]%N, map (fun f => alookup f (vals c)) [10; 11; 20]%N,
       map (fun e => match e with EvAttempt f => f | _ => 0%N end) (rev (trace a)),
       map (fun e => match e with EvAttempt f => f | _ => 0%N end) (rev (trace b)))
  | _, _, _ => (false, [], [], [], [], [])
  end = (true, [Some 3; Some 1; Some 2]%Z, [Some 3; Some 1; Some 2]%Z, [Some 3; Some 1; Some 2]%Z,
         [11; 10; 20; 10; 11]%N, [10; 10; 11; 11; 20; 10; 10; 11; 11]%N).
Proof. vm_compute. reflexivity. Qed.

Goal True. idtac "@@PA C05_schedule_independent". Abort.
Print Assumptions C05_schedule_independent.
Goal True. idtac "@@PA C05_prompt_equals_file". Abort.
Print Assumptions C05_prompt_equals_file.
Goal True. idtac "@@PA C05_scheduled_set_is_declarative". Abort.
Print Assumptions C05_scheduled_set_is_declarative.

(* Layer B (the regenerated line bodies): the outcome of evaluating a line - its value, a refusal, a crash, or the NAME it waits for - depends
   only on what each name is bound to in the stores, not on the order of the entries, shadowed duplicates, or the order of the forms *)
Theorem C05_line_outcome_ignores_store_layout :
  forall (c c':Forms.ctx) fuel (l:Forms.line), StoreMono.ctx_eqv c c' -> Forms.line_value c' fuel l = Forms.line_value c fuel l.
Proof. exact StoreMono.line_value_ext. Qed.

Goal True. idtac "@@PA C05_line_outcome_ignores_store_layout". Abort.
Print Assumptions C05_line_outcome_ignores_store_layout.
