(** C13 — prompting is demand-exact; written-back answers make the run repeatable. *)
From Coq Require Import ZArith NArith List Bool.
From HV Require Import Solver RunLemmas SolverDem SolverPrompt SolverUnique SolverExamples.
Import ListNotations.

(* every prompt (in finished and in aborted runs alike): the input was absent from the supplied inputs, at least one
   line is quoted, and every quoted line consults that input when evaluated on the final stores; no input is asked twice *)
Theorem C13_prompts_demand_exact :
  forall (C:catalogue) (rank:name -> N) (ans:name -> option V) (I0:istore) fuel R FN hp r,
  solve C rank fuel R FN I0 hp ans = r ->
  let s := result_state r in
  (forall i nb a, In (EvPrompt i nb a) (trace s) ->
     alookup i I0 = None /\ nb <> [] /\ (forall f, In f nb -> In i (sireads C s f) /\ In f (solving s))) /\
  NoDup (prompted (trace s)) /\ clean (trace s).
Proof. exact prompts_demand_exact. Qed.

(* after write-back, a re-run never asks again for an answer the file now holds *)
Theorem C13_rerun_does_not_reask :
  forall C rank ans ans' I0 fuel fuel' R FN hp r r',
  solve C rank fuel R FN I0 hp ans = r ->
  solve C rank fuel' R FN (inp (result_state r)) hp ans' = r' ->
  forall i nb nb' a, In (EvPrompt i nb true) (trace (result_state r)) ->
                     ~ In (EvPrompt i nb' a) (trace (result_state r')).
Proof. exact rerun_does_not_reask. Qed.

(* after a run that solved, re-running on the written-back inputs - any attempt order - asks nothing (the user would not
   even have to be there: every question would be refused) and produces the identical solution *)
Theorem C13_rerun_quiet :
  forall (C:catalogue) rank1 rank2 ans1 R FN fuel1 fuel2 I hp1 hp2 s1 s2,
  cat_wf C ->
  solve C rank1 fuel1 R FN I hp1 ans1 = inl s1 -> solved s1 = true ->
  solve C rank2 fuel2 R FN (inp s1) hp2 (fun _ => None) = inl s2 ->
  solved s2 = true /\ (forall f, alookup f (vals s2) = alookup f (vals s1)) /\ prompted (trace s2) = [].
Proof. exact rerun_quiet. Qed.

Example C13_nonvacuous :
  match ex_prompt, ex_refused with
  | inl s1, inl s2 => (prompted (trace s1), solved s1, prompted (trace s2), refused s2)
  | _, _ => ([], false, [], false)
  end = ([31%N], true, [31%N], true).
Proof. vm_compute. reflexivity. Qed.

Goal True. idtac "@@PA C13_prompts_demand_exact". Abort.
Print Assumptions C13_prompts_demand_exact.
Goal True. idtac "@@PA C13_rerun_quiet". Abort.
Print Assumptions C13_rerun_quiet.
Goal True. idtac "@@PA C13_rerun_does_not_reask". Abort.
Print Assumptions C13_rerun_does_not_reask.
