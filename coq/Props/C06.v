(** C06 — termination bookkeeping: the dependency tracker never loses or duplicates a waiter; prompts are bounded. *)
From Coq Require Import ZArith NArith List Bool Permutation.
From HV Require Import Solver TrackerProofs RunLemmas SolverDem SolverPrompt SolverExamples SolverWaits SolverCount SolverTerm.
Import ListNotations.

(* (1) every history of add_unmet / meet / generator steps keeps the representation invariant *)
Theorem C06_tracker_history_wf : forall ops, twf (fold_left apply_op ops tr_empty).
Proof. exact tracker_history_wf. Qed.

(* registering a wait adds exactly one registration *)
Theorem C06_add_unmet_exact : forall d w t, Permutation (regs (add_unmet d w t)) ((d, w) :: regs t).
Proof. exact add_unmet_regs. Qed.

(* one generator step that yields: the waiter was registered under the dependency at the head of _met,
   and exactly that one registration is consumed *)
Theorem C06_yield_exactly_once : forall t w t',
  twf t -> drain_step t = Some (Some w, t') ->
  exists m ms, met t = m :: ms /\ Permutation (regs t) ((m, w) :: regs t') /\ twf t' /\
    ((met t' = m :: ms /\ In m (map fst (unmet t'))) \/ (met t' = ms /\ ~ In m (map fst (unmet t')))).
Proof. exact drain_step_yield. Qed.

(* a complete drain: released exactly the registrations under met dependencies, each once, none before its
   dependency was met, none left behind *)
Theorem C06_drain_complete : forall t ws t',
  twf t -> drain t = (ws, t') ->
  met t' = [] /\ twf t' /\
  exists ys, ws = map snd ys /\ Permutation (regs t) (ys ++ regs t')
    /\ (forall d f, In (d, f) ys -> In d (met t))
    /\ (forall d f, In (d, f) (regs t') -> ~ In d (met t)).
Proof. exact drain_complete. Qed.

(* (2) each missing input is asked at most once and nothing is asked after a refusal, in every run *)
Theorem C06_prompts_bounded :
  forall (C:catalogue) (rank:name -> N) (ans:name -> option V) (I0:istore) fuel R FN hp r,
  solve C rank fuel R FN I0 hp ans = r ->
  NoDup (prompted (trace (result_state r))) /\ clean (trace (result_state r)).
Proof. intros. eapply prompts_demand_exact. eassumption. Qed.

(* (3) bounded work, the part that is a theorem: in every run - finished, failed, aborted or cut short - no line waits twice for the
   same line (the list of all (waiter, line) registrations ever made has no duplicates) ... *)
Theorem C06_no_repeated_wait :
  forall (C:catalogue) (rank:name -> N) (ans:name -> option V) (R:list name) fuel (I:istore) hp r,
  cat_wf C -> cat_nodup C -> NoDup R ->
  solve C rank fuel R [] I hp ans = r -> NoDup (edges (result_state r)).
Proof. intros C rank ans R fuel I hp r. exact (no_repeated_wait C rank ans R fuel I hp r). Qed.

(* ... and each line is in at most one place: in the queue, or registered as a waiter under ONE dependency of one of the two trackers.
   (A line is therefore only ever attempted when it is registered nowhere, and each attempt registers it at most once.) *)
Theorem C06_one_place_per_line :
  forall (C:catalogue) (rank:name -> N) (ans:name -> option V) (R:list name) fuel (I:istore) hp r,
  cat_wf C -> cat_nodup C -> NoDup R ->
  solve C rank fuel R [] I hp ans = r ->
  let s := result_state r in NoDup (unatt s ++ waiters (fdep s) ++ waiters (idep s)).
Proof. intros C rank ans R fuel I hp r. exact (tokens_unique C rank ans R fuel I hp r). Qed.

(* (4) bounded work, counted: in every run a line is attempted at most once, plus once for each DISTINCT line it was registered to wait
   for, plus once for each answered prompt that named it as waiting, plus the number of input names whose specification was loaded (a
   retry inside one attempt happens only after a new form's input specifications were loaded) *)
Theorem C06_bounded_attempts :
  forall (C:catalogue) (rank:name -> N) (ans:name -> option V) (R:list name) fuel (I:istore) hp r,
  cat_wf C -> cat_nodup C -> NoDup R ->
  solve C rank fuel R [] I hp ans = r ->
  let s := result_state r in
  forall f, NoDup (waited_for f s) /\
            (cnt f (attempts (trace s)) <= 1 + length (waited_for f s) + cnt f (released (trace s)) + length (specs s))%nat.
Proof. intros C rank ans R fuel I hp r. exact (bounded_attempts_distinct C rank ans R fuel I hp r). Qed.

(* (5) total work and termination. For a catalogue whose lines, inputs and forms lie in the finite lists UL, UI, UF, every run logs at
   most BOUND = |UL|*(1+|UI|) + |UL|^2 + |UL|*|UI| + |UI| events (line evaluations and prompts) ... *)
Theorem C06_total_work_bounded :
  forall (C:catalogue) (rank:name -> N) (ans:name -> option V) (R:list name) (I0:istore) (UL UI:list name),
  (forall F fi, c_form C F = Some fi -> incl (f_required fi ++ f_optional fi) UL) ->
  (forall F fi, c_form C F = Some fi -> incl (f_inputs fi) UI) ->
  forall fuel hp r, cat_wf C -> cat_nodup C -> NoDup R ->
  solve C rank fuel R [] I0 hp ans = r -> (length (trace (result_state r)) <= BOUND UL UI)%nat.
Proof. intros C rank ans R I0 UL UI HL HI fuel hp r. exact (run_bounded C rank ans R I0 UL UI HL HI fuel hp r). Qed.

(* ... and the solver TERMINATES: with fuel above 2*BOUND+1 (every pass of the main loop and every pop of the queue makes progress) and
   fewer forms than the retry limit of one attempt, no run - cyclic definitions, unknown names, a user who stops answering - ends for
   lack of fuel. *)
Theorem C06_terminates :
  forall (C:catalogue) (rank:name -> N) (ans:name -> option V) (R:list name) (I0:istore) (UL UI UF:list name),
  (forall F fi, c_form C F = Some fi -> incl (f_required fi ++ f_optional fi) UL) ->
  (forall F fi, c_form C F = Some fi -> incl (f_inputs fi) UI) ->
  (forall F fi, c_form C F = Some fi -> In F UF) ->
  forall fuel hp, cat_wf C -> cat_nodup C -> NoDup R -> (length UF < retry_fuel)%nat ->
  (2 * BOUND UL UI + 1 < fuel)%nat ->
  forall e sx, solve C rank fuel R [] I0 hp ans = inr (e, sx) -> e <> EOutOfFuel.
Proof. intros C rank ans R I0 UL UI UF HL HI HF fuel hp. exact (solve_terminates C rank ans R I0 UL UI UF HL HI HF fuel hp). Qed.

(* non-vacuity: the example catalogue meets the hypotheses; its cyclic run has four distinct waits *)
Ltac nodup_lit := repeat (apply NoDup_cons; [cbn [In]; intros Hx; repeat (destruct Hx as [Hx|Hx]; [discriminate Hx|]); exact Hx|]); apply NoDup_nil.
Example C06_exC_well_formed : cat_wf exC /\ cat_nodup exC.
Proof.
  split.
  - intros F fi l Hc Hin. destruct F as [|p]; [|destruct p as [p|p|]]; cbn in Hc; try discriminate; inversion Hc; subst;
      cbn [f_required f_optional app In] in Hin; repeat (destruct Hin as [Hin|Hin]; [subst l; reflexivity|]); contradiction.
  - intros F fi Hc. destruct F as [|p]; [|destruct p as [p|p|]]; cbn in Hc; try discriminate; inversion Hc; subst;
      cbn [f_required f_optional app]; nodup_lit.
Qed.
Example C06_cycle_waits :
  edges (result_state ex_cycle) = [(12%N, 11%N); (11%N, 12%N); (10%N, 20%N); (11%N, 10%N)] /\ NoDup (edges (result_state ex_cycle)).
Proof.
  split; [vm_compute; reflexivity|]. unfold ex_cycle.
  refine (no_repeated_wait exC exRank (fun _ => None) [0%N] 50 [(30%N, Some 3%Z); (31%N, Some 4%Z)] false _
            (proj1 C06_exC_well_formed) (proj2 C06_exC_well_formed) _ eq_refl).
  nodup_lit.
Qed.

(* in the cyclic run line 11 is attempted twice and waits for two distinct lines (12, then 10); the second wait is never released *)
Example C06_cycle_attempts :
  let s := result_state ex_cycle in
  (cnt 11%N (attempts (trace s)), waited_for 11%N s, cnt 11%N (released (trace s)), length (specs s)) = (2, [12%N; 10%N], 0, 2)%nat.
Proof. vm_compute. reflexivity. Qed.

(* the example catalogue lies in UL = 5 lines, UI = 2 inputs, UF = 2 forms: BOUND = 52; its cyclic run logs 6 events and, given
   106 units of fuel, ends with the lines of the cycle unresolved - not for lack of fuel *)
Example C06_exC_universe :
  (forall F fi, c_form exC F = Some fi -> incl (f_required fi ++ f_optional fi) [10%N; 11%N; 12%N; 20%N; 21%N]) /\
  (forall F fi, c_form exC F = Some fi -> incl (f_inputs fi) [30%N; 31%N]) /\
  (forall F fi, c_form exC F = Some fi -> In F [0%N; 1%N]).
Proof.
  split; [|split]; intros F fi Hc; (destruct F as [|p]; [|destruct p as [p|p|]]); cbn in Hc; try discriminate; inversion Hc; subst;
    cbn; try (intros a Ha; cbn in *; intuition); tauto.
Qed.
Example C06_cycle_terminates :
  let r := solve exC exRank 106 [0%N] [] [(30%N, Some 3%Z); (31%N, Some 4%Z)] false (fun _ => None) in
  (BOUND [10%N; 11%N; 12%N; 20%N; 21%N] [30%N; 31%N], length (trace (result_state r)), match r with inl _ => true | inr _ => false end) = (52, 6, true)%nat.
Proof. vm_compute. reflexivity. Qed.

Goal True. idtac "@@PA C06_tracker_history_wf". Abort.
Print Assumptions C06_tracker_history_wf.
Goal True. idtac "@@PA C06_drain_complete". Abort.
Print Assumptions C06_drain_complete.
Goal True. idtac "@@PA C06_prompts_bounded". Abort.
Print Assumptions C06_prompts_bounded.
Goal True. idtac "@@PA C06_no_repeated_wait". Abort.
Print Assumptions C06_no_repeated_wait.
Goal True. idtac "@@PA C06_one_place_per_line". Abort.
Print Assumptions C06_one_place_per_line.
Goal True. idtac "@@PA C06_bounded_attempts". Abort.
Print Assumptions C06_bounded_attempts.
Goal True. idtac "@@PA C06_total_work_bounded". Abort.
Print Assumptions C06_total_work_bounded.
Goal True. idtac "@@PA C06_terminates". Abort.
Print Assumptions C06_terminates.
