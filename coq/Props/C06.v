(** C06 — termination bookkeeping: the dependency tracker never loses or duplicates a waiter; prompts are bounded. *)
From Coq Require Import ZArith NArith List Bool Permutation.
From HV Require Import Solver TrackerProofs RunLemmas SolverPrompt SolverExamples.
Import ListNotations.

(* (1) every history of add_unmet / meet / generator steps keeps the representation invariant *)
Theorem C06_tracker_history_wf : forall ops, twf (fold_left apply_op ops tr_empty).
Proof. exact tracker_history_wf. Qed.

(* registering a wait adds exactly one registration *)
Theorem C06_add_unmet_exact : forall d w t, Permutation (regs (add_unmet d w t)) ((d, w) :: regs t).
Proof. exact add_unmet_regs. Qed.

(* one generator step that yields: the waiter was registered under the dependency at the head of _met,
   and exactly that one registration is consumed *)
Theorem C06_yield_exactly_once : forall t w t',
  twf t -> drain_step t = Some (Some w, t') ->
  exists m ms, met t = m :: ms /\ Permutation (regs t) ((m, w) :: regs t') /\ twf t' /\
    ((met t' = m :: ms /\ In m (map fst (unmet t'))) \/ (met t' = ms /\ ~ In m (map fst (unmet t')))).
Proof. exact drain_step_yield. Qed.

(* a complete drain: released exactly the registrations under met dependencies, each once, none before its
   dependency was met, none left behind *)
Theorem C06_drain_complete : forall t ws t',
  twf t -> drain t = (ws, t') ->
  met t' = [] /\ twf t' /\
  exists ys, ws = map snd ys /\ Permutation (regs t) (ys ++ regs t')
    /\ (forall d f, In (d, f) ys -> In d (met t))
    /\ (forall d f, In (d, f) (regs t') -> ~ In d (met t)).
Proof. exact drain_complete. Qed.

(* (2) each missing input is asked at most once and nothing is asked after a refusal, in every run *)
Theorem C06_prompts_bounded :
  forall (C:catalogue) (rank:name -> N) (ans:name -> option V) (I0:istore) fuel R FN hp r,
  solve C rank fuel R FN I0 hp ans = r ->
  NoDup (prompted (trace (result_state r))) /\ clean (trace (result_state r)).
Proof. intros. eapply prompts_demand_exact. eassumption. Qed.

Goal True. idtac "@@PA C06_tracker_history_wf". Abort.
Print Assumptions C06_tracker_history_wf.
Goal True. idtac "@@PA C06_drain_complete". Abort.
Print Assumptions C06_drain_complete.
Goal True. idtac "@@PA C06_prompts_bounded". Abort.
Print Assumptions C06_prompts_bounded.
