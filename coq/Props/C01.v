(** C01 — no silent success.  Statements only; proofs live in HV.SolverThms. *)
From Coq Require Import ZArith NArith List Bool.
From HV Require Import Solver TrackerProofs SolverInv SolverThms SolverExamples.
Import ListNotations.

(* success => nothing unimplemented, no waiter in either tracker, nothing queued, and EVERY scheduled line has a value
   that its own definition reproduces on the final stores *)
Theorem C01_no_silent_success :
  forall (C:catalogue) (rank:name -> N) (ans:name -> option V) fuel R FN I hp s,
  solve C rank fuel R FN I hp ans = inl s -> solved s = true ->
  unimpl s = [] /\ regs (fdep s) = [] /\ regs (idep s) = [] /\ unatt s = [] /\
  forall f, In f (solving s) -> valued C s f.
Proof. exact no_silent_success. Qed.

(* failure => every scheduled line without a value is named (unimplemented / blocked on a line / blocked on an input),
   and each diagnostic is genuine: the line it names is really unimplemented, really absent, really missing *)
Theorem C01_failure_is_explained :
  forall (C:catalogue) (rank:name -> N) (ans:name -> option V) fuel R FN I hp s,
  solve C rank fuel R FN I hp ans = inl s ->
  (forall f, In f (solving s) ->
      valued C s f \/ In f (unimpl s) \/ (exists d, In (d, f) (regs (fdep s))) \/ (exists i, In (i, f) (regs (idep s)))) /\
  (forall f, In f (unimpl s) -> srun C s f = OUnimpl) /\
  (forall d f, In (d, f) (regs (fdep s)) -> alookup d (vals s) = None /\ In d (solving s)) /\
  (forall i f, In (i, f) (regs (idep s)) -> alookup i (inp s) = None /\ srun C s f = ONeedI i).
Proof. exact failure_is_explained. Qed.

(* non-vacuity: concrete runs that solve, that fail on a cycle, on a refused prompt, on an unimplemented line *)
Example C01_nonvacuous :
  map is_done [ex_solved; ex_cycle; ex_prompt; ex_refused; ex_unimpl] = [true; true; true; true; true] /\
  map is_solved [ex_solved; ex_cycle; ex_prompt; ex_refused; ex_unimpl] = [true; false; true; false; false].
Proof. vm_compute. split; reflexivity. Qed.

Goal True. idtac "@@PA C01_no_silent_success". Abort.
Print Assumptions C01_no_silent_success.
Goal True. idtac "@@PA C01_failure_is_explained". Abort.
Print Assumptions C01_failure_is_explained.
