(** C19 — the fill step transmits values faithfully and files exactly the right forms. *)
From Coq Require Import ZArith List Bool String Permutation Sorted.
From HV Require Import FDF FDFProofs Fill.
Import ListNotations.
Open Scope string_scope.

(* every field name / value pair written by _create_fdf reads back, under the PDF literal-string syntax, as exactly the
   text that was mapped - for every byte string: parentheses (balanced or not), backslashes, quotes, CR, LF, any length *)
Theorem C19_fdf_entry_roundtrip : forall k v rest, read_entry (entry (k, v) ++ rest) = Some ((k, v), rest).
Proof. exact fdf_entry_roundtrip. Qed.
Theorem C19_fdf_roundtrip : forall data, read_body (S (List.length data)) (body data) = Some data.
Proof. exact fdf_roundtrip. Qed.

Theorem C19_fill_selection : forall forms,
  Permutation (fill_order forms) (filter ff_needs forms) /\
  Sorted key_leP (fill_order forms) /\
  (forall f, In f (fill_order forms) -> ff_needs f = true /\ In f forms) /\
  (NoDup (map ff_name forms) -> NoDup (map ff_name (fill_order forms))).
Proof. exact fill_selection. Qed.

Theorem C19_too_long_raises : forall m s, (m < String.length s)%nat -> text_value (Some m) s = None.
Proof. exact too_long_raises. Qed.
Theorem C19_text_never_truncated : forall m s r, text_value m s = Some r -> r = s.
Proof. exact text_value_never_truncates. Qed.
Theorem C19_bad_choice_raises : forall choices s, ~ In s choices -> choice_value choices s = None.
Proof. exact bad_choice_raises. Qed.

Example C19_nonvacuous :
  read_entry (entry ("f(1)", "O'Neil (Jr.) \ ""x"") )") ++ "tail") = Some (("f(1)", "O'Neil (Jr.) \ ""x"") )"), "tail").
Proof. vm_compute. reflexivity. Qed.

Goal True. idtac "@@PA C19_fdf_roundtrip". Abort.
Print Assumptions C19_fdf_roundtrip.
Goal True. idtac "@@PA C19_fill_selection". Abort.
Print Assumptions C19_fill_selection.
