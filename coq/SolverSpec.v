(** C05 — the result of a finished run is determined by the catalogue, the SET of requested forms/fields and the
    final input store: it equals a declarative specification that mentions no schedule.
      [Derives]  well-founded justification of a value (no self-supporting cycles)
      [DemS]     demand closure against the derivable values
    Soundness (every stored value is derivable) is an invariant; completeness (every scheduled derivable line has its
    value) holds when the loop exits; together with [Derives_fun] two runs with the same inputs agree. *)
From Coq Require Import ZArith NArith List Bool Lia Permutation.
From HV Require Import Solver TrackerProofs RunLemmas SolverInd SolverInv SolverThms SolverDem.
Import ListNotations.

Arguments add_names : simpl never.
Arguments sort_rank : simpl never.
Arguments add_unmet : simpl never.
Arguments run : simpl never.
Arguments reads : simpl never.

Section Spec.
Context (C:catalogue).

Inductive Derives (sp:list name) (I:istore) : name -> V -> Prop :=
| derive f v W :
    (forall g w, alookup g W = Some w -> Derives sp I g w) ->
    run (c_body C f) sp I W = OVal v -> Derives sp I f v.

Lemma Derives_mono sp sp' I I' f v : ssub sp sp' -> sub I I' -> Derives sp I f v -> Derives sp' I' f v.
Proof.
  intros Hs HI H. induction H as [f v W HW IH Hr].
  apply (derive sp' I' f v W IH).
  rewrite (run_mono sp sp' I I' W W Hs HI (sub_refl _)); [exact Hr|rewrite Hr; exact Logic.I].
Qed.

Lemma Derives_fun sp I f v1 : Derives sp I f v1 -> forall v2, Derives sp I f v2 -> v1 = v2.
Proof.
  intros H. induction H as [f v1 W1 HW1 IH Hr1]. intros v2 H2. destruct H2 as [f v2 W2 HW2 Hr2].
  assert (Hag : forall k a b, alookup k W1 = Some a -> alookup k W2 = Some b -> a = b).
  { intros k a b Ha Hb. apply (IH k a Ha b). apply HW2. exact Hb. }
  pose proof (run_final_agree (c_body C f) sp I W1 W2 Hag) as X.
  rewrite Hr1, Hr2 in X. specialize (X Logic.I Logic.I). inversion X. reflexivity.
Qed.

(** ** the fourth invariant: stored values are derivable; a waiting line still blocks on what it waits for *)
Record Inv4 (s:state) : Prop := {
  l_derives : forall f v, alookup f (vals s) = Some v -> Derives (specs s) (inp s) f v;
  l_fwaitneed : forall d f, In (d, f) (regs (fdep s)) -> In d (met (fdep s)) \/ srun C s f = ONeedV d
}.

Lemma Inv4_ext_same b pend s s' :
  Inv C b pend s -> ext s s' -> vals s' = vals s -> fdep s' = fdep s -> Inv4 s -> Inv4 s'.
Proof.
  intros HI (A1 & A2 & A3) Ev Ef []. constructor; rewrite ?Ev, ?Ef.
  - intros f v Hv. apply (Derives_mono (specs s) _ (inp s)); auto.
  - intros d f Hin. destruct (l_fwaitneed0 d f Hin) as [X|X]; [left; exact X|].
    destruct (i_fwait _ _ _ _ HI d f Hin) as [Y|Y]; [left; exact Y|right].
    unfold srun in *. rewrite Ev.
    destruct (run_needv_stable (specs s) (specs s') (inp s) (inp s') (vals s) (vals s) A1 A2 (sub_refl _) _ _ X) as [_ Hst].
    apply Hst. exact Y.
Qed.

Lemma Inv4_log s e : Inv4 s -> Inv4 (log e s).
Proof. intros []. constructor; assumption. Qed.

Section Run.
Context (rank:name -> N) (ans:name -> option V).

Lemma Inv4_attempt b fuel : forall f pend s s',
  Inv C b (f :: pend) s -> Inv4 s -> attempt_field C rank fuel f s = inl s' -> Inv4 s'.
Proof.
  induction fuel as [|n IH]; intros f pend s s' HI HL H; [discriminate|].
  pose proof (attempt_ext C rank ans _ _ _ _ _ _ HI H) as Hext.
  cbn [attempt_field] in H.
  apply (Inv_log _ _ _ _ (EvAttempt f)) in HI. apply (Inv4_log _ (EvAttempt f)) in HL.
  assert (Hext0 : ext (log (EvAttempt f) s) s') by exact Hext.
  set (s0 := log (EvAttempt f) s) in *. clearbody s0. clear Hext.
  destruct (run (c_body C f) (specs s0) (inp s0) (vals s0)) as [v|d|i|i|i| |c] eqn:Er; try discriminate.
  - (* value stored *)
    inversion H; subst s'; clear H. destruct HL. constructor; cbn [vals specs inp fdep].
    + intros g w Hw. destruct (N.eq_dec f g) as [<-|Hn].
      * rewrite alookup_aset_eq in Hw. inversion Hw; subst. apply (derive _ _ f w (vals s0)); assumption.
      * rewrite alookup_aset_neq in Hw by exact Hn. auto.
    + intros d g Hin. unfold meet. cbn [met unmet regs] in *.
      change (regs (Tracker (unmet (fdep s0)) (met (fdep s0) ++ [f]))) with (regs (fdep s0)) in Hin.
      destruct (l_fwaitneed0 d g Hin) as [X|X]; [left; apply in_or_app; auto|].
      destruct (N.eq_dec f d) as [<-|Hn]; [left; apply in_or_app; right; left; reflexivity|right].
      unfold srun in *. cbn [vals specs inp].
      destruct Hext0 as (A1 & A2 & A3). cbn [vals specs inp] in *.
      destruct (run_needv_stable (specs s0) (specs s0) (inp s0) (inp s0) (vals s0) (aset f v (vals s0))
                  (ssub_refl _) (sub_refl _) A3 _ _ X) as [Hn0 Hst].
      apply Hst. rewrite alookup_aset_neq by exact Hn. exact Hn0.
  - (* blocked on line d *)
    match type of H with match ?r with _ => _ end = _ => destruct r as [s3|e] eqn:Es3; [|discriminate] end.
    inversion H; subst s'; clear H.
    assert (H3 : ext s0 s3 /\ vals s3 = vals s0 /\ fdep s3 = fdep s0 /\ Inv C b (f :: pend) s3).
    { destruct (mem d (solving s0)); [inversion Es3; subst s3; exact (conj (ext_refl _) (conj eq_refl (conj eq_refl HI)))|].
      match type of Es3 with match ?r1 with _ => _ end = _ => destruct r1 as [s1|e] eqn:Es1; [|discriminate] end.
      destruct (mem d (fmap s1)); [|discriminate].
      assert (H1 : ext s0 s1 /\ vals s1 = vals s0 /\ fdep s1 = fdep s0 /\ Inv C b (f :: pend) s1).
      { destruct (mem d (fmap s0)); [inversion Es1; subst s1; exact (conj (ext_refl _) (conj eq_refl (conj eq_refl HI)))|].
        destruct (add_form_spec C rank ans _ _ _ _ Es1) as (fi & _ & _ & Ev & _ & Ef & _).
        refine (conj _ (conj Ev (conj Ef _))); [eapply (add_form_ext C rank ans); eassumption|eapply Inv_add_form; eassumption]. }
      destruct (mem d (solving s1)); [inversion Es3; subst s3; exact H1|].
      inversion Es3; subst s3; clear Es3. destruct H1 as ((A1 & A2 & A3) & Ev & Ef & HI1).
      unfold add_unattempted. cbn.
      refine (conj (conj A1 (conj A2 A3)) (conj Ev (conj Ef _))).
      (* Inv for the scheduled state: re-derive through the full attempt lemma is overkill; only i_fwait is used below *)
      destruct HI1. constructor; unfold srun in *; cbn; auto.
      - intros g Hg. apply add_names_in. apply sort_rank_in in Hg. apply in_app_or in Hg as [Hg|Hg]; auto.
      - intros g Hg. apply add_names_in. auto.
      - intros d0 g Hin. destruct (i_fw_sol d0 g Hin). split; apply add_names_in; auto.
      - intros i g Hin. apply add_names_in. eauto.
      - intros g w Hw. apply add_names_in. eauto.
      - intros g Hg. apply add_names_in. auto.
      - intros g Hg. apply add_names_in in Hg. destruct Hg as [[<-|[]]|Hg].
        + left. apply sort_rank_in, in_or_app. right. left. reflexivity.
        + destruct (i_part g Hg) as [X|X]; [left; apply sort_rank_in, in_or_app; auto|right; exact X]. }
    destruct H3 as (He3 & Ev3 & Ef3 & HI3).
    pose proof (Inv4_ext_same _ _ s0 s3 HI He3 Ev3 Ef3 HL) as HL3. destruct HL3.
    constructor; cbn [vals specs inp fdep].
    + assumption.
    + intros d0 g Hin. rewrite add_unmet_met. apply add_unmet_in in Hin as [E|Hin]; [|exact (l_fwaitneed0 _ _ Hin)].
      inversion E; subst. right. unfold srun. cbn [vals specs inp].
      destruct He3 as (A1 & A2 & A3).
      destruct (run_needv_stable (specs s0) (specs s3) (inp s0) (inp s3) (vals s0) (vals s3) A1 A2 A3 _ _ Er) as [Hn0 Hst].
      apply Hst. rewrite Ev3. exact Hn0.
  - inversion H; subst s'; clear H. destruct HL. constructor; assumption.
  - destruct (add_form C rank (c_form_of_input C i) true s0) as [s1|e] eqn:Es1; [|discriminate].
    destruct (mem i (specs s1)); [|discriminate].
    apply (IH f pend s1 s'); [eapply Inv_add_form; eassumption| |exact H].
    destruct (add_form_spec C rank ans _ _ _ _ Es1) as (fi & _ & _ & Ev & _ & Ef & _).
    apply (Inv4_ext_same _ _ s0 s1 HI); auto. eapply (add_form_ext C rank ans); eassumption.
  - inversion H; subst s'; clear H. destruct HL. constructor; assumption.
Qed.

Definition P4 (pend:list name) (s:state) : Prop := Inv C true pend s /\ Inv4 s.
Definition Q4 (s:state) : Prop := Inv C false [] s /\ Inv4 s.

Theorem main_loop_Inv4 fuel s s' :
  P4 [] s -> main_loop C rank fuel ans s = inl s' -> P4 [] s' /\ loop_cond s' = false.
Proof.
  apply (main_loop_P C rank ans P4 Q4); unfold P4, Q4.
  - intros pend pend' s0 Hp [A B]. split; [eapply Inv_perm; eassumption|exact B].
  - intros fu f pend s0 s1 [A B] H. split; [eapply Inv_attempt; eassumption|eapply Inv4_attempt; eassumption].
  - intros s0 q f [A B] Hu. split; [apply Inv_pop; assumption|]. destruct B; constructor; assumption.
  - intros s0 ws t' [A B] Hd. split; [apply Inv_fdrain; assumption|].
    destruct (drain_complete _ _ _ (i_fwf _ _ _ _ A) Hd) as (Hm & Hwf & ys & -> & Hp & Hy & Hleft).
    destruct B. constructor; unfold set_fdep, srun in *; cbn; [assumption|].
    intros d f Hin. right.
    assert (Hold : In (d, f) (regs (fdep s0))).
    { apply (Permutation_in _ (Permutation_sym Hp)). apply in_or_app. right. exact Hin. }
    destruct (l_fwaitneed0 d f Hold) as [X|X]; [exfalso; exact (Hleft d f Hin X)|exact X].
  - intros s0 [A B] Hr. split; [apply Inv_prompt; assumption|].
    pose proof (i_iwf _ _ _ _ A) as [ND _]. pose proof (i_strict _ _ _ _ A eq_refl) as Hm.
    set (l := sort_rank rank (unmet_dependencies (idep s0))).
    destruct (prompt_all_same ans l s0) as (A1 & A2 & A3 & A4 & A5 & A6 & A7 & A8 & A9).
    apply (Inv4_ext_same _ _ s0 _ A); auto.
    apply (prompt_all_ext C rank ans).
    + apply Inv_noprompt. exact A.
    + apply (Permutation_NoDup (Permutation_sym (sort_rank_perm rank _))). exact ND.
    + intros i Hi. apply sort_rank_in in Hi. split; [exact Hi|]. rewrite Hm. tauto.
  - intros s0 [A B] Hr. split; [apply Inv_noprompt; assumption|exact B].
  - intros s0 ws t' [A B] Hd. split; [apply Inv_idrain; assumption|]. destruct B; constructor; assumption.
Qed.

Lemma add_forms_vals l : forall s s', add_forms C rank l s = inl s' -> vals s' = vals s /\ fdep s' = fdep s.
Proof.
  induction l as [|F l IH]; intros s s' H; cbn [add_forms] in H; [inversion H; subst; auto|].
  destruct (add_form C rank F false s) as [s2|e] eqn:E; [|discriminate].
  destruct (add_form_spec C rank ans _ _ _ _ E) as (fi & _ & _ & Ev & _ & Ef & _).
  destruct (IH _ _ H) as [A B]. rewrite A, B. auto.
Qed.

Lemma Inv4_start R FN I hp s0 s1 :
  add_forms C rank R (init_state I hp) = inl s0 -> add_fields rank FN s0 = inl s1 -> Inv4 (start_state FN s1).
Proof.
  intros E0 E1. destruct (add_forms_vals _ _ _ E0) as [Hv Hf]. cbn in Hv, Hf.
  destruct (add_fields_spec rank ans _ _ _ E1) as (E & _ & _). rewrite E. unfold start_state, with_unatt.
  constructor; cbn; rewrite ?Hv, ?Hf; cbn; intros; [discriminate|contradiction].
Qed.

(** what a finished run looks like: the four possible states of a scheduled line *)
Theorem terminal_status fuel R FN I hp s :
  solve C rank fuel R FN I hp ans = inl s ->
  Inv C true [] s /\ Inv4 s /\
  forall f, In f (solving s) ->
    (exists v, alookup f (vals s) = Some v /\ srun C s f = OVal v) \/
    (In f (unimpl s) /\ srun C s f = OUnimpl) \/
    (exists d, In (d, f) (regs (fdep s)) /\ alookup d (vals s) = None /\ In d (solving s) /\ srun C s f = ONeedV d) \/
    (exists i, In (i, f) (regs (idep s)) /\ alookup i (inp s) = None /\ srun C s f = ONeedI i).
Proof.
  intros H. destruct (solve_prefix C rank ans _ _ _ _ _ _ H) as (s0 & s1 & E0 & E1 & Hm).
  pose proof (start_Inv C rank ans R FN I hp s0 s1 E0 E1) as HI0.
  pose proof (Inv4_start R FN I hp s0 s1 E0 E1) as HL0.
  destruct (main_loop_Inv4 fuel _ _ (conj HI0 HL0) Hm) as [[HI HL] Hc].
  split; [exact HI|split; [exact HL|]].
  destruct (loop_exit _ Hc) as (Hu & Hmi & Hmf & _).
  destruct (failure_is_explained C rank ans _ _ _ _ _ _ H) as (Hst & Hun & Hfd & Hid).
  intros f Hf. destruct (Hst f Hf) as [X|[X|[[d X]|[i X]]]].
  - left. exact X.
  - right. left. split; [exact X|apply Hun; exact X].
  - right. right. left. exists d. destruct (Hfd d f X) as [Y1 Y2]. repeat split; auto.
    destruct (l_fwaitneed _ HL d f X) as [Z|Z]; [rewrite Hmf in Z; destruct Z|exact Z].
  - right. right. right. exists i. destruct (Hid i f X) as [Y1 Y2]. auto.
Qed.

(** completeness: a scheduled line that is derivable (over any larger set of loaded specifications) has its value *)
Theorem terminal_complete fuel R FN I hp s sp' :
  solve C rank fuel R FN I hp ans = inl s -> ssub (specs s) sp' ->
  forall f v, Derives sp' (inp s) f v -> In f (solving s) -> alookup f (vals s) = Some v.
Proof.
  intros H Hsp. destruct (terminal_status _ _ _ _ _ _ H) as (HI & HL & Hst).
  assert (Hag : forall W, (forall g w, alookup g W = Some w -> Derives sp' (inp s) g w) ->
                forall k a b, alookup k (vals s) = Some a -> alookup k W = Some b -> a = b).
  { intros W HW k a b Ha Hb.
    apply (Derives_fun sp' (inp s) k a); [|apply HW; exact Hb].
    apply (Derives_mono (specs s) sp' (inp s) (inp s)); auto using sub_refl. apply (l_derives _ HL). exact Ha. }
  intros f v HD. induction HD as [f v W HW IH Hr]. intros Hf.
  specialize (Hag W HW).
  assert (Hlift : forall o, final o \/ (exists d, o = ONeedV d) \/ (exists i, o = ONeedI i /\ alookup i (inp s) = None) ->
            srun C s f = o -> run (c_body C f) sp' (inp s) (vals s) = o).
  { intros o Ho Hs. unfold srun in Hs. destruct Ho as [Ho|[[d ->]|[i [-> Hi]]]].
    - rewrite <- Hs. apply run_mono; auto using sub_refl. rewrite Hs. exact Ho.
    - destruct (run_needv_stable (specs s) sp' (inp s) (inp s) (vals s) (vals s) Hsp (sub_refl _) (sub_refl _) _ _ Hs) as [Hn Hst'].
      apply Hst'. exact Hn.
    - destruct (run_needi_stable (specs s) sp' (inp s) (inp s) (vals s) (vals s) Hsp (sub_refl _) (sub_refl _) _ _ Hs) as (_ & _ & Hst').
      apply Hst'. exact Hi. }
  destruct (Hst f Hf) as [(v0 & Hv0 & Hs0)|[(Hu & Hs0)|[(d & Hd & Hdn & Hds & Hs0)|(i & Hi & Hin & Hs0)]]].
  - (* valued *)
    rewrite Hv0. f_equal. apply (Derives_fun sp' (inp s) f v0).
    + apply (Derives_mono (specs s) sp' (inp s) (inp s)); auto using sub_refl. apply (l_derives _ HL). exact Hv0.
    + apply (derive sp' (inp s) f v W HW Hr).
  - (* unimplemented on the final stores: cannot also yield a value on an agreeing store *)
    exfalso. pose proof (Hlift OUnimpl (or_introl Logic.I) Hs0) as X.
    pose proof (run_final_agree (c_body C f) sp' (inp s) (vals s) W Hag) as Y.
    rewrite X, Hr in Y. specialize (Y Logic.I Logic.I). discriminate.
  - (* waits on d: then W defines d, so d is derivable and scheduled, hence valued: contradiction *)
    exfalso. pose proof (Hlift (ONeedV d) (or_intror (or_introl (ex_intro _ d eq_refl))) Hs0) as X.
    destruct (run_need_vs_final (c_body C f) sp' (inp s) (vals s) W d Hag X) as [w Hw]; [rewrite Hr; exact Logic.I|].
    rewrite (IH d w Hw Hds) in Hdn. discriminate.
  - exfalso. pose proof (Hlift (ONeedI i) (or_intror (or_intror (ex_intro _ i (conj eq_refl Hin)))) Hs0) as X.
    apply (run_needi_vs_final (c_body C f) sp' (inp s) (vals s) W i Hag X). rewrite Hr. exact Logic.I.
Qed.

End Run.
End Spec.
