(** C10 - the reference analysis and the interpreter agree on what a line can ask for, for the arithmetic fragment.

    [footprint_complete]: a money line whose body is `return e` with e in the arithmetic fragment (Xexp.xcomp) evaluates to a value on every
    store that holds a number for each name of its footprint (xlines / xinps): the interpreter cannot wait for, or crash on, any other name.
    [footprint_covered]: the per-year reflective check that every name of that footprint is among the references the analysis of
    FormsRefs.v collected for the line (and therefore, by C10_names_ok_<year>, declared). *)
From Coq Require Import ZArith QArith List String Bool Lia.
From HV Require Import Forms FormsCheck FormsRefs Xexp XexpProofs.
Import ListNotations.
Open Scope string_scope.

Theorem footprint_complete (c:ctx) (l:line) e x p fuel ev ei :
  l_body l = [SReturn e] -> xcomp 40 e = Some x -> l_type l = TFloat p -> (100 <= fuel)%nat ->
  reads_ok c ev ei (xlines x) (xinps x) ->
  exists q, line_value c fuel l = RVal (PNum q).
Proof.
  intros Eb Ex Ht Hf Hok. unfold line_value. rewrite Eb.
  destruct fuel as [|m]; [lia|]. rewrite exec_return.
  destruct (xcomp_sound c 40 e x Ex m [] ev ei ltac:(lia) Hok) as (q0 & E0 & _).
  rewrite E0. cbn [bind snd]. rewrite Ht. unfold typed_value. cbv beta iota zeta. eexists. reflexivity.
Qed.

Definition is_line_ref (r:ref) : bool := match r_kind r with KLine => true | _ => false end.
Definition is_input_ref (r:ref) : bool := match r_kind r with KInput => true | _ => false end.
Definition names_of (sel:ref -> bool) (rs:list ref) : list string :=
  flat_map (fun r => if sel r then match expand (r_name r) with Some ns => ns | None => [] end else []) rs.

(* 0 = not in the fragment, 1 = in the fragment and covered, 2 = in the fragment and some name of the footprint is not among the references *)
Definition footprint_class (vi:list string) (l:line) : nat :=
  match l_body l, l_type l with
  | [SReturn e], TFloat _ =>
      match xcomp 40 e with
      | Some x =>
          let rs := line_refs vi l in
          if forallb (fun n => mem_s n (names_of is_line_ref rs)) (xlines x) && forallb (fun n => mem_s n (names_of is_input_ref rs)) (xinps x)
          then 1%nat else 2%nat
      | None => 0%nat
      end
  | _, _ => 0%nat
  end.

Definition footprint_classes (cat:catalogue) (d:decls) : list nat :=
  flat_map (fun f =>
    let vi := match slookup (f_name f) d with Some fd => d_instances fd | None => [] end in
    map (footprint_class vi) (f_lines f)) cat.

Definition footprint_covered (cat:catalogue) (d:decls) : bool := forallb (fun k => negb (Nat.eqb k 2)) (footprint_classes cat d).
