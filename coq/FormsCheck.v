(** Executable helpers for translator validation: evaluate a translated line on exported stores and compare with
    what the Python run produced. *)
From Coq Require Import ZArith QArith Qround Qabs List String Bool.
From HV Require Import Forms TaxModel.
Import ListNotations.
Open Scope string_scope.

Inductive expected := XVal (v:pv) | XNeedV (n:string) | XNeedI (n:string) | XUnimpl | XCrash.

Definition status_index (st:pv) : option nat :=
  match st with
  | PEnum _ m =>
      if String.eqb m "Single" then Some 0%nat
      else if String.eqb m "MarriedFilingJointly" then Some 1%nat
      else if String.eqb m "MarriedFilingSeparately" then Some 2%nat
      else if String.eqb m "HeadOfHousehold" then Some 3%nat
      else if String.eqb m "QualifyingWidowWidower" || String.eqb m "QualifyingSurvivingSpouse" then Some 4%nat
      else None
  | _ => None
  end.

(* figure_tax of the year: amount in dollars (already rounded to cents by the caller) -> dollars *)
Definition tax_fn (y:Z) (c:taxcfg) (amount:Q) (st:pv) : res pv :=
  match status_index st with
  | None => RCrash CTypeError
  | Some i =>
      let cents := Qfloor (amount * 100) in
      match figure_tax c cents i with
      | Some micro => RVal (PNum (Qred (micro # 1000000)))
      | None => RCrash CAssert
      end
  end.

Fixpoint find_line (l:list line) (n:string) : option line :=
  match l with [] => None | x :: r => if String.eqb (l_name x) n then Some x else find_line r n end.

Definition places_of (t:ltype) : Z := match t with TFloat p => p | _ => 0%Z end.

(* 0 = agree, 2 = agree within one unit of the declared precision (only accepted when [tol]), 1 = disagree *)
Definition agree (tol:bool) (t:ltype) (r:res pv) (x:expected) : nat :=
  match r, x with
  | RVal (PNum q), XVal (PNum q') =>
      if Qeq_bool q q' then 0%nat
      else if tol && Qle_bool (Qabs (q - q')) (1 / pow10 (places_of t)) then 2%nat else 1%nat
  | RVal v, XVal v' => if pv_eqb v v' && (match v, v' with PBool _, PBool _ | PInt _, PInt _ | PStr _, PStr _ | PNone, PNone | PEnum _ _, PEnum _ _ => true | _, _ => false end) then 0%nat else 1%nat
  | RNeedV n, XNeedV n' => if String.eqb n n' then 0%nat else 1%nat
  | RNeedI n, XNeedI n' => if String.eqb n n' then 0%nat else 1%nat
  | RUnimpl, XUnimpl => 0%nat
  | RCrash _, XCrash => 0%nat
  | _, _ => 1%nat
  end.

Definition eval_line (cat:catalogue) (tax:Q -> pv -> res pv) (vals inps:list (string * pv)) (forms:list string)
           (fname:string) (inst:option string) (lname:string) : option (ltype * res pv) :=
  match find_form cat fname with
  | None => None
  | Some f =>
      match find_line (f_lines f) lname with
      | None => None
      | Some l => Some (l_type l, line_value (Ctx cat fname inst vals inps forms tax) 5000 l)
      end
  end.

(* returns the (index, code) of every check that does not agree exactly *)
Definition run_checks (cat:catalogue) (tax:Q -> pv -> res pv) (vals inps:list (string * pv)) (forms:list string)
           (checks:list (string * option string * string * expected * bool)) : list (nat * nat) :=
  let fix go (i:nat) (l:list (string * option string * string * expected * bool)) : list (nat * nat) :=
      match l with
      | [] => []
      | (fname, inst, lname, x, tol) :: r =>
          let code := match eval_line cat tax vals inps forms fname inst lname with
                      | None => 1%nat
                      | Some (t, res) => agree tol t res x
                      end in
          ((if (code =? 0)%nat then [] else [(i, code)]) ++ go (S i) r)%list
      end in
  go 0%nat checks.

(* probes: each with its own small store *)
Definition probe := (string * option string * string * list (string * pv) * list (string * pv) * list string * expected)%type.
Definition probe_code (cat:catalogue) (tax:Q -> pv -> res pv) (p:probe) : nat :=
  match p with
  | (fname, inst, lname, vals, inps, forms, x) =>
      match eval_line cat tax vals inps forms fname inst lname with
      | None => 1%nat
      | Some (t, r) => agree false t r x
      end
  end.
Definition bad_probes (cat:catalogue) (tax:Q -> pv -> res pv) (l:list probe) : list nat :=
  let fix go (i:nat) (l:list probe) : list nat :=
      match l with [] => [] | p :: r => ((if (probe_code cat tax p =? 0)%nat then [] else [i]) ++ go (S i) r)%list end in
  go 0%nat l.
Definition probes_ok (cat:catalogue) (tax:Q -> pv -> res pv) (l:list probe) : bool :=
  forallb (fun p => (probe_code cat tax p =? 0)%nat) l.

(* C09 helpers: what a line does when only the gate input is supplied *)
Definition gate_probe (cat:catalogue) (tax:Q -> pv -> res pv) (fname lname gate:string) : nat :=
  (* 0: the gate is the first thing consulted and answering yes gives "not implemented" (or a crash);
     1: the gate is the first thing consulted but a yes still yields a value / blocks elsewhere;
     2: something else is consulted first (path dependent);  3: no such line *)
  match eval_line cat tax [] [] [fname] fname None lname with
  | None => 3%nat
  | Some (_, RNeedI n) =>
      if String.eqb n gate then
        match eval_line cat tax [] [(gate, PBool true)] [fname] fname None lname with
        | Some (_, RUnimpl) | Some (_, RCrash _) => 0%nat
        | _ => 1%nat
        end
      else 2%nat
  | Some _ => 2%nat
  end.
