(** C10 — static reference analysis over the deep embedding: every name a line definition can mention, on every
    syntactic path, is collected from the AST (independently of which inputs make a path execute) and resolved against
    the year's catalogue.  Loop variables whose source is a constant (string, constant list, constant range) are
    expanded; a hole that stays open (index from [range(<input>)], the form's own instance) is only accepted in the
    instance position of a name. *)
From Coq Require Import ZArith QArith List String Bool Ascii.
From HV Require Import Forms.
Import ListNotations.
Open Scope string_scope.

Inductive piece := PcLit (s:string) | PcAlt (l:list string) | PcAny.

Inductive refk := KLine | KInput | KThreshold (form:option string) | KForm | KAttrErr.
Record ref := Ref { r_kind : refk; r_name : list piece }.

Definition aenv := list (string * list string).     (* loop variable -> the constant values it ranges over *)

Definition const_strings (e:expr) : option (list string) :=
  match e with
  | EConst (PStr s) => Some (map (fun ch => String ch "") (list_ascii_of_string s))
  | EConst (PList l) | EConst (PTuple l) =>
      fold_right (fun v acc => match acc, v with
                               | Some a, PInt z => Some (str_of_Z z :: a)
                               | Some a, PStr s => Some (s :: a)
                               | _, _ => None end) (Some []) l
  | ERange (EConst (PInt z)) => Some (map (fun k => str_of_Z (Z.of_nat k)) (seq 0 (Z.to_nat z)))
  | _ => None
  end.

Definition piece_of (a:aenv) (valid_instances:list string) (e:expr) : piece :=
  match e with
  | EConst (PStr s) => PcLit s
  | EConst (PInt z) => PcLit (str_of_Z z)
  | EVar x => match slookup x a with Some l => PcAlt l | None => PcAny end
  | EInstance => match valid_instances with [] => PcAny | l => PcAlt l end
  | EIndexE (EDict items) EInstance =>
      (* a constant that depends on the instance of the form (a closure variable computed in __init__): any of its values *)
      match fold_right (fun kv acc => match acc, snd kv with
                                      | Some a, EConst (PStr s) => Some (s :: a)
                                      | Some a, EConst (PInt z) => Some (str_of_Z z :: a)
                                      | _, _ => None end) (Some []) items with
      | Some l => PcAlt l
      | None => PcAny
      end
  | _ => PcAny
  end.

Definition pieces_of (a:aenv) (vi:list string) (parts:list npart) : list piece :=
  map (fun p => match p with NLit s => PcLit s | NExp e => piece_of a vi e end) parts.

Section Collect.
Context (vi:list string).

Fixpoint refs_e (fuel:nat) (a:aenv) (e:expr) {struct fuel} : list ref :=
  match fuel with
  | O => [Ref KAttrErr [PcLit "<analysis fuel exhausted>"]]
  | S n =>
    let re := refs_e n a in
    let rl := fix go (l:list expr) : list ref := match l with [] => [] | x :: t => (re x ++ go t)%list end in
    let rp := fix go (l:list npart) : list ref :=
        match l with [] => [] | NLit _ :: t => go t | NExp x :: t => (re x ++ go t)%list end in
    match e with
    | EConst _ | EVar _ | EInstance | EUnimpl => []
    | ERead k name => (Ref (match k with RV => KLine | RI => KInput end) (pieces_of a vi name) :: rp name)%list
    | EThreshold fo name key =>
        ((match fo with Some f => [Ref KForm [PcLit f]] | None => [] end)
         ++ Ref (KThreshold fo) (pieces_of a vi name) :: rp name
         ++ match key with Some k => re k | None => [] end)%list
    | EBin _ x y | ECmp _ x y | EAnd x y | EOr x y | EIndexE x y => (re x ++ re y)%list
    | ENot x | ENeg x | EIndex x _ | ESlice x _ _ | ERange x => re x
    | EIf c t f => (re c ++ re t ++ re f)%list
    | ECall _ args | ETuple args | EList args => rl args
    | EDict items => (fix go (l:list (expr * expr)) : list ref :=
                        match l with [] => [] | (k, v) :: t => (re k ++ re v ++ go t)%list end) items
    | EComp body x src cond =>
        let a' := match const_strings src with Some l => sset x l a | None => filter (fun kv => negb (String.eqb (fst kv) x)) a end in
        (re src ++ refs_e n a' body ++ match cond with Some c => refs_e n a' c | None => [] end)%list
    | EFStr parts => rp parts
    | EAttrErr w => [Ref KAttrErr [PcLit w]]
    | EBlock params body =>
        ((fix go (l:list (string * expr)) : list ref :=
            match l with [] => [] | (_, x) :: t => (re x ++ go t)%list end) params
         ++ refs_s n [] body)%list
    end
  end
with refs_s (fuel:nat) (a:aenv) (l:list stmt) {struct fuel} : list ref :=
  match fuel with
  | O => [Ref KAttrErr [PcLit "<analysis fuel exhausted>"]]
  | S n =>
    match l with
    | [] => []
    | s :: rest =>
      let drop x := filter (fun kv => negb (String.eqb (fst kv) x)) a in
      match s with
      | SAssign x e | SAug x _ e | SAppend x e => (refs_e n a e ++ refs_s n (drop x) rest)%list
      | STupleAssign xs e => (refs_e n a e ++ refs_s n (filter (fun kv => negb (existsb (String.eqb (fst kv)) xs)) a) rest)%list
      | SIf c t f => (refs_e n a c ++ refs_s n a t ++ refs_s n a f ++ refs_s n a rest)%list
      | SFor x src body =>
          let a' := match const_strings src with Some l => sset x l a | None => drop x end in
          (refs_e n a src ++ refs_s n a' body ++ refs_s n (drop x) rest)%list
      | SReturn e | SExpr e | SAssert e => (refs_e n a e ++ refs_s n a rest)%list
      | SContinue | SBreak => refs_s n a rest
      end
    end
  end.
End Collect.

(** * resolution against the catalogue *)
Fixpoint expand (l:list piece) : option (list string) :=     (* all concrete names, None if a hole stays open *)
  match l with
  | [] => Some [""]
  | PcLit s :: t => option_map (map (fun r => s ++ r)) (expand t)
  | PcAlt alts :: t => option_map (fun rs => flat_map (fun a => map (fun r => a ++ r) rs) alts) (expand t)
  | PcAny :: _ => None
  end.

Fixpoint split_at (c:ascii) (s:string) : option (string * string) :=
  match s with
  | EmptyString => None
  | String ch r => if Ascii.eqb ch c then Some ("", r)
                   else match split_at c r with Some (a, b) => Some (String ch a, b) | None => None end
  end.

Record fdecl := FDecl { d_lines : list string; d_inputs : list string; d_thresholds : list string; d_instances : list string;
                        d_numeric : bool }.
Definition decls := list (string * fdecl).
Definition absent_forms := list string.     (* forms deliberately not implemented: a reference aborts "not supported" *)

Definition decl_of (f:form) (vi:list string) (numeric:bool) : fdecl :=
  FDecl (map l_name (f_lines f)) (map fst (f_inputs f)) (map t_name (f_thresholds f)) vi numeric.

Definition mem_s (x:string) (l:list string) : bool := existsb (String.eqb x) l.

(* a fully concrete name "form[:inst].base" (or a local "base") *)
Definition resolve_concrete (d:decls) (absent:absent_forms) (own:string) (k:refk) (n:string) : bool :=
  let '(formpart, base) := match split_at "." n with Some (a, b) => (a, b) | None => (own, n) end in
  let '(cls, inst) := match split_at ":" formpart with Some (a, b) => (a, Some b) | None => (formpart, None) end in
  match slookup cls d with
  | None => match k with KLine | KInput => mem_s cls absent | _ => false end
  | Some fd =>
      (match inst, d_instances fd with
       | None, [] => true
       | Some i, [] => d_numeric fd
       | Some i, l => mem_s i l
       | None, _ :: _ => String.eqb cls own     (* local name inside a form that has instances *)
       end) &&
      match k with
      | KLine => mem_s base (d_lines fd)
      | KInput => mem_s base (d_inputs fd)
      | _ => false
      end
  end.

(* a name with one open hole exactly in the instance position:  "cls:" ++ hole ++ ".base" *)
Definition resolve_instance_hole (d:decls) (absent:absent_forms) (k:refk) (pre post:string) : bool :=
  match split_at ":" pre, post with
  | Some (cls, ""), String "." base =>
      match slookup cls d with
      | None => mem_s cls absent
      | Some fd => d_numeric fd && match k with KLine => mem_s base (d_lines fd) | KInput => mem_s base (d_inputs fd) | _ => false end
      end
  | _, _ => false
  end.

Definition ref_ok (d:decls) (absent:absent_forms) (own:string) (r:ref) : bool :=
  match r_kind r with
  | KAttrErr => false
  | KForm => match r_name r with [PcLit f] => match slookup f d with Some _ => true | None => false end | _ => false end
  | KThreshold fo =>
      match expand (r_name r) with
      | Some names =>
          match slookup (match fo with Some f => f | None => own end) d with
          | Some fd => forallb (fun n => mem_s n (d_thresholds fd)) names
          | None => false
          end
      | None => false
      end
  | k =>
      match expand (r_name r) with
      | Some names => forallb (resolve_concrete d absent own k) names
      | None =>
          (* exactly one open hole, in the instance position *)
          match r_name r with
          | [PcLit pre; PcAny; PcLit post] => resolve_instance_hole d absent k pre post
          | _ => false
          end
      end
  end.

Definition line_refs (vi:list string) (l:line) : list ref := refs_s vi 200 [] (l_body l).

(* the lines of the catalogue whose references do not all resolve: (form, line, number of bad references) *)
Definition bad_refs (cat:catalogue) (d:decls) (absent:absent_forms) : list (string * string * nat) :=
  flat_map (fun f =>
    let vi := match slookup (f_name f) d with Some fd => d_instances fd | None => [] end in
    flat_map (fun l =>
      let bad := filter (fun r => negb (ref_ok d absent (f_name f) r)) (line_refs vi l) in
      match bad with [] => [] | _ => [(f_name f, l_name l, List.length bad)] end) (f_lines f)) cat.

Definition names_ok (cat:catalogue) (d:decls) (absent:absent_forms) (known:list (string * string)) : bool :=
  forallb (fun b => existsb (fun k => String.eqb (fst k) (fst (fst b)) && String.eqb (snd k) (snd (fst b))) known)
          (bad_refs cat d absent).
