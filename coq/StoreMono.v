(** Store monotonicity of the Layer-B interpreter (serves C03, C09, C05).

    A line that FINISHES (with a value, or with "not implemented") on some store finishes in exactly the same way on every
    larger store: more solved lines, more supplied inputs, more participating forms - as long as the names already present keep their
    values.  So a value computed at attempt time is the value of the definition on the final store (the Layer-B counterpart of
    RunLemmas.run_mono for the abstract reader programs of Layer A), and a refusal observed on the store that holds only the gate input
    is a refusal on every store in which the gate is affirmative.
    Waiting results (RNeedV / RNeedI) are of course not stable, and crashes are not claimed to be (a KeyError for a form that does not take
    part yet disappears when it joins). *)
From Coq Require Import ZArith QArith List String Bool.
From HV Require Import Forms TaxModel FormsCheck.
Import ListNotations.
Open Scope string_scope.

Definition stable {A} (r r':res A) : Prop := match r with RVal _ | RUnimpl => r' = r | _ => True end.

Lemma stable_refl A (r:res A) : stable r r.
Proof. destruct r; simpl; auto. Qed.

Lemma bind_stable A B (ra ra':res A) (k k':A -> res B) :
  stable ra ra' -> (forall a, stable (k a) (k' a)) -> stable (bind ra k) (bind ra' k').
Proof. intros H Hk. destruct ra; simpl in *; subst; simpl; auto. Qed.

Lemma fold_stable A B (f f':res A -> B -> res A) (l:list B) :
  (forall acc acc' it, stable acc acc' -> stable (f acc it) (f' acc' it)) ->
  forall i i', stable i i' -> stable (fold_left f l i) (fold_left f' l i').
Proof. intros Hf. induction l as [|x t IH]; intros i i' Hi; simpl; [exact Hi|]. apply IH. apply Hf. exact Hi. Qed.

Record ctx_le (c c':ctx) : Prop := {
  le_cat : x_cat c' = x_cat c;
  le_form : x_form c' = x_form c;
  le_inst : x_inst c' = x_inst c;
  le_tax : x_tax c' = x_tax c;
  le_forms : forall f, existsb (String.eqb f) (x_forms c) = true -> existsb (String.eqb f) (x_forms c') = true;
  le_vals : forall k v, slookup k (x_vals c) = Some v -> slookup k (x_vals c') = Some v;
  le_inps : forall k v, slookup k (x_inps c) = Some v -> slookup k (x_inps c') = Some v
}.

Lemma ctx_le_refl c : ctx_le c c.
Proof. constructor; auto. Qed.

Lemma eval_block c0 m params body r : eval c0 (S m) (EBlock params body) r =
  (r0 <- (fix go (l:list (string * expr)) : res env :=
                 match l with
                 | [] => RVal []
                 | (x, a) :: t => v <- eval c0 m a r ;; rest <- go t ;; RVal ((x, v) :: rest)
                 end) params ;;
   sg <- exec c0 m body r0 ;;
   match snd sg with SigReturn v => RVal v | _ => RVal PNone end).
Proof. reflexivity. Qed.

Lemma exec_cons c0 n s rest r : exec c0 (S n) (s :: rest) r =
  (
      let continue_with (r':env) := exec c0 n rest r' in
      match s with
      | SAssign x e => v <- eval c0 n e r ;; continue_with (sset x v r)
      | SAug x op e =>
          match slookup x r with
          | None => RCrash CName
          | Some old => v <- eval c0 n e r ;; nv <- arith op old v ;; continue_with (sset x nv r)
          end
      | STupleAssign xs e =>
          v <- eval c0 n e r ;;
          match v with
          | PTuple vs | PList vs =>
              if (List.length vs =? List.length xs)%nat
              then continue_with (fold_left (fun acc xv => sset (fst xv) (snd xv) acc) (combine xs vs) r)
              else RCrash CTypeError
          | _ => RCrash CTypeError
          end
      | SIf cnd t f =>
          x <- eval c0 n cnd r ;;
          sg <- exec c0 n (if truthy x then t else f) r ;;
          match snd sg with SigNone => continue_with (fst sg) | _ => RVal sg end
      | SFor x src body =>
          s <- eval c0 n src r ;;
          match s with
          | PList items | PTuple items =>
              res0 <- fold_left (fun acc it =>
                                   a <- acc ;;
                                   match snd a with
                                   | SigReturn _ | SigBreak => RVal a
                                   | _ => sg <- exec c0 n body (sset x it (fst a)) ;;
                                          RVal (fst sg, match snd sg with SigReturn v => SigReturn v | SigBreak => SigBreak | _ => SigNone end)
                                   end)
                                items (RVal (r, SigNone)) ;;
              match snd res0 with SigReturn v => RVal res0 | _ => continue_with (fst res0) end
          | PStr str =>
              res0 <- fold_left (fun acc ch =>
                                   a <- acc ;;
                                   match snd a with
                                   | SigReturn _ | SigBreak => RVal a
                                   | _ => sg <- exec c0 n body (sset x (PStr (String ch "")) (fst a)) ;;
                                          RVal (fst sg, match snd sg with SigReturn v => SigReturn v | SigBreak => SigBreak | _ => SigNone end)
                                   end)
                                (list_ascii_of_string str) (RVal (r, SigNone)) ;;
              match snd res0 with SigReturn v => RVal res0 | _ => continue_with (fst res0) end
          | _ => RCrash CTypeError
          end
      | SReturn e => v <- eval c0 n e r ;; RVal (r, SigReturn v)
      | SExpr e => _ <- eval c0 n e r ;; continue_with r
      | SContinue => RVal (r, SigContinue)
      | SBreak => RVal (r, SigBreak)
      | SAssert e => v <- eval c0 n e r ;; if truthy v then continue_with r else RCrash CAssert
      | SAppend x e =>
          match slookup x r with
          | Some (PList old) => v <- eval c0 n e r ;; continue_with (sset x (PList (old ++ [v])%list) r)
          | _ => RCrash CTypeError
          end
      end).
Proof. reflexivity. Qed.

Section M.
Context (c c':ctx) (LE:ctx_le c c').

Lemma qualify_eq k : qualify c' k = qualify c k.
Proof. unfold qualify, own_name. rewrite (le_form _ _ LE), (le_inst _ _ LE). reflexivity. Qed.

Lemma do_read_stable k s : stable (do_read c k s) (do_read c' k s).
Proof.
  unfold do_read. rewrite qualify_eq. destruct k.
  - destruct (slookup (qualify c s) (x_vals c)) eqn:E; simpl; [|exact I]. rewrite (le_vals _ _ LE _ _ E). reflexivity.
  - destruct (slookup (qualify c s) (x_inps c)) eqn:E; simpl; [|exact I]. rewrite (le_inps _ _ LE _ _ E). reflexivity.
Qed.

Lemma call_fn_eq f vs : call_fn c' f vs = call_fn c f vs.
Proof. unfold call_fn. rewrite (le_tax _ _ LE). reflexivity. Qed.

Ltac step IHe IHx :=
  match goal with
  | H : stable ?a ?b |- stable ?a ?b => exact H
  | |- stable ?x ?x => apply stable_refl
  | |- stable (bind _ _) (bind _ _) => apply bind_stable; [|intros ?]
  | |- stable (eval c _ _ _) (eval c' _ _ _) => apply IHe
  | |- stable (exec c _ _ _) (exec c' _ _ _) => apply IHx
  | |- stable (call_fn c _ _) (call_fn c' _ _) => rewrite call_fn_eq; apply stable_refl
  | |- stable (if existsb ?p (x_forms c) then _ else _) _ => let E := fresh in destruct (existsb p (x_forms c)) eqn:E; [rewrite (le_forms _ _ LE _ E)|exact I]
  | |- stable (do_read c _ _) (do_read c' _ _) => apply do_read_stable
  | |- stable (fold_left _ _ _) (fold_left _ _ _) => apply fold_stable; [intros ? ? ? ?|]
  | |- stable (?f ?n ?b ?a) (?g ?n ?b ?a) => is_fix f; change (stable (exec c n b a) (exec c' n b a))
  | |- stable (?f ?l) (?g ?l) => is_fix f; induction l; cbv beta iota zeta
  | |- stable (if ?b then _ else _) (if ?b then _ else _) => destruct b
  | |- stable (match ?x with _ => _ end) (match ?x with _ => _ end) => destruct x
  | |- stable (let (_, _) := ?x in _) (let (_, _) := ?x in _) => destruct x
  end.

Lemma mono n : (forall e r, stable (eval c n e r) (eval c' n e r)) /\ (forall l r, stable (exec c n l r) (exec c' n l r)).
Proof.
  induction n as [|n [IHe IHx]]; [split; intros; exact I|].
  split.
  - intros e r. destruct e; rewrite ?eval_block; cbn [eval exec]; rewrite ?(le_cat _ _ LE), ?(le_form _ _ LE), ?(le_inst _ _ LE), ?call_fn_eq.
    all: repeat step IHe IHx.
  - intros l r. destruct l as [|s rest]; [apply stable_refl|].
    rewrite !exec_cons. destruct s; cbv beta iota zeta.
    all: repeat step IHe IHx.
Qed.
End M.

Theorem eval_mono c c' : ctx_le c c' -> forall n e r, stable (eval c n e r) (eval c' n e r).
Proof. intros LE n. exact (proj1 (mono c c' LE n)). Qed.

Theorem exec_mono c c' : ctx_le c c' -> forall n l r, stable (exec c n l r) (exec c' n l r).
Proof. intros LE n. exact (proj2 (mono c c' LE n)). Qed.

Theorem line_value_mono c c' fuel l : ctx_le c c' -> stable (line_value c fuel l) (line_value c' fuel l).
Proof. intros LE. unfold line_value. apply bind_stable; [apply exec_mono; exact LE|intros a; apply stable_refl]. Qed.

(** what was stored at attempt time is what the definition yields on any later store (C03, Layer B) *)
Corollary value_survives c c' fuel l v : ctx_le c c' -> line_value c fuel l = RVal v -> line_value c' fuel l = RVal v.
Proof. intros LE H. generalize (line_value_mono c c' fuel l LE). rewrite H. simpl. auto. Qed.

Corollary refusal_survives c c' fuel l : ctx_le c c' -> line_value c fuel l = RUnimpl -> line_value c' fuel l = RUnimpl.
Proof. intros LE H. generalize (line_value_mono c c' fuel l LE). rewrite H. simpl. auto. Qed.

(** * C09: a refusal computed on the store that holds ONLY the affirmative gate is a refusal on every store *)
Definition gate_ctx (cat:catalogue) (tax:Q -> pv -> res pv) (fname gate:string) : ctx :=
  Ctx cat fname None [] [(gate, PBool true)] [fname] tax.

Lemma gate_ctx_le cat tax fname gate c' :
  x_cat c' = cat -> x_form c' = fname -> x_inst c' = None -> x_tax c' = tax ->
  existsb (String.eqb fname) (x_forms c') = true -> slookup gate (x_inps c') = Some (PBool true) ->
  ctx_le (gate_ctx cat tax fname gate) c'.
Proof.
  intros Hc Hf Hi Ht Hfs Hg. constructor; simpl; auto.
  - intros f H. rewrite orb_false_r in H. apply String.eqb_eq in H. subst f. exact Hfs.
  - intros k v H. discriminate.
  - intros k v H. destruct (String.eqb k gate) eqn:E; [|discriminate]. apply String.eqb_eq in E. subst k. inversion H; subst. exact Hg.
Qed.

Definition gate_refuses (cat:catalogue) (tax:Q -> pv -> res pv) (fname lname gate:string) : bool :=
  match eval_line cat tax [] [(gate, PBool true)] [fname] fname None lname with
  | Some (_, RUnimpl) => true
  | _ => false
  end.

(* the line [lname] of form [fname] answers "not implemented" on EVERY store of that form in which the gate input is affirmative *)
Definition refuses_everywhere (cat:catalogue) (tax:Q -> pv -> res pv) (fname lname gate:string) : Prop :=
  exists f l, find_form cat fname = Some f /\ find_line (f_lines f) lname = Some l /\
  forall c', x_cat c' = cat -> x_form c' = fname -> x_inst c' = None -> x_tax c' = tax ->
             existsb (String.eqb fname) (x_forms c') = true -> slookup gate (x_inps c') = Some (PBool true) ->
             line_value c' 5000 l = RUnimpl.

Theorem gate_refuses_sound cat tax fname lname gate :
  gate_refuses cat tax fname lname gate = true -> refuses_everywhere cat tax fname lname gate.
Proof.
  unfold gate_refuses, eval_line, refuses_everywhere. intros H.
  destruct (find_form cat fname) as [f|] eqn:Ef; [|discriminate].
  destruct (find_line (f_lines f) lname) as [l|] eqn:El; [|discriminate].
  exists f, l. split; [reflexivity|]. split; [exact El|].
  intros c' Hc Hf Hi Ht Hfs Hg.
  apply (refusal_survives (gate_ctx cat tax fname gate) c').
  - apply gate_ctx_le; assumption.
  - unfold gate_ctx. destruct (line_value (Ctx cat fname None [] [(gate, PBool true)] [fname] tax) 5000 l); try discriminate. reflexivity.
Qed.

Theorem gate_rows_sound cat tax (rows:list (string * string * string)) :
  forallb (fun r => gate_refuses cat tax (fst (fst r)) (snd (fst r)) (snd r)) rows = true ->
  forall fn ln g, In (fn, ln, g) rows -> refuses_everywhere cat tax fn ln g.
Proof. intros H fn ln g Hin. rewrite forallb_forall in H. apply gate_refuses_sound. exact (H (fn, ln, g) Hin). Qed.

(* non-vacuity: a tiny form whose only line consults the gate inside a helper block after an assignment (a shape Gates.gate_shape does not recognise) *)
Example refuses_everywhere_example :
  let l := Line "x" (TFloat 2) true [SAssign "t" (EConst (PNum 0)); SIf (ERead RI [NLit "g"]) [SExpr EUnimpl] []; SReturn (EVar "t")] in
  refuses_everywhere [Form "f" [("g", "BooleanInput")] [l] []] (fun _ _ => RCrash COther) "f" "x" "f.g".
Proof. apply gate_refuses_sound. vm_compute. reflexivity. Qed.


(** * Extensionality in the stores (C05, Layer B): a line's result - value, refusal, crash, or the NAME it waits for - depends only on what
    each name is bound to, not on how the stores are laid out (order of the entries, shadowed duplicates, order of the participating forms) *)
Definition same {A} (r r':res A) : Prop := r' = r.
Lemma same_refl A (r:res A) : same r r.
Proof. reflexivity. Qed.
Lemma bind_same A B (ra ra':res A) (k k':A -> res B) : same ra ra' -> (forall a, same (k a) (k' a)) -> same (bind ra k) (bind ra' k').
Proof. unfold same. intros H Hk. subst ra'. destruct ra; simpl; auto. Qed.
Lemma fold_same A B (f f':res A -> B -> res A) (l:list B) :
  (forall acc acc' it, same acc acc' -> same (f acc it) (f' acc' it)) -> forall i i', same i i' -> same (fold_left f l i) (fold_left f' l i').
Proof. intros Hf. induction l as [|x t IH]; intros i i' Hi; simpl; [exact Hi|]. apply IH. apply Hf. exact Hi. Qed.

Record ctx_eqv (c c':ctx) : Prop := {
  eq_cat : x_cat c' = x_cat c;
  eq_form : x_form c' = x_form c;
  eq_inst : x_inst c' = x_inst c;
  eq_tax : x_tax c' = x_tax c;
  eq_forms : forall f, existsb (String.eqb f) (x_forms c') = existsb (String.eqb f) (x_forms c);
  eq_vals : forall k, slookup k (x_vals c') = slookup k (x_vals c);
  eq_inps : forall k, slookup k (x_inps c') = slookup k (x_inps c)
}.

Section E.
Context (c c':ctx) (EQ:ctx_eqv c c').

Lemma qualify_eq' k : qualify c' k = qualify c k.
Proof. unfold qualify, own_name. rewrite (eq_form _ _ EQ), (eq_inst _ _ EQ). reflexivity. Qed.

Lemma do_read_same k s : same (do_read c k s) (do_read c' k s).
Proof.
  unfold do_read, same. rewrite qualify_eq'. destruct k; rewrite ?(eq_vals _ _ EQ), ?(eq_inps _ _ EQ); reflexivity.
Qed.

Lemma call_fn_eq' f vs : call_fn c' f vs = call_fn c f vs.
Proof. unfold call_fn. rewrite (eq_tax _ _ EQ). reflexivity. Qed.

Ltac estep IHe IHx :=
  match goal with
  | H : same ?a ?b |- same ?a ?b => exact H
  | |- same ?x ?x => apply same_refl
  | |- same (bind _ _) (bind _ _) => apply bind_same; [|intros ?]
  | |- same (eval c _ _ _) (eval c' _ _ _) => apply IHe
  | |- same (exec c _ _ _) (exec c' _ _ _) => apply IHx
  | |- same (call_fn c _ _) (call_fn c' _ _) => rewrite call_fn_eq'; apply same_refl
  | |- same (if existsb ?p (x_forms c) then _ else _) _ => rewrite (eq_forms _ _ EQ); apply same_refl
  | |- same (do_read c _ _) (do_read c' _ _) => apply do_read_same
  | |- same (fold_left _ _ _) (fold_left _ _ _) => apply fold_same; [intros ? ? ? ?|]
  | |- same (?f ?n ?b ?a) (?g ?n ?b ?a) => is_fix f; change (same (exec c n b a) (exec c' n b a))
  | |- same (?f ?l) (?g ?l) => is_fix f; induction l; cbv beta iota zeta
  | |- same (if ?b then _ else _) (if ?b then _ else _) => destruct b
  | |- same (match ?x with _ => _ end) (match ?x with _ => _ end) => destruct x
  | |- same (let (_, _) := ?x in _) (let (_, _) := ?x in _) => destruct x
  end.

Lemma ext n : (forall e r, same (eval c n e r) (eval c' n e r)) /\ (forall l r, same (exec c n l r) (exec c' n l r)).
Proof.
  induction n as [|n [IHe IHx]]; [split; intros; reflexivity|].
  split.
  - intros e r. destruct e; rewrite ?eval_block; cbn [eval exec]; rewrite ?(eq_cat _ _ EQ), ?(eq_form _ _ EQ), ?(eq_inst _ _ EQ), ?call_fn_eq'.
    all: repeat estep IHe IHx.
  - intros l r. destruct l as [|s rest]; [apply same_refl|].
    rewrite !exec_cons. destruct s; cbv beta iota zeta.
    all: repeat estep IHe IHx.
Qed.
End E.

Theorem line_value_ext c c' fuel l : ctx_eqv c c' -> line_value c' fuel l = line_value c fuel l.
Proof.
  intros EQ. unfold line_value. apply bind_same; [exact (proj2 (ext c c' EQ fuel) (l_body l) [])|intros a; reflexivity].
Qed.

(* non-vacuity: the same bindings in another order, with a shadowed duplicate *)
Example ctx_eqv_example :
  let c1 := Ctx [] "f" None [("f.a", PNum 1); ("f.b", PNum 2)] [] ["f"; "g"] (fun _ _ => RCrash COther) in
  let c2 := Ctx [] "f" None [("f.b", PNum 2); ("f.a", PNum 1); ("f.b", PNum 7)] [] ["g"; "f"; "g"] (fun _ _ => RCrash COther) in
  forall fuel l, line_value c2 fuel l = line_value c1 fuel l.
Proof.
  intros c1 c2 fuel l. apply line_value_ext. constructor; try reflexivity.
  - intros f. simpl. destruct (String.eqb f "f"), (String.eqb f "g"); reflexivity.
  - intros k. simpl. destruct (String.eqb k "f.a") eqn:A, (String.eqb k "f.b") eqn:B; try reflexivity.
    apply String.eqb_eq in A. apply String.eqb_eq in B. congruence.
Qed.

Lemma forallb_filter A (f:A -> bool) (l:list A) : forallb f (filter f l) = true.
Proof. induction l as [|a t IH]; simpl; [reflexivity|]. destruct (f a) eqn:E; simpl; rewrite ?E; auto. Qed.
