(** C13 / C20 / C06(prompts) — what the prompting phase can do: ask only for inputs that are absent, on behalf of
    lines that read them, each at most once, nothing after a refusal; the input store only grows, by the answers. *)
From Coq Require Import ZArith NArith List Bool Lia Permutation.
From HV Require Import Solver TrackerProofs RunLemmas SolverInd SolverInv SolverThms SolverDem.
Import ListNotations.

Arguments add_names : simpl never.
Arguments sort_rank : simpl never.
Arguments add_unmet : simpl never.
Arguments run : simpl never.
Arguments ireads : simpl never.

Definition prompted (tr:list event) : list name :=
  flat_map (fun e => match e with EvPrompt i _ _ => [i] | _ => [] end) tr.

Definition no_refusal (tr:list event) : Prop := forall i nb, ~ In (EvPrompt i nb false) tr.

(* newest first: a prompt event never has a refusal older than itself *)
Fixpoint clean (tr:list event) : Prop :=
  match tr with
  | [] => True
  | EvAttempt _ :: r => clean r
  | EvPrompt _ _ _ :: r => no_refusal r /\ clean r
  end.

Section Prompt.
Context (C:catalogue) (rank:name -> N) (ans:name -> option V) (I0:istore).

Definition sireads (s:state) (f:name) : list name := ireads (c_body C f) (specs s) (inp s) (vals s).

Record Inv3 (s:state) : Prop := {
  k_sub : sub I0 (inp s);
  k_src : forall i x, alookup i (inp s) = Some x ->
      alookup i I0 = Some x \/
      (alookup i I0 = None /\ exists v nb, x = Some v /\ ans i = Some v /\ In (EvPrompt i nb true) (trace s));
  k_prompt : forall i nb a, In (EvPrompt i nb a) (trace s) ->
      alookup i I0 = None /\ nb <> [] /\ (forall f, In f nb -> In i (sireads s f) /\ In f (solving s)) /\
      (a = true -> exists v, ans i = Some v /\ alookup i (inp s) = Some (Some v)) /\
      (a = false -> ans i = None /\ refused s = true);
  k_nodup : NoDup (prompted (trace s));
  k_answered : refused s = false -> forall i, In i (prompted (trace s)) -> alookup i (inp s) <> None;
  k_clean : clean (trace s)
}.

Lemma sireads_ext s s' f i : ext s s' -> In i (sireads s f) -> In i (sireads s' f).
Proof. intros (A1 & A2 & A3). apply ireads_mono; assumption. Qed.

(* a step that leaves inputs/refused alone and only logs attempts *)
Lemma Inv3_step s s' :
  ext s s' -> ssub (solving s) (solving s') -> inp s' = inp s -> refused s' = refused s ->
  (trace s' = trace s \/ exists l, trace s' = l ++ trace s /\ forall e, In e l -> exists f, e = EvAttempt f) ->
  Inv3 s -> Inv3 s'.
Proof.
  intros He Hsol Ei Er Ht [].
  assert (Hin : forall i nb a, In (EvPrompt i nb a) (trace s') -> In (EvPrompt i nb a) (trace s)).
  { destruct Ht as [->|(l & -> & Hl)]; [auto|]. intros i nb a H. apply in_app_or in H as [H|H]; [|exact H].
    destruct (Hl _ H) as [f Hf]. discriminate. }
  assert (Hpr : prompted (trace s') = prompted (trace s)).
  { destruct Ht as [->|(l & -> & Hl)]; [reflexivity|]. unfold prompted. rewrite flat_map_app.
    replace (flat_map _ l) with (@nil name); [reflexivity|].
    induction l as [|e l IH]; [reflexivity|]. cbn. destruct (Hl e (or_introl eq_refl)) as [f ->]. cbn.
    apply IH. intros e' He'. apply Hl. right. exact He'. }
  constructor; rewrite ?Ei, ?Er, ?Hpr; try assumption.
  - intros i x Hx. destruct (k_src0 i x Hx) as [X|(X & v & nb & Y1 & Y2 & Y3)]; [left; exact X|right].
    split; [exact X|]. exists v, nb. repeat split; auto.
    destruct Ht as [->|(l & -> & Hl)]; [exact Y3|apply in_or_app; right; exact Y3].
  - intros i nb a H. destruct (k_prompt0 i nb a (Hin _ _ _ H)) as (X1 & X2 & X3 & X4 & X5).
    refine (conj X1 (conj X2 (conj _ (conj X4 X5)))). intros f Hf. destruct (X3 f Hf). split; [apply (sireads_ext s s'); auto|auto].
  - destruct Ht as [->|(l & -> & Hl)]; [exact k_clean0|].
    induction l as [|e l IH]; [exact k_clean0|]. cbn [app]. destruct (Hl e (or_introl eq_refl)) as [f ->]. cbn.
    apply IH. intros e' He'. apply Hl. right. exact He'.
Qed.

Lemma attempt_trace fuel : forall f s s', attempt_field C rank fuel f s = inl s' ->
  inp s' = inp s /\ refused s' = refused s /\
  exists l, trace s' = l ++ trace s /\ forall e, In e l -> exists g, e = EvAttempt g.
Proof.
  induction fuel as [|n IH]; intros f s s' H; [discriminate|].
  cbn [attempt_field] in H.
  assert (Hl0 : inp (log (EvAttempt f) s) = inp s /\ refused (log (EvAttempt f) s) = refused s /\
                trace (log (EvAttempt f) s) = [EvAttempt f] ++ trace s) by (cbn; auto).
  set (s0 := log (EvAttempt f) s) in *. clearbody s0. destruct Hl0 as (Hi0 & Hr0 & Ht0).
  assert (Hone : forall e, In e [EvAttempt f] -> exists g, e = EvAttempt g) by (intros e [<-|[]]; eauto).
  destruct (run (c_body C f) (specs s0) (inp s0) (vals s0)) as [v|d|i|i|i| |c] eqn:Er; try discriminate;
    try (inversion H; subst s'; cbn; rewrite Hi0, Hr0, Ht0; repeat split; eauto).
  - match type of H with match ?r with _ => _ end = _ => destruct r as [s3|e] eqn:Es3; [|discriminate] end.
    inversion H; subst s'; clear H. cbn.
    assert (H3 : inp s3 = inp s0 /\ refused s3 = refused s0 /\ trace s3 = trace s0).
    { destruct (mem d (solving s0)); [inversion Es3; subst; auto|].
      match type of Es3 with match ?r1 with _ => _ end = _ => destruct r1 as [s1|e] eqn:Es1; [|discriminate] end.
      destruct (mem d (fmap s1)); [|discriminate].
      assert (H1 : inp s1 = inp s0 /\ refused s1 = refused s0 /\ trace s1 = trace s0).
      { destruct (mem d (fmap s0)); [inversion Es1; subst; auto|].
        destruct (add_form_spec C rank ans _ _ _ _ Es1) as (fi & _ & A1 & _ & _ & _ & _ & A2 & A3 & _). auto. }
      destruct (mem d (solving s1)); inversion Es3; subst s3; clear Es3; [exact H1|].
      unfold add_unattempted. cbn. exact H1. }
    destruct H3 as (A1 & A2 & A3). rewrite A1, A2, A3, Hi0, Hr0, Ht0. repeat split; eauto.
  - destruct (add_form C rank (c_form_of_input C i) true s0) as [s1|e] eqn:Es1; [|discriminate].
    destruct (mem i (specs s1)); [|discriminate].
    destruct (add_form_spec C rank ans _ _ _ _ Es1) as (fi & _ & A1 & _ & _ & _ & _ & A2 & A3 & _).
    destruct (IH f s1 s' H) as (B1 & B2 & l & B3 & B4).
    rewrite B1, B2, B3, A1, A2, A3, Hi0, Hr0, Ht0. repeat split; auto.
    exists (l ++ [EvAttempt f]). rewrite <- app_assoc. split; [reflexivity|].
    intros e He. apply in_app_or in He as [He|He]; auto.
Qed.

Lemma Inv3_attempt b fuel f pend s s' :
  Inv C b (f :: pend) s -> Inv3 s -> attempt_field C rank fuel f s = inl s' -> Inv3 s'.
Proof.
  intros HI HK H. destruct (attempt_trace _ _ _ _ H) as (A1 & A2 & l & A3 & A4).
  apply (Inv3_step s s'); auto.
  - eapply attempt_ext; eassumption.
  - apply (attempt_grows C rank ans _ _ _ _ H).
  - right. eauto.
Qed.

(* the prompting phase *)
Lemma Inv3_prompt_all l : forall s,
  Inv C false [] s -> Inv3 s -> refused s = false -> NoDup l ->
  (forall i, In i l -> In i (map fst (unmet (idep s))) /\ ~ In i (met (idep s))) ->
  Inv3 (prompt_all ans l s).
Proof.
  induction l as [|i l IH]; intros s HI HK Hr ND Hl; cbn [prompt_all]; [exact HK|].
  inversion ND as [|? ? Hni ND']; subst.
  destruct (Hl i (or_introl eq_refl)) as [Hk Hnm].
  pose proof (i_iwf _ _ _ _ HI) as Hwf.
  destruct (key_has_reg _ _ Hwf Hk) as [f0 Hf0].
  assert (Habs : alookup i (inp s) = None).
  { destruct (i_iwait _ _ _ _ HI i f0 Hf0) as [X|[X _]]; [contradiction|exact X]. }
  assert (Hnb : unmet_dependents i (idep s) <> [] /\
                forall f, In f (unmet_dependents i (idep s)) -> In i (sireads s f) /\ In f (solving s)).
  { split.
    - unfold unmet_dependents. destruct (alookup i (unmet (idep s))) as [l0|] eqn:E.
      + apply alookup_in in E. apply (proj2 Hwf i l0 E).
      + apply alookup_none_notin in E. contradiction.
    - intros f Hf. apply unmet_dependents_regs in Hf; [|exact Hwf].
      split; [|apply (i_iw_sol _ _ _ _ HI i f Hf)].
      destruct (i_iwait _ _ _ _ HI i f Hf) as [X|[_ Y]]; [contradiction|]. apply needi_ireads. exact Y. }
  destruct Hnb as [Hnb1 Hnb2].
  assert (HI0none : alookup i I0 = None).
  { destruct (alookup i I0) as [x|] eqn:E; [|reflexivity]. rewrite (k_sub _ HK i x E) in Habs. discriminate. }
  assert (Hnotasked : ~ In i (prompted (trace s))).
  { intros X. apply (k_answered _ HK Hr i X). exact Habs. }
  destruct (ans i) as [v|] eqn:Ea.
  - (* answered *)
    match goal with |- Inv3 (prompt_all ans l ?s1) => set (s1' := s1) end.
    assert (Hext : ext s s1') by (unfold ext, s1'; cbn; repeat split; auto using ssub_refl, sub_refl, sub_aset_new).
    apply IH; [| |exact Hr|exact ND'|].
    + pose proof (Inv_prompt_all C ans [i] s HI) as X. cbn [prompt_all] in X. rewrite Ea in X. apply X.
      * constructor; [tauto|constructor].
      * intros j [<-|[]]. auto.
    + destruct HK. unfold s1'. constructor; cbn.
      * eapply sub_trans; [exact k_sub0|apply sub_aset_new; exact Habs].
      * intros j x Hx. destruct (N.eq_dec i j) as [<-|Hn].
        -- rewrite alookup_aset_eq in Hx. inversion Hx; subst. right. split; [exact HI0none|].
           exists v, (unmet_dependents i (idep s)). repeat split; auto.
        -- rewrite alookup_aset_neq in Hx by exact Hn.
           destruct (k_src0 j x Hx) as [X|(X & w & nb & Y1 & Y2 & Y3)]; [left; exact X|right].
           split; [exact X|]. exists w, nb. repeat split; auto.
      * intros j nb a [E|Hin].
        -- inversion E; subst. refine (conj HI0none (conj Hnb1 (conj _ (conj _ _)))).
           ++ intros f Hf. destruct (Hnb2 f Hf). split; [apply (sireads_ext s s1' f j Hext); auto|auto].
           ++ intros _. exists v. split; [exact Ea|apply alookup_aset_eq].
           ++ discriminate.
        -- destruct (k_prompt0 j nb a Hin) as (X1 & X2 & X3 & X4 & X5).
           refine (conj X1 (conj X2 (conj _ (conj _ X5)))).
           ++ intros f Hf. destruct (X3 f Hf). split; [apply (sireads_ext s s1' f j Hext); auto|auto].
           ++ intros Ha. destruct (X4 Ha) as (w & W1 & W2). exists w. split; [exact W1|].
              apply (proj1 (proj2 Hext)). exact W2.
      * constructor; assumption.
      * intros _ j [<-|Hj]; [rewrite alookup_aset_eq; discriminate|].
        destruct (N.eq_dec i j) as [<-|Hn]; [rewrite alookup_aset_eq; discriminate|].
        rewrite alookup_aset_neq by exact Hn. apply k_answered0; assumption.
      * split; [|exact k_clean0]. intros j nb X. destruct (k_prompt0 j nb false X) as (_ & _ & _ & _ & X5).
        destruct (X5 eq_refl) as [_ X6]. congruence.
    + unfold s1'. cbn. intros j Hj. destruct (Hl j (or_intror Hj)) as [Hk' Hm']. split; [exact Hk'|].
      intros X. apply in_app_or in X as [X|[<-|[]]]; [exact (Hm' X)|exact (Hni Hj)].
  - (* refused *)
    destruct HK. constructor; cbn.
    + assumption.
    + intros j x Hx. destruct (k_src0 j x Hx) as [X|(X & w & nb & Y1 & Y2 & Y3)]; [left; exact X|right].
      split; [exact X|]. exists w, nb. repeat split; auto.
    + intros j nb a [E|Hin].
      * inversion E; subst. refine (conj HI0none (conj Hnb1 (conj Hnb2 (conj _ _)))); [discriminate|].
        intros _. split; [exact Ea|reflexivity].
      * destruct (k_prompt0 j nb a Hin) as (X1 & X2 & X3 & X4 & X5).
        refine (conj X1 (conj X2 (conj X3 (conj X4 _)))).
        intros Ha. split; [apply (proj1 (X5 Ha))|reflexivity].
    + constructor; assumption.
    + discriminate.
    + split; [|exact k_clean0]. intros j nb X. destruct (k_prompt0 j nb false X) as (_ & _ & _ & _ & X5).
      destruct (X5 eq_refl) as [_ X6]. congruence.
Qed.

Definition P3 (pend:list name) (s:state) : Prop := Inv C true pend s /\ Inv3 s.
Definition Q3 (s:state) : Prop := Inv C false [] s /\ Inv3 s.

Lemma P3_scheme :
  (forall pend pend' s, (forall x, In x pend <-> In x pend') -> P3 pend s -> P3 pend' s) /\
  (forall fuel f pend s s', P3 (f :: pend) s -> attempt_field C rank fuel f s = inl s' -> P3 pend s') /\
  (forall s q f, P3 [] s -> unatt s = q ++ [f] -> P3 [f] (with_unatt q s)) /\
  (forall s ws t', P3 [] s -> drain (fdep s) = (ws, t') -> P3 ws (set_fdep t' s)) /\
  (forall s, P3 [] s -> refused s = false -> Q3 (prompt_all ans (sort_rank rank (unmet_dependencies (idep s))) s)) /\
  (forall s, P3 [] s -> refused s = true -> Q3 s) /\
  (forall s ws t', Q3 s -> drain (idep s) = (ws, t') -> P3 ws (set_idep t' s)).
Proof.
  unfold P3, Q3. refine (conj _ (conj _ (conj _ (conj _ (conj _ (conj _ _)))))).
  - intros pend pend' s Hp [A B]. split; [eapply Inv_perm; eassumption|exact B].
  - intros fuel f pend s s' [A B] H. split; [eapply Inv_attempt; eassumption|eapply Inv3_attempt; eassumption].
  - intros s q f [A B] Hu. split; [apply Inv_pop; assumption|]. destruct B; constructor; assumption.
  - intros s ws t' [A B] Hd. split; [apply Inv_fdrain; assumption|]. destruct B; constructor; assumption.
  - intros s [A B] Hr. split; [apply Inv_prompt; assumption|].
    pose proof (i_iwf _ _ _ _ A) as [ND _]. pose proof (i_strict _ _ _ _ A eq_refl) as Hm.
    apply Inv3_prompt_all; auto.
    + apply Inv_noprompt. exact A.
    + apply (Permutation_NoDup (Permutation_sym (sort_rank_perm rank _))). exact ND.
    + intros i Hi. apply sort_rank_in in Hi. split; [exact Hi|]. rewrite Hm. tauto.
  - intros s [A B] Hr. split; [apply Inv_noprompt; assumption|exact B].
  - intros s ws t' [A B] Hd. split; [apply Inv_idrain; assumption|]. destruct B; constructor; assumption.
Qed.

Theorem main_loop_Inv3 fuel s s' :
  P3 [] s -> main_loop C rank fuel ans s = inl s' -> P3 [] s'.
Proof.
  destruct P3_scheme as (H1 & H2 & H3 & H4 & H5 & H6 & H7).
  intros HP H. apply (main_loop_P C rank ans P3 Q3 H1 H2 H3 H4 H5 H6 H7 fuel s s' HP H).
Qed.

Theorem main_loop_Inv3_err fuel s e sx :
  P3 [] s -> main_loop C rank fuel ans s = inr (e, sx) -> Inv3 sx.
Proof.
  destruct P3_scheme as (H1 & H2 & H3 & H4 & H5 & H6 & H7).
  intros HP H. destruct (main_loop_P_err C rank ans P3 Q3 H1 H2 H3 H4 H5 H6 H7 fuel s e sx HP H) as [[_ X]|[_ X]]; exact X.
Qed.


(** ** whole runs *)
Lemma add_forms_same l : forall s s', add_forms C rank l s = inl s' ->
  inp s' = inp s /\ trace s' = trace s /\ refused s' = refused s.
Proof.
  induction l as [|F l IH]; intros s s' H; cbn [add_forms] in H; [inversion H; subst; auto|].
  destruct (add_form C rank F false s) as [s1|e] eqn:E; [|discriminate].
  destruct (add_form_spec C rank ans _ _ _ _ E) as (fi & _ & A1 & _ & _ & _ & _ & A2 & A3 & _).
  destruct (IH _ _ H) as (B1 & B2 & B3). rewrite B1, B2, B3. auto.
Qed.

Lemma Inv3_trivial s : inp s = I0 -> trace s = [] -> Inv3 s.
Proof.
  intros Ei Et. constructor; rewrite ?Ei, ?Et; cbn; try tauto.
  - apply sub_refl.
  - constructor.
Qed.

Definition result_state (r:state + (err * state)) : state :=
  match r with inl s => s | inr (_, s) => s end.

Theorem solve_Inv3 fuel R FN hp r :
  solve C rank fuel R FN I0 hp ans = r -> Inv3 (result_state r).
Proof.
  unfold solve. intros H.
  destruct (add_forms C rank R (init_state I0 hp)) as [s0|e] eqn:E0.
  2:{ subst r. cbn. apply Inv3_trivial; reflexivity. }
  destruct (add_forms_same _ _ _ E0) as (A1 & A2 & A3).
  destruct (add_fields rank FN s0) as [s1|e] eqn:E1.
  2:{ subst r. cbn. apply Inv3_trivial; assumption. }
  destruct (add_fields_spec rank ans _ _ _ E1) as (E & _ & _).
  assert (HK : Inv3 (start_state FN s1)).
  { apply Inv3_trivial; rewrite E; cbn; assumption. }
  pose proof (start_Inv C rank ans R FN I0 hp s0 s1 E0 E1) as HI.
  destruct r as [s|[e sx]]; cbn.
  - apply (main_loop_Inv3 fuel _ _ (conj HI HK) H).
  - apply (main_loop_Inv3_err fuel _ _ _ (conj HI HK) H).
Qed.

(** C13 (first half) and the prompt part of C06 *)
Theorem prompts_demand_exact fuel R FN hp r :
  solve C rank fuel R FN I0 hp ans = r ->
  let s := result_state r in
  (forall i nb a, In (EvPrompt i nb a) (trace s) ->
     alookup i I0 = None /\ nb <> [] /\ (forall f, In f nb -> In i (sireads s f) /\ In f (solving s))) /\
  NoDup (prompted (trace s)) /\ clean (trace s).
Proof.
  intros H s. pose proof (solve_Inv3 _ _ _ _ _ H) as HK. fold s in HK. split; [|split].
  - intros i nb a Hin. destruct (k_prompt _ HK i nb a Hin) as (X1 & X2 & X3 & _). auto.
  - apply (k_nodup _ HK).
  - apply (k_clean _ HK).
Qed.

(** C20 — whatever way the run ends, the input store afterwards contains everything it held before and every
    answer given; nothing else was added *)
Theorem session_keeps_answers fuel R FN hp r :
  solve C rank fuel R FN I0 hp ans = r ->
  let s := result_state r in
  sub I0 (inp s) /\
  (forall i nb, In (EvPrompt i nb true) (trace s) -> exists v, ans i = Some v /\ alookup i (inp s) = Some (Some v)) /\
  (forall i x, alookup i (inp s) = Some x -> alookup i I0 = Some x \/
     (alookup i I0 = None /\ exists v nb, x = Some v /\ ans i = Some v /\ In (EvPrompt i nb true) (trace s))).
Proof.
  intros H s. pose proof (solve_Inv3 _ _ _ _ _ H) as HK. fold s in HK. split; [|split].
  - apply (k_sub _ HK).
  - intros i nb Hin. destruct (k_prompt _ HK i nb true Hin) as (_ & _ & _ & X4 & _). auto.
  - apply (k_src _ HK).
Qed.

End Prompt.

(* re-running on the written-back store never asks again for an answer it holds *)
Theorem rerun_does_not_reask C rank ans ans' I0 fuel fuel' R FN hp r r' :
  solve C rank fuel R FN I0 hp ans = r ->
  solve C rank fuel' R FN (inp (result_state r)) hp ans' = r' ->
  forall i nb nb' a, In (EvPrompt i nb true) (trace (result_state r)) ->
                     ~ In (EvPrompt i nb' a) (trace (result_state r')).
Proof.
  intros H H' i nb nb' a Hin Hin'.
  destruct (session_keeps_answers C rank ans I0 _ _ _ _ _ H) as (_ & Hans & _).
  destruct (Hans i nb Hin) as (v & _ & Hv).
  destruct (prompts_demand_exact C rank ans' _ _ _ _ _ _ H') as (Hp & _).
  destruct (Hp i nb' a Hin') as (Hnone & _). rewrite Hv in Hnone. discriminate.
Qed.
