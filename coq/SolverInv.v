(** The core invariant of the concrete solver model and its preservation by every primitive move. *)
From Coq Require Import ZArith NArith List Bool Lia Permutation.
From HV Require Import Solver TrackerProofs RunLemmas SolverInd.
Import ListNotations.

Arguments add_names : simpl never.
Arguments sort_rank : simpl never.
Arguments add_unmet : simpl never.
Arguments run : simpl never.
Arguments regs : simpl never.

Lemma add_names_in l : forall acc x, In x (add_names l acc) <-> In x l \/ In x acc.
Proof.
  unfold add_names. induction l as [|y l IH]; intros acc x; cbn [fold_left]; [cbn; intuition|].
  rewrite IH. destruct (mem y acc) eqn:E.
  - apply mem_in in E. cbn. intuition. subst. auto.
  - rewrite in_app_iff. cbn. intuition.
Qed.

Section SortPerm.
Context (rank:name -> N).
Lemma insert_sorted_perm x l : Permutation (insert_sorted rank x l) (x :: l).
Proof.
  induction l as [|y l IH]; cbn; [reflexivity|].
  destruct (N.ltb (rank x) (rank y)); [reflexivity|].
  rewrite IH. apply perm_swap.
Qed.
Lemma sort_rank_perm_acc l : forall acc,
  Permutation (fold_left (fun a x => insert_sorted rank x a) l acc) (l ++ acc).
Proof.
  induction l as [|x l IH]; intros acc; cbn [fold_left app]; [reflexivity|].
  rewrite IH, insert_sorted_perm. symmetry. apply Permutation_middle.
Qed.
Lemma sort_rank_perm l : Permutation (sort_rank rank l) l.
Proof. unfold sort_rank. rewrite sort_rank_perm_acc, app_nil_r. reflexivity. Qed.
End SortPerm.

Lemma regs_perm_in t t' x y : Permutation (regs t) (x :: regs t') ->
  (In y (regs t) <-> y = x \/ In y (regs t')).
Proof.
  intros Hp. split; intros H.
  - apply (Permutation_in _ Hp) in H. destruct H; [left; congruence|right; assumption].
  - apply (Permutation_in _ (Permutation_sym Hp)). destruct H; [left; congruence|right; assumption].
Qed.

Lemma add_unmet_in d w t y : In y (regs (add_unmet d w t)) <-> y = (d, w) \/ In y (regs t).
Proof.
  pose proof (add_unmet_regs d w t) as Hp. split; intros H.
  - apply (Permutation_in _ Hp) in H. destruct H; [left; congruence|right; assumption].
  - apply (Permutation_in _ (Permutation_sym Hp)). destruct H; [left; congruence|right; assumption].
Qed.

Lemma key_has_reg t i : twf t -> In i (map fst (unmet t)) -> exists f, In (i, f) (regs t).
Proof.
  intros [_ NE] Hin. apply in_map_iff in Hin as ([k l] & E & Hin). cbn in E. subst k.
  pose proof (NE i l Hin) as Hne. destruct l as [|f l]; [congruence|].
  exists f. unfold regs, regs_of. rewrite in_flat_map. exists (i, f :: l). split; [exact Hin|]. cbn. auto.
Qed.

Lemma unmet_dependents_regs t i f : twf t -> In f (unmet_dependents i t) -> In (i, f) (regs t).
Proof.
  intros [ND _] H. unfold unmet_dependents in H.
  destruct (alookup i (unmet t)) as [l|] eqn:E; [|contradiction].
  apply alookup_in in E. unfold regs, regs_of. rewrite in_flat_map. exists (i, l). split; [exact E|].
  cbn. apply in_map. exact H.
Qed.

Section Inv.
Context (C:catalogue) (rank:name -> N) (ans:name -> option V).

Definition srun (s:state) (f:name) : outcome := run (c_body C f) (specs s) (inp s) (vals s).

Record Inv (strict:bool) (pend:list name) (s:state) : Prop := {
  i_fwf : twf (fdep s);
  i_iwf : twf (idep s);
  i_sound : forall f v, alookup f (vals s) = Some v -> srun s f = OVal v;
  i_unatt_sol : forall f, In f (unatt s) -> In f (solving s);
  i_pend_sol : forall f, In f pend -> In f (solving s);
  i_fw_sol : forall d f, In (d, f) (regs (fdep s)) -> In f (solving s) /\ In d (solving s);
  i_iw_sol : forall i f, In (i, f) (regs (idep s)) -> In f (solving s);
  i_vals_sol : forall f v, alookup f (vals s) = Some v -> In f (solving s);
  i_unimpl_sol : forall f, In f (unimpl s) -> In f (solving s);
  i_part : forall f, In f (solving s) ->
      In f (unatt s) \/ In f pend \/ (exists d, In (d, f) (regs (fdep s))) \/ (exists i, In (i, f) (regs (idep s)))
      \/ (exists v, alookup f (vals s) = Some v) \/ In f (unimpl s);
  i_fwait : forall d f, In (d, f) (regs (fdep s)) -> In d (met (fdep s)) \/ alookup d (vals s) = None;
  i_fmet : forall d, In d (met (fdep s)) -> exists v, alookup d (vals s) = Some v;
  i_iwait : forall i f, In (i, f) (regs (idep s)) ->
      In i (met (idep s)) \/ (alookup i (inp s) = None /\ srun s f = ONeedI i);
  i_imet : forall i, In i (met (idep s)) -> exists v, alookup i (inp s) = Some (Some v);
  i_strict : strict = true -> met (idep s) = [];
  i_unimpl_sem : forall f, In f (unimpl s) -> srun s f = OUnimpl
}.

(** ** moves that touch only the trace *)
Lemma Inv_log b pend s e : Inv b pend s -> Inv b pend (log e s).
Proof. intros []; constructor; cbn; assumption. Qed.

(** ** add_form *)
Lemma add_form_spec F io s s' :
  add_form C rank F io s = inl s' ->
  exists fi, c_form C F = Some fi /\
    inp s' = inp s /\ vals s' = vals s /\ unimpl s' = unimpl s /\ fdep s' = fdep s /\ idep s' = idep s /\
    refused s' = refused s /\ trace s' = trace s /\ edges s' = edges s /\
    (forall x, In x (specs s') <-> In x (f_inputs fi) \/ In x (specs s)) /\
    (if io then forms s' = forms s /\ fmap s' = fmap s /\ unatt s' = unatt s /\ solving s' = solving s
     else (forall x, In x (forms s') <-> x = F \/ In x (forms s)) /\
          (forall x, In x (fmap s') <-> (In x (f_required fi) \/ In x (f_optional fi)) \/ In x (fmap s)) /\
          (forall x, In x (unatt s') <-> In x (unatt s) \/ In x (f_required fi)) /\
          (forall x, In x (solving s') <-> In x (f_required fi) \/ In x (solving s))).
Proof.
  unfold add_form. destruct (c_form C F) as [fi|]; [|discriminate]. intros H. exists fi. split; [reflexivity|].
  destruct io; inversion H; subst; clear H; unfold add_unattempted;
    cbn [inp specs forms fmap vals unatt unimpl solving fdep idep refused trace edges];
    do 8 (split; [reflexivity|]); (split; [intros x; apply add_names_in|]).
  - auto.
  - split; [|split; [|split]]; intros x.
    + rewrite add_names_in. cbn [In]. intuition.
    + rewrite add_names_in, in_app_iff. tauto.
    + rewrite sort_rank_in, in_app_iff. tauto.
    + apply add_names_in.
Qed.

Lemma Inv_add_form b pend F io s s' :
  Inv b pend s -> add_form C rank F io s = inl s' -> Inv b pend s'.
Proof.
  intros HI H. destruct (add_form_spec _ _ _ _ H) as (fi & _ & Ei & Ev & Eu & Ef & Eid & _ & _ & _ & Hsp & Hrest).
  assert (Hssub : ssub (specs s) (specs s')) by (intros x Hx; apply Hsp; auto).
  assert (Hrun : forall f, final (srun s f) -> srun s' f = srun s f).
  { intros f Hf. unfold srun. rewrite Ei, Ev. apply run_mono; auto using sub_refl. }
  assert (Hsol : forall x, In x (solving s) -> In x (solving s')).
  { destruct io; [destruct Hrest as (_ & _ & _ & ->); auto|destruct Hrest as (_ & _ & _ & Hs); intros; apply Hs; auto]. }
  destruct HI. constructor; rewrite ?Ei, ?Ev, ?Eu, ?Ef, ?Eid.
  - assumption.
  - assumption.
  - intros f v Hv. rewrite Hrun; [auto|]. rewrite (i_sound0 f v Hv). exact I.
  - destruct io; [destruct Hrest as (_ & _ & -> & ->); auto|].
    destruct Hrest as (_ & _ & Hu & Hs). intros f Hf. apply Hs. apply Hu in Hf. destruct Hf; auto.
  - auto.
  - intros d f Hin. destruct (i_fw_sol0 d f Hin). auto.
  - intros i f Hin. eauto.
  - intros f v Hv. eauto.
  - intros f Hin. auto.
  - destruct io; [destruct Hrest as (_ & _ & -> & ->); auto|].
    destruct Hrest as (_ & _ & Hu & Hs). intros f Hf. apply Hs in Hf. destruct Hf as [Hf|Hf].
    + left. apply Hu. auto.
    + destruct (i_part0 f Hf) as [X|X]; [left; apply Hu; auto|right; exact X].
  - assumption.
  - assumption.
  - intros i f Hin. destruct (i_iwait0 i f Hin) as [X|[X Y]]; [left; exact X|right]. split; [exact X|].
    unfold srun in *. rewrite Ei, Ev.
    destruct (run_needi_stable (specs s) (specs s') (inp s) (inp s) (vals s) (vals s) Hssub (sub_refl _) (sub_refl _) _ _ Y) as (_ & _ & Hst).
    apply Hst. exact X.
  - assumption.
  - assumption.
  - intros f Hin. rewrite Hrun; [auto|]. rewrite (i_unimpl_sem0 f Hin). exact I.
Qed.

(** ** the attempt of one line *)
Ltac proj_simpl := cbn [inp specs forms fmap vals unatt unimpl solving fdep idep refused trace edges met unmet].

Lemma Inv_attempt b fuel : forall f pend s s',
  Inv b (f :: pend) s -> attempt_field C rank fuel f s = inl s' -> Inv b pend s'.
Proof.
  induction fuel as [|n IH]; intros f pend s s' HI H; [discriminate|].
  cbn [attempt_field] in H.
  apply (Inv_log _ _ _ (EvAttempt f)) in HI.
  set (s0 := log (EvAttempt f) s) in *. clearbody s0.
  destruct (run (c_body C f) (specs s0) (inp s0) (vals s0)) as [v|d|i|i|i| |c] eqn:Er; try discriminate.
  - (* value *)
    inversion H; subst s'; clear H. destruct HI.
    assert (Hsub : sub (vals s0) (aset f v (vals s0))).
    { destruct (alookup f (vals s0)) as [v0|] eqn:E0; [|apply sub_aset_new; exact E0].
      apply sub_aset_same. pose proof (i_sound0 f v0 E0) as X. unfold srun in X. rewrite Er in X.
      inversion X; subst. exact E0. }
    assert (Hrun : forall g, final (srun s0 g) ->
              run (c_body C g) (specs s0) (inp s0) (aset f v (vals s0)) = srun s0 g).
    { intros g Hg. apply run_mono; auto using ssub_refl, sub_refl. }
    constructor; unfold srun; proj_simpl.
    + assumption.
    + assumption.
    + intros g w Hw.
      destruct (N.eq_dec f g) as [<-|Hn].
      * rewrite alookup_aset_eq in Hw. inversion Hw; subst. rewrite Hrun; unfold srun; rewrite Er; [reflexivity|exact I].
      * rewrite alookup_aset_neq in Hw by exact Hn. rewrite Hrun; [apply i_sound0; exact Hw|].
        rewrite (i_sound0 g w Hw). exact I.
    + assumption.
    + intros g Hg. apply i_pend_sol0. right. exact Hg.
    + assumption.
    + assumption.
    + intros g w Hw. destruct (N.eq_dec f g) as [<-|Hn]; [apply i_pend_sol0; left; reflexivity|].
      rewrite alookup_aset_neq in Hw by exact Hn. eauto.
    + assumption.
    + intros g Hg. destruct (i_part0 g Hg) as [X|[[<-|X]|[X|[X|[[w X]|X]]]]].
      * left. exact X.
      * do 4 right. left. exists v. apply alookup_aset_eq.
      * right. left. exact X.
      * do 2 right. left. exact X.
      * do 3 right. left. exact X.
      * do 4 right. left. exists w. apply Hsub. exact X.
      * do 5 right. exact X.
    + intros d g Hin. destruct (i_fwait0 d g Hin) as [X|X]; [left; apply in_or_app; auto|].
      destruct (N.eq_dec f d) as [<-|Hn]; [left; apply in_or_app; right; left; reflexivity|].
      right. rewrite alookup_aset_neq by exact Hn. exact X.
    + intros d Hin. apply in_app_or in Hin as [Hin|[<-|[]]].
      * destruct (i_fmet0 d Hin) as [w Hw]. exists w. apply Hsub. exact Hw.
      * exists v. apply alookup_aset_eq.
    + intros i g Hin. destruct (i_iwait0 i g Hin) as [X|[X Y]]; [left; exact X|right]. split; [exact X|].
      unfold srun in Y.
      destruct (run_needi_stable (specs s0) (specs s0) (inp s0) (inp s0) (vals s0) (aset f v (vals s0))
                  (ssub_refl _) (sub_refl _) Hsub _ _ Y) as (_ & _ & Hst). apply Hst. exact X.
    + assumption.
    + assumption.
    + intros g Hg. rewrite Hrun; [apply i_unimpl_sem0; exact Hg|]. rewrite (i_unimpl_sem0 g Hg). exact I.
  - (* blocked on a line *)
    destruct (run_needv_stable (specs s0) (specs s0) (inp s0) (inp s0) (vals s0) (vals s0)
                (ssub_refl _) (sub_refl _) (sub_refl _) _ _ Er) as [Hdnone _].
    match type of H with match ?r with _ => _ end = _ => destruct r as [s3|e] eqn:Es3; [|discriminate] end.
    inversion H; subst s'; clear H.
    assert (H3 : Inv b (f :: pend) s3 /\ In d (solving s3) /\ vals s3 = vals s0 /\ fdep s3 = fdep s0).
    { destruct (mem d (solving s0)) eqn:Em.
      - inversion Es3; subst s3. apply mem_in in Em. auto.
      - match type of Es3 with match ?r1 with _ => _ end = _ => destruct r1 as [s1|e] eqn:Es1; [|discriminate] end.
        destruct (mem d (fmap s1)) eqn:Emf; [|discriminate].
        assert (H1 : Inv b (f :: pend) s1 /\ vals s1 = vals s0 /\ fdep s1 = fdep s0).
        { destruct (mem d (fmap s0)); [inversion Es1; subst; auto|].
          split; [eapply Inv_add_form; eassumption|].
          destruct (add_form_spec _ _ _ _ Es1) as (fi & _ & _ & Ev & _ & Ef & _). auto. }
        destruct H1 as (H1 & Ev1 & Ef1).
        destruct (mem d (solving s1)) eqn:Ems1.
        { inversion Es3; subst s3. apply mem_in in Ems1. auto. }
        inversion Es3; subst s3; clear Es3.
        unfold add_unattempted. proj_simpl.
        split; [|split; [apply add_names_in; cbn [In]; auto|auto]].
        destruct H1. constructor; unfold srun in *; proj_simpl.
        + assumption.
        + assumption.
        + assumption.
        + intros g Hg. apply add_names_in. apply sort_rank_in in Hg. apply in_app_or in Hg as [Hg|Hg]; auto.
        + intros g Hg. apply add_names_in. auto.
        + intros d0 g Hin. destruct (i_fw_sol0 d0 g Hin). split; apply add_names_in; auto.
        + intros i g Hin. apply add_names_in. eauto.
        + intros g w Hw. apply add_names_in. eauto.
        + intros g Hg. apply add_names_in. auto.
        + intros g Hg. apply add_names_in in Hg. destruct Hg as [[<-|[]]|Hg].
          * left. apply sort_rank_in, in_or_app. right. left. reflexivity.
          * destruct (i_part0 g Hg) as [X|X]; [left; apply sort_rank_in, in_or_app; auto|right; exact X].
        + assumption.
        + assumption.
        + assumption.
        + assumption.
        + assumption.
        + assumption. }
    destruct H3 as (H3 & Hd3 & Ev3 & Ef3). destruct H3.
    constructor; unfold srun in *; proj_simpl.
    + apply add_unmet_wf. assumption.
    + assumption.
    + assumption.
    + assumption.
    + intros g Hg. apply i_pend_sol0. right. exact Hg.
    + intros d0 g Hin. apply add_unmet_in in Hin as [E|Hin]; [|apply (i_fw_sol0 _ _ Hin)].
      inversion E; subst. split; [apply i_pend_sol0; left; reflexivity|exact Hd3].
    + assumption.
    + assumption.
    + assumption.
    + intros g Hg. destruct (i_part0 g Hg) as [X|[[<-|X]|[[d0 X]|X]]].
      * left. exact X.
      * right. right. left. exists d. apply add_unmet_in. left. reflexivity.
      * right. left. exact X.
      * right. right. left. exists d0. apply add_unmet_in. right. exact X.
      * do 3 right. exact X.
    + intros d0 g Hin. rewrite add_unmet_met. apply add_unmet_in in Hin as [E|Hin]; [|apply (i_fwait0 _ _ Hin)].
      inversion E; subst. right. rewrite Ev3. exact Hdnone.
    + rewrite add_unmet_met. assumption.
    + assumption.
    + assumption.
    + assumption.
    + assumption.
  - (* blocked on a missing input *)
    inversion H; subst s'; clear H.
    destruct (run_needi_stable (specs s0) (specs s0) (inp s0) (inp s0) (vals s0) (vals s0)
                (ssub_refl _) (sub_refl _) (sub_refl _) _ _ Er) as (Hinone & _ & _).
    destruct HI. constructor; unfold srun in *; proj_simpl.
    + assumption.
    + apply add_unmet_wf. assumption.
    + assumption.
    + assumption.
    + intros g Hg. apply i_pend_sol0. right. exact Hg.
    + assumption.
    + intros i0 g Hin. apply add_unmet_in in Hin as [E|Hin]; [|apply (i_iw_sol0 _ _ Hin)].
      inversion E; subst. apply i_pend_sol0. left. reflexivity.
    + assumption.
    + assumption.
    + intros g Hg. destruct (i_part0 g Hg) as [X|[[<-|X]|[X|[[i0 X]|X]]]].
      * left. exact X.
      * do 3 right. left. exists i. apply add_unmet_in. left. reflexivity.
      * right. left. exact X.
      * do 2 right. left. exact X.
      * do 3 right. left. exists i0. apply add_unmet_in. right. exact X.
      * do 4 right. exact X.
    + assumption.
    + assumption.
    + intros i0 g Hin. rewrite add_unmet_met. apply add_unmet_in in Hin as [E|Hin]; [|apply (i_iwait0 _ _ Hin)].
      inversion E; subst. right. split; [exact Hinone|exact Er].
    + rewrite add_unmet_met. assumption.
    + rewrite add_unmet_met. assumption.
    + assumption.
  - (* missing input specification: load it, retry *)
    destruct (add_form C rank (c_form_of_input C i) true s0) as [s1|e] eqn:Es1; [|discriminate].
    destruct (mem i (specs s1)); [|discriminate].
    apply (IH f pend s1 s'); [|exact H]. eapply Inv_add_form; eassumption.
  - (* unimplemented *)
    inversion H; subst s'; clear H. destruct HI. constructor; unfold srun in *; proj_simpl.
    + assumption.
    + assumption.
    + assumption.
    + assumption.
    + intros g Hg. apply i_pend_sol0. right. exact Hg.
    + assumption.
    + assumption.
    + assumption.
    + intros g Hg. apply in_app_or in Hg as [Hg|[<-|[]]]; [auto|apply i_pend_sol0; left; reflexivity].
    + intros g Hg. destruct (i_part0 g Hg) as [X|[[<-|X]|[X|[X|[X|X]]]]].
      * left. exact X.
      * do 5 right. apply in_or_app. right. left. reflexivity.
      * right. left. exact X.
      * do 2 right. left. exact X.
      * do 3 right. left. exact X.
      * do 4 right. left. exact X.
      * do 5 right. apply in_or_app. left. exact X.
    + assumption.
    + assumption.
    + assumption.
    + assumption.
    + assumption.
    + intros g Hg. apply in_app_or in Hg as [Hg|[<-|[]]]; [auto|exact Er].
Qed.


(** ** the other primitive moves *)
Lemma Inv_perm b pend pend' s : (forall x, In x pend <-> In x pend') -> Inv b pend s -> Inv b pend' s.
Proof.
  intros Hp []. constructor; try assumption.
  - intros f Hf. apply i_pend_sol0, Hp, Hf.
  - intros f Hf. destruct (i_part0 f Hf) as [X|[X|X]]; [left; exact X|right; left; apply Hp, X|right; right; exact X].
Qed.

Lemma Inv_pop s q f : Inv true [] s -> unatt s = q ++ [f] -> Inv true [f] (with_unatt q s).
Proof.
  intros [] Hu. constructor; unfold srun in *; unfold with_unatt; proj_simpl; try assumption.
  - intros g Hg. apply i_unatt_sol0. rewrite Hu. apply in_or_app. auto.
  - intros g [<-|[]]. apply i_unatt_sol0. rewrite Hu. apply in_or_app. right. left. reflexivity.
  - intros g Hg. destruct (i_part0 g Hg) as [X|[[]|X]]; [|right; right; exact X].
    rewrite Hu in X. apply in_app_or in X as [X|[<-|[]]]; [left; exact X|right; left; left; reflexivity].
Qed.

Lemma Inv_fdrain s ws t' : Inv true [] s -> drain (fdep s) = (ws, t') -> Inv true ws (set_fdep t' s).
Proof.
  intros [] Hd.
  destruct (drain_complete _ _ _ i_fwf0 Hd) as (Hm & Hwf & ys & -> & Hp & Hy & Hleft).
  assert (Hin : forall y, In y (regs (fdep s)) <-> In y ys \/ In y (regs t')).
  { intros y. split; intros H.
    - apply (Permutation_in _ Hp) in H. apply in_app_or in H. exact H.
    - apply (Permutation_in _ (Permutation_sym Hp)). apply in_or_app. exact H. }
  constructor; unfold srun in *; unfold set_fdep; proj_simpl; try assumption.
  - intros g Hg. apply in_map_iff in Hg as ([d g'] & <- & Hg). cbn. apply (i_fw_sol0 d g'). apply Hin. auto.
  - intros d g Hg. apply i_fw_sol0. apply Hin. auto.
  - intros g Hg. destruct (i_part0 g Hg) as [X|[[]|[[d X]|X]]]; [left; exact X| |do 3 right; exact X].
    apply Hin in X as [X|X].
    + right. left. apply in_map_iff. exists (d, g). auto.
    + right. right. left. exists d. exact X.
  - intros d g Hg. right. destruct (i_fwait0 d g) as [X|X]; [apply Hin; auto| |exact X].
    exfalso. exact (Hleft d g Hg X).
  - rewrite Hm. intros d [].
Qed.

Lemma Inv_idrain s ws t' : Inv false [] s -> drain (idep s) = (ws, t') -> Inv true ws (set_idep t' s).
Proof.
  intros [] Hd.
  destruct (drain_complete _ _ _ i_iwf0 Hd) as (Hm & Hwf & ys & -> & Hp & Hy & Hleft).
  assert (Hin : forall y, In y (regs (idep s)) <-> In y ys \/ In y (regs t')).
  { intros y. split; intros H.
    - apply (Permutation_in _ Hp) in H. apply in_app_or in H. exact H.
    - apply (Permutation_in _ (Permutation_sym Hp)). apply in_or_app. exact H. }
  constructor; unfold srun in *; unfold set_idep; proj_simpl; try assumption.
  - intros g Hg. apply in_map_iff in Hg as ([d g'] & <- & Hg). cbn. apply (i_iw_sol0 d g'). apply Hin. auto.
  - intros d g Hg. apply (i_iw_sol0 d). apply Hin. auto.
  - intros g Hg. destruct (i_part0 g Hg) as [X|[[]|[X|[[d X]|X]]]]; [left; exact X|do 2 right; left; exact X| |do 4 right; exact X].
    apply Hin in X as [X|X].
    + right. left. apply in_map_iff. exists (d, g). auto.
    + do 3 right. left. exists d. exact X.
  - intros d g Hg. right. destruct (i_iwait0 d g) as [X|X]; [apply Hin; auto| |exact X].
    exfalso. exact (Hleft d g Hg X).
  - rewrite Hm. intros d [].
  - intros _. exact Hm.
Qed.

Lemma Inv_noprompt s : Inv true [] s -> Inv false [] s.
Proof. intros []. constructor; try assumption. discriminate. Qed.

(* the prompting phase: every input asked is absent at that moment *)
Lemma Inv_prompt_all l : forall s,
  Inv false [] s -> NoDup l -> (forall i, In i l -> In i (map fst (unmet (idep s))) /\ ~ In i (met (idep s))) ->
  Inv false [] (prompt_all ans l s).
Proof.
  induction l as [|i l IH]; intros s HI ND Hl; cbn [prompt_all]; [exact HI|].
  inversion ND as [|? ? Hni ND']; subst.
  destruct (ans i) as [v|].
  2:{ destruct HI. constructor; unfold srun in *; proj_simpl; assumption. }
  apply IH; [|exact ND'|].
  2:{ proj_simpl. intros j Hj. destruct (Hl j (or_intror Hj)) as [Hk Hm]. split; [exact Hk|].
      unfold meet. proj_simpl. intros X. apply in_app_or in X as [X|[<-|[]]]; [exact (Hm X)|exact (Hni Hj)]. }
  destruct (Hl i (or_introl eq_refl)) as [Hk Hnm].
  destruct HI.
  destruct (key_has_reg _ _ i_iwf0 Hk) as [f0 Hf0].
  assert (Habs : alookup i (inp s) = None).
  { destruct (i_iwait0 i f0 Hf0) as [X|[X _]]; [contradiction|exact X]. }
  assert (Hsub : sub (inp s) (aset i (Some v) (inp s))) by (apply sub_aset_new; exact Habs).
  assert (Hrun : forall g, final (srun s g) ->
            run (c_body C g) (specs s) (aset i (Some v) (inp s)) (vals s) = srun s g).
  { intros g Hg. apply run_mono; auto using ssub_refl, sub_refl. }
  constructor; unfold srun in *; unfold meet; proj_simpl; try assumption.
  - intros g w Hw. rewrite Hrun; [apply i_sound0; exact Hw|]. unfold srun. rewrite (i_sound0 g w Hw). exact I.
  - intros j g Hin. destruct (i_iwait0 j g Hin) as [X|[X Y]]; [left; apply in_or_app; auto|].
    destruct (N.eq_dec i j) as [<-|Hn]; [left; apply in_or_app; right; left; reflexivity|].
    right. split; [rewrite alookup_aset_neq by exact Hn; exact X|].
    destruct (run_needi_stable (specs s) (specs s) (inp s) (aset i (Some v) (inp s)) (vals s) (vals s)
                (ssub_refl _) Hsub (sub_refl _) _ _ Y) as (_ & _ & Hst).
    apply Hst. rewrite alookup_aset_neq by exact Hn. exact X.
  - intros j Hj. apply in_app_or in Hj as [Hj|[<-|[]]].
    + destruct (i_imet0 j Hj) as [w Hw]. exists w. apply Hsub. exact Hw.
    + exists v. apply alookup_aset_eq.
  - discriminate.
  - intros g Hg. rewrite Hrun; [apply i_unimpl_sem0; exact Hg|]. unfold srun. rewrite (i_unimpl_sem0 g Hg). exact I.
Qed.

Lemma Inv_prompt s : Inv true [] s -> refused s = false ->
  Inv false [] (prompt_all ans (sort_rank rank (unmet_dependencies (idep s))) s).
Proof.
  intros HI _. pose proof (i_iwf _ _ _ HI) as [ND _]. pose proof (i_strict _ _ _ HI eq_refl) as Hm.
  apply Inv_prompt_all.
  - apply Inv_noprompt. exact HI.
  - apply (Permutation_NoDup (Permutation_sym (sort_rank_perm rank _))). exact ND.
  - intros i Hi. apply sort_rank_in in Hi. split; [exact Hi|]. rewrite Hm. tauto.
Qed.

(** ** everything together: the invariant holds when the main loop exits *)
Theorem main_loop_Inv fuel s s' :
  Inv true [] s -> main_loop C rank fuel ans s = inl s' -> Inv true [] s' /\ loop_cond s' = false.
Proof.
  apply (main_loop_P C rank ans (Inv true) (Inv false [])).
  - intros. eapply Inv_perm; eassumption.
  - intros. eapply Inv_attempt; eassumption.
  - intros. apply Inv_pop; assumption.
  - intros. apply Inv_fdrain; assumption.
  - intros. apply Inv_prompt; assumption.
  - intros. apply Inv_noprompt; assumption.
  - intros. apply Inv_idrain; assumption.
Qed.

End Inv.
