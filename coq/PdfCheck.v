(** C18 — finite checks of the PDF mappings of a form against the field table read from its bundled template. *)
From Coq Require Import ZArith List String Bool.
Import ListNotations.
Open Scope string_scope.

Record widget := Widget { w_name : string; w_kind : nat; w_maxlen : option Z; w_on : list string; w_label : option string }.
(* kinds: 0 text, 1 check box / radio, 2 choice list *)
Record mapping := Mapping {
  m_widget : string; m_line : string; m_base : string;     (* widget, mapped line as written, its base name *)
  m_kind : nat; m_true : option string; m_maxlen : option Z;
  m_line_exists : bool                                       (* the mapped line is declared (own form or the named form) *)
}.

Fixpoint find_widget (t:list widget) (n:string) : option widget :=
  match t with [] => None | w :: r => if String.eqb (w_name w) n then Some w else find_widget r n end.
Definition mem_s (x:string) (l:list string) : bool := existsb (String.eqb x) l.
Fixpoint nodup_s (l:list string) : bool := match l with [] => true | x :: r => negb (mem_s x r) && nodup_s r end.

Definition alias_ok (aliases:list (string * string)) (w line:string) : bool :=
  existsb (fun a => String.eqb (fst a) w && String.eqb (snd a) line) aliases.

(* 0 ok; 1 widget missing; 2 kind differs; 3 label names another line; 4 export value not offered; 5 length limit; 6 line missing *)
Definition mapping_code (t:list widget) (aliases:list (string * string)) (m:mapping) : nat :=
  if negb (m_line_exists m) then 6%nat else
  match find_widget t (m_widget m) with
  | None => 1%nat
  | Some w =>
      if negb (Nat.eqb (w_kind w) (m_kind m)) then 2%nat
      else if match w_label w with
              | Some l => negb (String.eqb l (m_base m)) && negb (alias_ok aliases (m_widget m) (m_line m))
              | None => false end then 3%nat
      else if match m_true m, w_on w with
              | Some v, _ :: _ => negb (mem_s v (w_on w))
              | _, _ => false end then 4%nat
      else if match w_maxlen w, m_maxlen m with
              | Some tl, Some ml => (tl <? ml)%Z
              | _, _ => false end then 5%nat
      else 0%nat
  end.

Definition bad_mappings (t:list widget) (aliases:list (string * string)) (ms:list mapping) : list (string * nat) :=
  flat_map (fun m => let c := mapping_code t aliases m in if Nat.eqb c 0 then [] else [(m_widget m, c)]) ms.

Definition form_mappings_ok (t:list widget) (aliases:list (string * string)) (ms:list mapping) : bool :=
  forallb (fun m => Nat.eqb (mapping_code t aliases m) 0) ms && nodup_s (map m_widget ms)
  && negb (match ms with [] => true | _ => false end).

Theorem form_mappings_ok_spec t aliases ms :
  form_mappings_ok t aliases ms = true ->
  (forall m, In m ms -> exists w, find_widget t (m_widget m) = Some w /\ w_kind w = m_kind m /\ m_line_exists m = true)
  /\ nodup_s (map m_widget ms) = true /\ ms <> [].
Proof.
  unfold form_mappings_ok. intros H. apply andb_prop in H as [H H3]. apply andb_prop in H as [H1 H2].
  split; [|split; [exact H2|destruct ms; [discriminate|discriminate]]].
  rewrite forallb_forall in H1. intros m Hm. specialize (H1 m Hm). unfold mapping_code in H1.
  destruct (m_line_exists m); cbn [negb] in H1; [|discriminate].
  destruct (find_widget t (m_widget m)) as [w|]; [|discriminate].
  exists w. destruct (Nat.eqb (w_kind w) (m_kind m)) eqn:E; cbn [negb] in H1; [|discriminate].
  apply Nat.eqb_eq in E. auto.
Qed.
