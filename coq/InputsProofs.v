(** C11 — theorems about the input model, for every input class and EVERY string. *)
From Coq Require Import ZArith QArith List Bool String Ascii.
From HV Require Import Inputs.
Import ListNotations.
Open Scope string_scope.

Definition has_type (k:icls) (v:ival) : Prop :=
  match k, v with
  | IString, VStr _ | IRegex _, VStr _ | ISSN, VStr _ => True
  | IBoolean, VBool _ => True
  | IInteger, VInt _ => True
  | IFloat, VFloat _ => True                          (* finite *)
  | IEnum members _, VEnum m => In m members
  | IEnum _ allow_empty, VNone => allow_empty = true
  | _, _ => False
  end.

Lemma mem_s_in x l : mem_s x l = true -> In x l.
Proof.
  unfold mem_s. rewrite existsb_exists. intros (y & Hy & E). apply String.eqb_eq in E. subst. exact Hy.
Qed.

(* a value is only ever produced from text that passed the class's own validation ... *)
Theorem getitem_gate spec prov v :
  getitem spec prov = GValue v ->
  exists k raw, spec = Some k /\ prov = Some raw /\ valid k raw = true /\ value k raw = Some v.
Proof.
  unfold getitem. destruct spec as [k|]; [|discriminate]. destruct prov as [raw|]; [|discriminate].
  destruct (valid k raw) eqn:Ev; [|discriminate]. destruct (value k raw) as [w|] eqn:Ew; [|discriminate].
  intros H. inversion H; subst. exists k, raw. auto.
Qed.

(* ... validation and conversion agree: valid text always converts (the solver's assert at solver.py:201 cannot fire,
   and __getitem__ never raises an unexpected error) *)
Theorem valid_converts k s : valid k s = true -> exists v, value k s = Some v.
Proof.
  destruct k as [| | | |members ae|m|].
  - unfold valid. destruct (value IString s); [eauto|discriminate].
  - unfold valid. destruct (value IBoolean s); [eauto|discriminate].
  - unfold valid. destruct (value IInteger s); [eauto|discriminate].
  - unfold valid. destruct (value IFloat s); [eauto|discriminate].
  - unfold valid, value. intros H. destruct (String.eqb (strip s) "" && ae); [eauto|]. rewrite H. eauto.
  - unfold value. eauto.
  - unfold value. eauto.
Qed.

Theorem getitem_never_raises spec prov : getitem spec prov <> GRaise.
Proof.
  unfold getitem. destruct spec as [k|]; [|discriminate]. destruct prov as [raw|]; [|discriminate].
  destruct (valid k raw) eqn:Ev; [|discriminate]. destruct (valid_converts _ _ Ev) as [v ->]. discriminate.
Qed.

(* rejected text is reported invalid, never converted *)
Theorem invalid_is_reported k raw : valid k raw = false -> getitem (Some k) (Some raw) = GInvalid raw.
Proof. unfold getitem. intros ->. reflexivity. Qed.

(* the declared type, and for floats: a finite number *)
Theorem value_typed k s v : value k s = Some v -> valid k s = true -> has_type k v.
Proof.
  destruct k as [| | | |members ae|m|]; unfold value, valid; cbn [has_type].
  - intros H _. inversion H; exact I.
  - destruct (mem_s _ _); [intros H _; inversion H; exact I|]. destruct (mem_s _ _); [intros H _; inversion H; exact I|discriminate].
  - destruct (String.eqb (strip s) ""); [intros H _; inversion H; exact I|].
    destruct (py_int (strip s)); cbn; [intros H _; inversion H; exact I|discriminate].
  - destruct (String.eqb (strip s) ""); [intros H _; inversion H; exact I|].
    destruct (py_float (strip s)) as [[]|]; try discriminate. intros H _. inversion H. exact I.
  - destruct (String.eqb (strip s) "" && ae) eqn:E.
    + intros H _. inversion H. apply andb_prop in E. apply E.
    + destruct (mem_s (strip s) members) eqn:Em; [|discriminate]. intros H _. inversion H. apply mem_s_in. exact Em.
  - intros H _. inversion H; exact I.
  - intros H _. inversion H; exact I.
Qed.

Corollary store_value_typed k raw v : getitem (Some k) (Some raw) = GValue v -> has_type k v.
Proof.
  intros H. destruct (getitem_gate _ _ _ H) as (k' & raw' & E1 & E2 & Hv & Hval). inversion E1; inversion E2; subst.
  eapply value_typed; eassumption.
Qed.

Corollary float_input_is_finite raw v : getitem (Some IFloat) (Some raw) = GValue v -> exists q, v = VFloat q.
Proof. intros H. apply store_value_typed in H. destruct v; try contradiction. eauto. Qed.

(* supplied is never missing; absent never defaults *)
Theorem supplied_not_missing k raw : getitem (Some k) (Some raw) <> GMissing /\ getitem (Some k) (Some raw) <> GMissingSpec.
Proof. unfold getitem. destruct (valid k raw); [destruct (value k raw)|]; split; discriminate. Qed.
Theorem absent_not_defaulted k : getitem (Some k) None = GMissing.
Proof. reflexivity. Qed.

(* SSN: exactly nine digits after removing dashes; booleans: exactly the ten spellings *)
Theorem ssn_valid_shape s : valid ISSN s = true ->
  exists v, value ISSN s = Some (VStr v) /\ String.length v = 9%nat /\ all_digits v = true.
Proof.
  unfold valid, value. intros H. apply andb_prop in H as [H1 H2]. apply Nat.eqb_eq in H1. eauto.
Qed.
