(** Facts about [Forms.qround] (round half to even on the exact value, the model of Python's round on a money line):
    monotone, the identity on the grid of its precision, values on the grid, commutes with max/min, compatible with
    shifts by an even number of grid units. *)
From Coq Require Import ZArith QArith Qround Qminmax Qfield Lqa Lia.
From HV Require Import Forms XexpProofs.

Lemma pow10_pos p : (0 <= p)%Z -> 0 < pow10 p.
Proof.
  intros Hp. unfold pow10. change 0 with (inject_Z 0). rewrite <- Zlt_Qlt. apply Z.pow_pos_nonneg; lia.
Qed.

Lemma floor_unique q z : inject_Z z <= q -> q < inject_Z (z + 1) -> Qfloor q = z.
Proof.
  intros H1 H2.
  pose proof (Qfloor_le q) as F1. pose proof (Qlt_floor q) as F2.
  assert (A : (z < Qfloor q + 1)%Z) by (rewrite Zlt_Qlt; eapply Qle_lt_trans; eassumption).
  assert (B : (Qfloor q < z + 1)%Z) by (rewrite Zlt_Qlt; eapply Qle_lt_trans; eassumption).
  lia.
Qed.

Lemma rhe_bounds q : (Qfloor q <= rhe q <= Qfloor q + 1)%Z.
Proof.
  unfold rhe. destruct (Qcompare (q - inject_Z (Qfloor q)) (1 # 2)); try lia.
  destruct (Z.even (Qfloor q)); lia.
Qed.

Lemma rhe_Z k : rhe (inject_Z k) = k.
Proof.
  unfold rhe. rewrite Qfloor_Z.
  assert (E : Qcompare (inject_Z k - inject_Z k) (1 # 2) = Lt).
  { rewrite <- Qlt_alt. assert (inject_Z k - inject_Z k == 0) by ring. rewrite H. reflexivity. }
  rewrite E. reflexivity.
Qed.

Lemma rhe_mono x y : x <= y -> (rhe x <= rhe y)%Z.
Proof.
  intros H.
  pose proof (Qfloor_resp_le _ _ H) as Hf.
  destruct (Z.eq_dec (Qfloor x) (Qfloor y)) as [E|NE].
  - unfold rhe. rewrite E. set (f := Qfloor y).
    destruct (Qcompare_spec (x - inject_Z f) (1 # 2)) as [X|X|X];
      destruct (Qcompare_spec (y - inject_Z f) (1 # 2)) as [Y|Y|Y]; try lia;
      try (destruct (Z.even f); lia); exfalso; lra.
  - pose proof (rhe_bounds x). pose proof (rhe_bounds y). lia.
Qed.

Lemma Qfloor_shift q k : Qfloor (q + inject_Z k) = (Qfloor q + k)%Z.
Proof.
  apply floor_unique.
  - rewrite inject_Z_plus. pose proof (Qfloor_le q). lra.
  - pose proof (Qlt_floor q) as H. rewrite !inject_Z_plus in *. lra.
Qed.

Lemma rhe_shift q k : Z.even k = true -> rhe (q + inject_Z k) = (rhe q + k)%Z.
Proof.
  intros Ek. unfold rhe. rewrite Qfloor_shift.
  assert (E : Qcompare (q + inject_Z k - inject_Z (Qfloor q + k)) (1 # 2) = Qcompare (q - inject_Z (Qfloor q)) (1 # 2)).
  { apply Qcompare_comp; [rewrite inject_Z_plus; ring|reflexivity]. }
  rewrite E. rewrite Z.even_add, Ek.
  destruct (Qcompare (q - inject_Z (Qfloor q)) (1 # 2)); try lia.
  destruct (Z.even (Qfloor q)); cbn; lia.
Qed.

(** the grid of precision [p] *)
Definition grid (p:Z) (x:Q) : Prop := exists k:Z, x == inject_Z k / pow10 p.

Lemma qround_val p x : qround p x == inject_Z (rhe (x * pow10 p)) / pow10 p.
Proof. unfold qround. apply Qred_correct. Qed.

Lemma qround_grid p x : grid p (qround p x).
Proof. exists (rhe (x * pow10 p)). apply qround_val. Qed.

Lemma qround_id p x : (0 <= p)%Z -> grid p x -> qround p x == x.
Proof.
  intros Hp [k Hk]. rewrite qround_val.
  pose proof (pow10_pos p Hp) as P.
  assert (E : x * pow10 p == inject_Z k) by (rewrite Hk; field; lra).
  rewrite (rhe_comp _ _ E), rhe_Z. symmetry. exact Hk.
Qed.

Lemma qround_mono p x y : (0 <= p)%Z -> x <= y -> qround p x <= qround p y.
Proof.
  intros Hp H. rewrite !qround_val.
  pose proof (pow10_pos p Hp) as P.
  assert (M : x * pow10 p <= y * pow10 p) by (apply Qmult_le_compat_r; lra).
  pose proof (rhe_mono _ _ M) as R. rewrite Zle_Qle in R.
  apply Qle_shift_div_l; [exact P|].
  assert (E : inject_Z (rhe (x * pow10 p)) / pow10 p * pow10 p == inject_Z (rhe (x * pow10 p))) by (field; lra).
  rewrite E. exact R.
Qed.

Lemma qround_0 p : qround p 0 == 0.
Proof.
  rewrite qround_val. assert (E : 0 * pow10 p == inject_Z 0) by (change (inject_Z 0) with 0; ring).
  rewrite (rhe_comp _ _ E), rhe_Z. reflexivity.
Qed.

Lemma qround_nonneg p x : (0 <= p)%Z -> 0 <= x -> 0 <= qround p x.
Proof. intros Hp H. rewrite <- (qround_0 p). apply qround_mono; assumption. Qed.
Lemma qround_nonpos p x : (0 <= p)%Z -> x <= 0 -> qround p x <= 0.
Proof. intros Hp H. rewrite <- (qround_0 p). apply qround_mono; assumption. Qed.

Lemma qround_max p x y : (0 <= p)%Z -> qround p (Qmax x y) == Qmax (qround p x) (qround p y).
Proof.
  intros Hp. destruct (Q.max_spec x y) as [[H E]|[H E]]; rewrite (qround_compat p _ _ E).
  - symmetry. apply Q.max_r. apply qround_mono; [exact Hp|lra].
  - symmetry. apply Q.max_l. apply qround_mono; assumption.
Qed.
Lemma qround_min p x y : (0 <= p)%Z -> qround p (Qmin x y) == Qmin (qround p x) (qround p y).
Proof.
  intros Hp. destruct (Q.min_spec x y) as [[H E]|[H E]]; rewrite (qround_compat p _ _ E).
  - symmetry. apply Q.min_l. apply qround_mono; [exact Hp|lra].
  - symmetry. apply Q.min_r. apply qround_mono; assumption.
Qed.

Lemma grid_0 p : grid p 0.
Proof. exists 0%Z. unfold Qdiv. change (inject_Z 0) with 0. ring. Qed.
Lemma grid_add p x y : (0 <= p)%Z -> grid p x -> grid p y -> grid p (x + y).
Proof.
  intros Hp [a Ha] [b Hb]. exists (a + b)%Z. pose proof (pow10_pos p Hp).
  rewrite Ha, Hb, inject_Z_plus. field. lra.
Qed.
Lemma grid_opp p x : (0 <= p)%Z -> grid p x -> grid p (- x).
Proof.
  intros Hp [a Ha]. exists (- a)%Z. pose proof (pow10_pos p Hp).
  rewrite Ha, inject_Z_opp. field. lra.
Qed.
Lemma grid_sub p x y : (0 <= p)%Z -> grid p x -> grid p y -> grid p (x - y).
Proof. intros Hp Hx Hy. unfold Qminus. apply grid_add; [exact Hp|exact Hx|apply grid_opp; assumption]. Qed.
Lemma grid_comp p x y : x == y -> grid p x -> grid p y.
Proof. intros E [k Hk]. exists k. rewrite <- E. exact Hk. Qed.
Lemma grid_max p x y : grid p x -> grid p y -> grid p (Qmax x y).
Proof. intros Hx Hy. destruct (Q.max_spec x y) as [[_ E]|[_ E]]; eapply grid_comp; try (symmetry; exact E); assumption. Qed.
Lemma grid_min p x y : grid p x -> grid p y -> grid p (Qmin x y).
Proof. intros Hx Hy. destruct (Q.min_spec x y) as [[_ E]|[_ E]]; eapply grid_comp; try (symmetry; exact E); assumption. Qed.

(* nothing on the grid lies strictly between 0 and one unit *)
Lemma grid_gap p x : (0 <= p)%Z -> grid p x -> x <= 0 \/ 1 / pow10 p <= x.
Proof.
  intros Hp [k Hk]. pose proof (pow10_pos p Hp) as P.
  destruct (Z_le_gt_dec k 0) as [L|G].
  - left. rewrite Hk. rewrite Zle_Qle in L. change (inject_Z 0) with 0 in L.
    apply Qle_shift_div_r; [exact P|]. lra.
  - right. rewrite Hk. assert (L : (1 <= k)%Z) by lia. rewrite Zle_Qle in L. change (inject_Z 1) with 1 in L.
    apply Qle_shift_div_l; [exact P|].
    assert (E : 1 / pow10 p * pow10 p == 1) by (field; lra). rewrite E. exact L.
Qed.

(* adding a whole even number of grid units commutes with rounding (Python's round is half-to-even) *)
Lemma qround_shift p x d k : (0 <= p)%Z -> d == inject_Z k / pow10 p -> Z.even k = true -> qround p (x + d) == qround p x + d.
Proof.
  intros Hp Hd Ek. pose proof (pow10_pos p Hp) as P. rewrite !qround_val.
  assert (E : (x + d) * pow10 p == x * pow10 p + inject_Z k) by (rewrite Hd; field; lra).
  rewrite (rhe_comp _ _ E), (rhe_shift _ _ Ek), inject_Z_plus, Hd. field. lra.
Qed.

(* whole dollars on a cents line *)
Lemma qround2_shift_dollars x n : qround 2 (x + inject_Z n) == qround 2 x + inject_Z n.
Proof.
  apply (qround_shift 2 x (inject_Z n) (100 * n)); [lia| |].
  - unfold pow10. rewrite inject_Z_mult. change (inject_Z (10 ^ 2)) with 100. change (inject_Z 100) with 100. field.
  - rewrite Z.even_mul. reflexivity.
Qed.

Lemma qround_eq_compat p x y : x == y -> qround p x == qround p y.
Proof. intros E. rewrite (qround_compat p x y E). reflexivity. Qed.
