(** Renumbering the copies of a form: a total over the copies does not depend on how they are numbered.
    [qsum_perm] is the arithmetic fact; [s1_eval] shows that the catalogue interpreter evaluates the aggregation shape
    the forms use, sum([v[f'<pre>{n}<post>'] for n in range(i['<count>'])]), to exactly that total, for any count;
    [s1_renumber]: two stores that differ by a permutation of the copy numbers give the same stored line. *)
From Coq Require Import ZArith QArith Qminmax List String Bool Lia Permutation.
From HV Require Import Forms Xexp XexpProofs Rounding.
Import ListNotations.
Open Scope string_scope.


Lemma qsum_perm l l' : Permutation l l' -> qsum l == qsum l'.
Proof.
  induction 1; cbn.
  - reflexivity.
  - rewrite IHPermutation. reflexivity.
  - ring.
  - rewrite IHPermutation1. exact IHPermutation2.
Qed.

Lemma qsum_app l l' : qsum (l ++ l') == qsum l + qsum l'.
Proof. induction l; cbn; [ring|rewrite IHl; ring]. Qed.

Theorem copies_sum_renumber (f:nat -> Q) (n:nat) (p:list nat) :
  Permutation p (seq 0 n) -> qsum (map f p) == qsum (map f (seq 0 n)).
Proof. intros H. apply qsum_perm. apply Permutation_map. exact H. Qed.

(** the aggregation shape *)
Definition s1_name (pre post:string) (k:nat) : string := pre ++ str_of_Z (Z.of_nat k) ++ post ++ "".
Definition s1_body (pre post x:string) : expr := ERead RV [NLit pre; NExp (EVar x); NLit post].
Definition s1 (pre post x cnt:string) : expr :=
  ECall FSum [EComp (s1_body pre post x) x (ERange (ERead RI [NLit cnt])) None].



Section S1.
Context (c:ctx).

Lemma body_eval m r pre post x k q :
  slookup (qualify c (s1_name pre post k)) (x_vals c) = Some (PNum q) ->
  eval c (S (S (S m))) (s1_body pre post x) (sset x (PInt (Z.of_nat k)) r) = RVal (PNum q).
Proof.
  intros H. unfold s1_body.
  change (eval c (S (S (S m))) (ERead RV [NLit pre; NExp (EVar x); NLit post]) (sset x (PInt (Z.of_nat k)) r))
    with (s <- (rest <- (v <- eval c (S (S m)) (EVar x) (sset x (PInt (Z.of_nat k)) r) ;; s0 <- str_of v ;;
                          rest0 <- (rest1 <- RVal "" ;; RVal (post ++ rest1)) ;; RVal (s0 ++ rest0)) ;; RVal (pre ++ rest)) ;; do_read c RV s).
  change (eval c (S (S m)) (EVar x) (sset x (PInt (Z.of_nat k)) r))
    with (match slookup x (sset x (PInt (Z.of_nat k)) r) with Some v => RVal v | None => RCrash CName end).
  rewrite slookup_sset_same. cbn [bind str_of].
  unfold do_read. unfold s1_name in H. rewrite H. reflexivity.
Qed.

(* the comprehension builds the list of the copies' values *)
Lemma comp_fold m r pre post x (f:nat -> Q) : forall (ks:list nat) (acc:list pv),
  (forall k, In k ks -> slookup (qualify c (s1_name pre post k)) (x_vals c) = Some (PNum (f k))) ->
  fold_left (fun acc it =>
               a <- acc ;;
               keep <- RVal true ;;
               if keep then v <- eval c (S (S (S m))) (s1_body pre post x) (sset x it r) ;; RVal (a ++ [v])%list else RVal a)
            (map (fun k => PInt (Z.of_nat k)) ks) (RVal acc)
  = RVal (acc ++ map (fun k => PNum (f k)) ks)%list.
Proof.
  induction ks as [|k ks IH]; intros acc H; cbn [map fold_left].
  - rewrite app_nil_r. reflexivity.
  - cbn [bind]. rewrite (body_eval m r pre post x k (f k) (H k (or_introl eq_refl))). cbn [bind].
    rewrite IH; [|intros k' Hk'; apply H; right; exact Hk'].
    rewrite <- app_assoc. reflexivity.
Qed.


Theorem s1_eval m r pre post x cnt (N:nat) (f:nat -> Q) :
  slookup (qualify c cnt) (x_inps c) = Some (PInt (Z.of_nat N)) ->
  (forall k, (k < N)%nat -> slookup (qualify c (s1_name pre post k)) (x_vals c) = Some (PNum (f k))) ->
  (0 < N)%nat ->
  exists q, eval c (S (S (S (S (S (S m)))))) (s1 pre post x cnt) r = RVal (PNum q) /\ q == qsum (map f (seq 0 N)).
Proof.
  intros Hc Hv HN. unfold s1.
  rewrite eval_call1.
  change (eval c (S (S (S (S (S m))))) (EComp (s1_body pre post x) x (ERange (ERead RI [NLit cnt])) None) r)
    with (s <- eval c (S (S (S (S m)))) (ERange (ERead RI [NLit cnt])) r ;;
          match (match s with PStr str => PList (map (fun ch => PStr (String ch "")) (list_ascii_of_string str)) | _ => s end) with
          | PList items | PTuple items =>
              a <- fold_left (fun acc it =>
                           a <- acc ;;
                           let r' := sset x it r in
                           keep <- RVal true ;;
                           if keep then v <- eval c (S (S (S (S m)))) (s1_body pre post x) r' ;; RVal (a ++ [v])%list else RVal a)
                        items (RVal []) ;;
              RVal (PList a)
          | _ => RCrash CTypeError
          end).
  change (eval c (S (S (S (S m)))) (ERange (ERead RI [NLit cnt])) r)
    with (x0 <- eval c (S (S (S m))) (ERead RI [NLit cnt]) r ;;
          match x0 with
          | PInt z => RVal (PList (map (fun k => PInt (Z.of_nat k)) (seq 0 (Z.to_nat z))))
          | PBool b => RVal (PList (if b then [PInt 0] else []))
          | _ => RCrash CTypeError
          end).
  rewrite eval_read_lit. unfold do_read. rewrite Hc.
  rewrite bind_val. cbv beta iota. rewrite bind_val. cbv beta iota. rewrite Nat2Z.id.
  rewrite (comp_fold (S m) r pre post x f (seq 0 N) []); [|intros k Hk; apply Hv; apply in_seq in Hk; lia].
  rewrite !bind_val. cbn [app call_fn].
  destruct N as [|N']; [lia|].
  rewrite <- cons_seq. cbn [map fold_left bind].
  change (arith OAdd (PInt 0) (PNum (f 0%nat))) with (RVal (PNum (Qred (inject_Z 0 + f 0%nat)))).
  rewrite <- map_map with (f := f) (g := PNum).
  destruct (sum_fold (map f (seq 1 N')) (Qred (inject_Z 0 + f 0%nat))) as (q & E & Hq).
  exists q. split; [exact E|].
  rewrite Hq, Qred_correct. cbn [qsum]. change (inject_Z 0) with 0. ring.
Qed.

End S1.

(** two stores that differ by a renumbering of the copies store the same value on the aggregating line *)
Theorem s1_renumber (c c':ctx) m r r' pre post x cnt (N:nat) (f:nat -> Q) (p:list nat) (pi:nat -> nat) places :
  slookup (qualify c cnt) (x_inps c) = Some (PInt (Z.of_nat N)) ->
  slookup (qualify c' cnt) (x_inps c') = Some (PInt (Z.of_nat N)) ->
  (0 < N)%nat ->
  (forall k, (k < N)%nat -> slookup (qualify c (s1_name pre post k)) (x_vals c) = Some (PNum (f k))) ->
  (* copy k of the first store is copy [pi k] of the second *)
  (forall k, (k < N)%nat -> slookup (qualify c' (s1_name pre post k)) (x_vals c') = Some (PNum (f (pi k)))) ->
  Permutation (map pi (seq 0 N)) (seq 0 N) ->
  exists q q',
    eval c (S (S (S (S (S (S m)))))) (s1 pre post x cnt) r = RVal (PNum q) /\
    eval c' (S (S (S (S (S (S m)))))) (s1 pre post x cnt) r' = RVal (PNum q') /\
    qround places q = qround places q'.
Proof.
  intros Hc Hc' HN Hv Hv' Hp.
  destruct (s1_eval c m r pre post x cnt N f Hc Hv HN) as (q & E & Hq).
  destruct (s1_eval c' m r' pre post x cnt N (fun k => f (pi k)) Hc' Hv' HN) as (q' & E' & Hq').
  exists q, q'. split; [exact E|]. split; [exact E'|].
  apply qround_compat. rewrite Hq, Hq'.
  rewrite <- (map_map pi f). symmetry. apply qsum_perm. apply Permutation_map. exact Hp.
Qed.

(** the line bodies in which the forms use the shape *)
Definition shapeA pre post x cnt : list stmt := [SReturn (s1 pre post x cnt)].
Definition shapeB pre post x cnt : list stmt :=
  [SReturn (EIf (ECmp CGt (ERead RI [NLit cnt]) (EConst (PInt 0))) (s1 pre post x cnt) (EConst PNone))].
Definition shapeC pre post x cnt : list stmt := [SReturn (ECall FFloat [s1 pre post x cnt])].

Definition s1_of (e:expr) : option (string * string * string * string) :=
  match e with
  | ECall FSum [EComp (ERead RV [NLit pre; NExp (EVar x'); NLit post]) x (ERange (ERead RI [NLit cnt])) None] =>
      if String.eqb x x' then Some (pre, post, x, cnt) else None
  | _ => None
  end.
Lemma s1_of_sound e pre post x cnt : s1_of e = Some (pre, post, x, cnt) -> e = s1 pre post x cnt.
Proof.
  unfold s1_of. intros H.
  repeat match type of H with context[match ?v with _ => _ end] => destruct v eqn:?; try discriminate end.
  inversion H; subst.
  match goal with E : String.eqb _ _ = true |- _ => apply String.eqb_eq in E; subst end.
  reflexivity.
Qed.

Definition s1_shape (body:list stmt) : option (nat * (string * string * string * string)) :=
  match body with
  | [SReturn (EIf (ECmp CGt (ERead RI [NLit cnt']) (EConst (PInt 0%Z))) e (EConst PNone))] =>
      match s1_of e with
      | Some (pre, post, x, cnt) => if String.eqb cnt cnt' then Some (1%nat, (pre, post, x, cnt)) else None
      | None => None
      end
  | [SReturn (ECall FFloat [e])] => option_map (fun t => (2%nat, t)) (s1_of e)
  | [SReturn e] => option_map (fun t => (0%nat, t)) (s1_of e)
  | _ => None
  end.

Lemma s1_shape_sound body k pre post x cnt : s1_shape body = Some (k, (pre, post, x, cnt)) ->
  (k = 0%nat /\ body = shapeA pre post x cnt) \/ (k = 1%nat /\ body = shapeB pre post x cnt) \/ (k = 2%nat /\ body = shapeC pre post x cnt).
Proof.
  intros H. unfold s1_shape in H.
  destruct body as [|s [|s0 l0]]; try discriminate.
  2: { exfalso. destruct s; try discriminate.
       repeat match type of H with context[match ?v with _ => _ end] => destruct v; try discriminate end. }
  destruct s; try discriminate.
  assert (GA : option_map (fun t => (0%nat, t)) (s1_of e) = Some (k, (pre, post, x, cnt)) -> k = 0%nat /\ [SReturn e] = shapeA pre post x cnt).
  { destruct (s1_of e) as [[[[a b] c0] d]|] eqn:E; cbn; [|discriminate]. intros K. inversion K; subst.
    split; [reflexivity|]. unfold shapeA. rewrite (s1_of_sound _ _ _ _ _ E). reflexivity. }
  destruct e; try (left; apply GA; exact H).
  - (* EIf *)
    destruct e1; try (left; apply GA; exact H). destruct op; try (left; apply GA; exact H).
    destruct e1_1; try (left; apply GA; exact H). destruct k0; try (left; apply GA; exact H).
    destruct name as [|[c1|] [|]]; try (left; apply GA; exact H).
    destruct e1_2; try (left; apply GA; exact H). destruct v; try (left; apply GA; exact H).
    destruct z; try (left; apply GA; exact H).
    destruct e3; try (left; apply GA; exact H). destruct v; try (left; apply GA; exact H).
    right. left.
    destruct (s1_of e2) as [[[[a b] c0] d]|] eqn:E; [|discriminate].
    destruct (String.eqb d c1) eqn:Ed; [|discriminate]. apply String.eqb_eq in Ed. subst.
    inversion H; subst. split; [reflexivity|]. unfold shapeB. rewrite (s1_of_sound _ _ _ _ _ E). reflexivity.
  - (* ECall *)
    destruct f; try (left; apply GA; exact H).
    destruct args as [|a [|]]; try (cbn in H; discriminate).
    right. right.
    destruct (s1_of a) as [[[[a0 b] c0] d]|] eqn:E; cbn in H; [|discriminate]. inversion H; subst.
    split; [reflexivity|]. unfold shapeC. rewrite (s1_of_sound _ _ _ _ _ E). reflexivity.
Qed.

(** the stored value of such a line does not depend on the numbering of the copies *)
Theorem line_renumber (l:line) (c c':ctx) m k pre post x cnt (N:nat) (f:nat -> Q) (pi:nat -> nat) p :
  s1_shape (l_body l) = Some (k, (pre, post, x, cnt)) -> l_type l = TFloat p ->
  slookup (qualify c cnt) (x_inps c) = Some (PInt (Z.of_nat N)) ->
  slookup (qualify c' cnt) (x_inps c') = Some (PInt (Z.of_nat N)) ->
  (0 < N)%nat ->
  (forall j, (j < N)%nat -> slookup (qualify c (s1_name pre post j)) (x_vals c) = Some (PNum (f j))) ->
  (forall j, (j < N)%nat -> slookup (qualify c' (s1_name pre post j)) (x_vals c') = Some (PNum (f (pi j)))) ->
  Permutation (map pi (seq 0 N)) (seq 0 N) ->
  exists q, line_value c (8 + m) l = RVal (PNum q) /\ line_value c' (8 + m) l = RVal (PNum q).
Proof.
  intros Hs Ht Hc Hc' HN Hv Hv' Hp.
  assert (Hpos : compare_pv CGt (PInt (Z.of_nat N)) (PInt 0) = RVal (PBool true)).
  { cbn [compare_pv as_num]. unfold num_cmp. destruct (Qle_bool (inject_Z (Z.of_nat N)) (inject_Z 0)) eqn:E; [|reflexivity].
    apply Qle_bool_iff in E. rewrite <- Zle_Qle in E. lia. }
  destruct (s1_shape_sound _ _ _ _ _ _ Hs) as [[_ Eb]|[[_ Eb]|[_ Eb]]];
    unfold line_value; rewrite Eb, Ht; change (8 + m)%nat with (S (S (S (S (S (S (S (S m))))))));
    unfold shapeA, shapeB, shapeC; rewrite !exec_return.
  - destruct (s1_renumber c c' (S m) [] [] pre post x cnt N f (map pi (seq 0 N)) pi p Hc Hc' HN Hv Hv' Hp) as (q & q' & E & E' & R).
    rewrite E, E'. cbn [bind snd]. exists (qround p q). split; [reflexivity|]. rewrite R. reflexivity.
  - destruct (s1_renumber c c' m [] [] pre post x cnt N f (map pi (seq 0 N)) pi p Hc Hc' HN Hv Hv' Hp) as (q & q' & E & E' & R).
    rewrite !eval_if, !eval_cmp, !eval_read_lit, !eval_const. unfold do_read. rewrite Hc, Hc'. cbn [bind].
    rewrite Hpos. cbn [bind truthy]. rewrite E, E'. cbn [bind snd].
    exists (qround p q). split; [reflexivity|]. rewrite R. reflexivity.
  - destruct (s1_renumber c c' m [] [] pre post x cnt N f (map pi (seq 0 N)) pi p Hc Hc' HN Hv Hv' Hp) as (q & q' & E & E' & R).
    rewrite !eval_call1, E, E'. cbn [bind call_fn as_num snd].
    exists (qround p q). split; [reflexivity|]. rewrite R. reflexivity.
Qed.
