(** Theorems about complete runs of the concrete solver model (C01, C03 and the facts C04/C13/C20 build on). *)
From Coq Require Import ZArith NArith List Bool Lia Permutation.
From HV Require Import Solver TrackerProofs RunLemmas SolverInd SolverInv.
Import ListNotations.

Section Thms.
Context (C:catalogue) (rank:name -> N) (ans:name -> option V).

Lemma Inv_init I hp : Inv C true [] (init_state I hp).
Proof.
  constructor; cbn; try tauto; try discriminate; try (split; [constructor|cbn; tauto]).
Qed.

Lemma add_forms_Inv l : forall s s', Inv C true [] s -> add_forms C rank l s = inl s' -> Inv C true [] s'.
Proof.
  induction l as [|F l IH]; intros s s' HI H; cbn [add_forms] in H; [inversion H; subst; exact HI|].
  destruct (add_form C rank F false s) as [s1|e] eqn:E; [|discriminate].
  apply (IH s1 s'); [|exact H]. eapply Inv_add_form; eassumption.
Qed.

Lemma add_fields_spec l : forall s s', add_fields rank l s = inl s' ->
  s' = with_unatt (unatt s') s /\ (forall x, In x (unatt s') <-> In x (unatt s) \/ In x l) /\
  (forall x, In x l -> In x (fmap s)).
Proof.
  induction l as [|f l IH]; intros s s' H; cbn [add_fields] in H.
  - inversion H; subst. split; [destruct s'; reflexivity|]. split; [intros x; cbn; tauto|intros x []].
  - destruct (mem f (fmap s)) eqn:Em; [|discriminate]. apply mem_in in Em.
    destruct (IH _ _ H) as (E & Hin & Hfm). split; [|split].
    + rewrite E at 1. unfold with_unatt, add_unattempted. cbn. reflexivity.
    + intros x. rewrite Hin. unfold add_unattempted. cbn [unatt]. rewrite sort_rank_in, in_app_iff. cbn. tauto.
    + intros x [<-|Hx]; [exact Em|]. apply (Hfm x Hx).
Qed.

Definition start_state (FN:list name) (s1:state) : state :=
  State (inp s1) (specs s1) (forms s1) (fmap s1) (vals s1) (unatt s1) (unimpl s1)
        (add_names FN (solving s1)) (fdep s1) (idep s1) (refused s1) (trace s1) (edges s1).

Lemma solve_prefix fuel R FN I hp s :
  solve C rank fuel R FN I hp ans = inl s ->
  exists s0 s1, add_forms C rank R (init_state I hp) = inl s0 /\ add_fields rank FN s0 = inl s1 /\
    main_loop C rank fuel ans (start_state FN s1) = inl s.
Proof.
  unfold solve. intros H.
  destruct (add_forms C rank R (init_state I hp)) as [s0|e] eqn:E0; [|discriminate].
  destruct (add_fields rank FN s0) as [s1|e] eqn:E1; [|discriminate].
  exists s0, s1. auto.
Qed.

Lemma start_Inv R FN I hp s0 s1 :
  add_forms C rank R (init_state I hp) = inl s0 -> add_fields rank FN s0 = inl s1 ->
  Inv C true [] (start_state FN s1).
Proof.
  intros E0 E1.
  pose proof (add_forms_Inv _ _ _ (Inv_init I hp) E0) as H0.
  destruct (add_fields_spec _ _ _ E1) as (E & Hin & _). rewrite E. unfold start_state, with_unatt. cbn.
  constructor; unfold srun in *; cbn; try (apply H0).
  - intros f Hf. apply add_names_in. apply Hin in Hf. destruct Hf as [Hf|Hf]; [right; apply (i_unatt_sol _ _ _ _ H0 f Hf)|auto].
  - intros f [].
  - intros d f Hf. destruct (i_fw_sol _ _ _ _ H0 d f Hf). split; apply add_names_in; auto.
  - intros i f Hf. apply add_names_in. right. apply (i_iw_sol _ _ _ _ H0 i f Hf).
  - intros f v Hv. apply add_names_in. right. apply (i_vals_sol _ _ _ _ H0 f v Hv).
  - intros f Hf. apply add_names_in. right. apply (i_unimpl_sol _ _ _ _ H0 f Hf).
  - intros f Hf. apply add_names_in in Hf. destruct Hf as [Hf|Hf].
    + left. apply Hin. auto.
    + destruct (i_part _ _ _ _ H0 f Hf) as [X|X]; [left; apply Hin; auto|right; exact X].
Qed.

Theorem solve_Inv fuel R FN I hp s :
  solve C rank fuel R FN I hp ans = inl s -> Inv C true [] s /\ loop_cond s = false.
Proof.
  intros H. destruct (solve_prefix _ _ _ _ _ _ H) as (s0 & s1 & E0 & E1 & Hm).
  apply (main_loop_Inv C rank ans _ _ _ (start_Inv _ _ _ _ _ _ E0 E1) Hm).
Qed.

(** what the loop's exit condition says *)
Lemma loop_exit s : loop_cond s = false ->
  unatt s = [] /\ met (idep s) = [] /\ met (fdep s) = [] /\ (has_unmet (idep s) = false \/ refused s = true).
Proof.
  unfold loop_cond, has_met. intros H.
  apply orb_false_iff in H as [H H4]. apply orb_false_iff in H as [H H3]. apply orb_false_iff in H as [H1 H2].
  destruct (unatt s); [|discriminate]. destruct (met (idep s)); [|discriminate]. destruct (met (fdep s)); [|discriminate].
  repeat split. apply andb_false_iff in H3 as [H3|H3]; [left; exact H3|right]. destruct (refused s); [reflexivity|discriminate].
Qed.

Lemma no_unmet_no_regs t : twf t -> met t = [] -> has_unmet t = false -> regs t = [].
Proof.
  intros [_ NE] Hm Hu. unfold has_unmet in Hu. rewrite Hm in Hu. unfold regs.
  induction (unmet t) as [|[d l] u IH]; [reflexivity|].
  cbn in Hu. apply orb_false_iff in Hu as [H1 H2].
  destruct l as [|x l]; [exfalso; apply (NE d []); [left; reflexivity|reflexivity]|].
  cbn in H1. discriminate.
Qed.

Definition valued (s:state) (f:name) : Prop := exists v, alookup f (vals s) = Some v /\ srun C s f = OVal v.

(** C01 — no silent success *)
Theorem no_silent_success fuel R FN I hp s :
  solve C rank fuel R FN I hp ans = inl s -> solved s = true ->
  unimpl s = [] /\ regs (fdep s) = [] /\ regs (idep s) = [] /\ unatt s = [] /\
  forall f, In f (solving s) -> valued s f.
Proof.
  intros H Hs. destruct (solve_Inv _ _ _ _ _ _ H) as [HI Hc].
  destruct (loop_exit _ Hc) as (Hu & Hmi & Hmf & _).
  unfold solved in Hs. apply andb_prop in Hs as [Hs Hun]. apply andb_prop in Hs as [Hf Hi].
  apply negb_true_iff in Hf, Hi.
  assert (Hun' : unimpl s = []) by (destruct (unimpl s); [reflexivity|discriminate]).
  pose proof (no_unmet_no_regs _ (i_fwf _ _ _ _ HI) Hmf Hf) as Hrf.
  pose proof (no_unmet_no_regs _ (i_iwf _ _ _ _ HI) Hmi Hi) as Hri.
  repeat split; auto.
  intros f Hin. destruct (i_part _ _ _ _ HI f Hin) as [X|[[]|[[d X]|[[i X]|[[v X]|X]]]]].
  - rewrite Hu in X. destruct X.
  - rewrite Hrf in X. destruct X.
  - rewrite Hri in X. destruct X.
  - exists v. split; [exact X|]. apply (i_sound _ _ _ _ HI). exact X.
  - rewrite Hun' in X. destruct X.
Qed.

(** ... and when it does not report success, every demanded line without a value is named by a diagnostic,
    and every diagnostic is genuine *)
Theorem failure_is_explained fuel R FN I hp s :
  solve C rank fuel R FN I hp ans = inl s ->
  (forall f, In f (solving s) ->
      valued s f \/ In f (unimpl s) \/ (exists d, In (d, f) (regs (fdep s))) \/ (exists i, In (i, f) (regs (idep s)))) /\
  (forall f, In f (unimpl s) -> srun C s f = OUnimpl) /\
  (forall d f, In (d, f) (regs (fdep s)) -> alookup d (vals s) = None /\ In d (solving s)) /\
  (forall i f, In (i, f) (regs (idep s)) -> alookup i (inp s) = None /\ srun C s f = ONeedI i).
Proof.
  intros H. destruct (solve_Inv _ _ _ _ _ _ H) as [HI Hc].
  destruct (loop_exit _ Hc) as (Hu & Hmi & Hmf & _).
  split; [|split; [|split]].
  - intros f Hin. destruct (i_part _ _ _ _ HI f Hin) as [X|[[]|[X|[X|[[v X]|X]]]]]; auto.
    + rewrite Hu in X. destruct X.
    + left. exists v. split; [exact X|]. apply (i_sound _ _ _ _ HI). exact X.
  - apply (i_unimpl_sem _ _ _ _ HI).
  - intros d f Hin. split; [|apply (i_fw_sol _ _ _ _ HI d f Hin)].
    destruct (i_fwait _ _ _ _ HI d f Hin) as [X|X]; [rewrite Hmf in X; destruct X|exact X].
  - intros i f Hin. destruct (i_iwait _ _ _ _ HI i f Hin) as [X|X]; [rewrite Hmi in X; destruct X|exact X].
Qed.

(** C03 — every stored value, in a complete or partial solution, is a fixed point of its definition *)
Theorem solution_fixed_point fuel R FN I hp s :
  solve C rank fuel R FN I hp ans = inl s ->
  forall f v, alookup f (vals s) = Some v -> run (c_body C f) (specs s) (inp s) (vals s) = OVal v.
Proof. intros H. destruct (solve_Inv _ _ _ _ _ _ H) as [HI _]. apply (i_sound _ _ _ _ HI). Qed.

End Thms.
