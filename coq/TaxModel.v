(** C07 — model of [figure_tax] (f1040_figure_tax.py) and the statutory rate schedule.

    Units: income [x] in cents (every caller passes a value already rounded to 2 places);
    tax in micro-dollars (= cents × basis points), so that [x * rate - sub] is exact in [Z].

    The configuration record [taxcfg] is what tools/gen_tax.py extracts from the Python source on
    every run: the table rows, the worksheet rows, the comparison operators actually written in
    [figure_tax_table] / [figure_tax_worksheet] / [figure_tax], and the status -> column chain. *)
From Coq Require Import ZArith List Bool Lia ZifyBool.
Import ListNotations.
Open Scope Z_scope.

Inductive lop := Ge | Gt.
Inductive hop := Lt | Le.
Definition lo_ok (o:lop) (x lo:Z) : bool := match o with Ge => lo <=? x | Gt => lo <? x end.
Definition hi_ok (o:hop) (x hi:Z) : bool := match o with Lt => x <? hi | Le => x <=? hi end.

Record trow := TRow { t_lo : Z; t_hi : Z; t_all : list Z }.       (* dollars; t_all = the whole tuple *)
Record wrow := WRow { w_lo : Z; w_hi : Z; w_bp : Z; w_sub : Z }.   (* dollars, dollars, basis points, cents *)

Record taxcfg := TaxCfg {
  c_tab_lo : lop; c_tab_hi : hop;
  c_wk_first : lop; c_wk_rest : lop; c_wk_hi : hop;
  c_cut : Z; c_cutop : hop;
  c_col : list (option nat);      (* status index 0..4 -> tuple index assigned by the if/elif chain *)
  c_wk_off : nat;                 (* TAX_WORKSHEET_VALUES[index - off] *)
  c_table : list trow;
  c_wk : list (list wrow)
}.

Fixpoint tab_lookup (lo_o:lop) (hi_o:hop) (t:list trow) (x:Z) (col:nat) : option Z :=
  match t with
  | [] => None                                   (* falls out of the loop: assert False *)
  | r :: t' =>
      if lo_ok lo_o x (t_lo r * 100) && hi_ok hi_o x (t_hi r * 100)
      then option_map (Z.mul 1000000) (nth_error (t_all r) col)
      else tab_lookup lo_o hi_o t' x col
  end.

Fixpoint wk_lookup (lo_f lo_r:lop) (hi_o:hop) (first:bool) (rows:list wrow) (x:Z) : option Z :=
  match rows with
  | [] => None
  | r :: rs =>
      if lo_ok (if first then lo_f else lo_r) x (w_lo r * 100) && hi_ok hi_o x (w_hi r * 100)
      then Some (x * w_bp r - w_sub r * 10000)
      else wk_lookup lo_f lo_r hi_o false rs x
  end.

Definition figure_tax (c:taxcfg) (x:Z) (st:nat) : option Z :=
  match nth_error (c_col c) st with
  | Some (Some col) =>
      if hi_ok (c_cutop c) x (c_cut c * 100)
      then tab_lookup (c_tab_lo c) (c_tab_hi c) (c_table c) x col
      else if (c_wk_off c <=? col)%nat then
             match nth_error (c_wk c) (col - c_wk_off c) with
             | Some rows => wk_lookup (c_wk_first c) (c_wk_rest c) (c_wk_hi c) true rows x
             | None => None
             end
           else None
  | _ => None
  end.

(** * The statutory side (independent of the code) *)

Definition sched := list (Z * Z).     (* (bracket lower bound in dollars, rate in percent), ascending *)

Fixpoint marg (s:sched) (x:Z) : Z :=
  match s with
  | [] => 0
  | (lo, r) :: rest =>
      let top := match rest with [] => x | (h, _) :: _ => Z.min x (h * 100) end in
      r * 100 * Z.max 0 (top - lo * 100) + marg rest x
  end.

Fixpoint sched_ok (s:sched) : bool :=
  match s with
  | [] => true
  | (lo, r) :: rest =>
      (0 <=? r) && (0 <=? lo) && match rest with [] => true | (h, _) :: _ => lo <=? h end && sched_ok rest
  end.

(* Rev. Proc. 2020-45 §3.01, Rev. Proc. 2021-45 §3.01, Rev. Proc. 2022-38 §3.01 (Tables 1-4).
   status index: 0 Single, 1 Married filing jointly, 2 Married filing separately, 3 Head of household,
   4 Qualifying widow(er)/surviving spouse (uses Table 1, the joint schedule). *)
Definition rates7 (a b c d e f:Z) : sched :=
  [(0,10); (a,12); (b,22); (c,24); (d,32); (e,35); (f,37)].

Definition statutory (y:Z) (st:nat) : sched :=
  match y, st with
  | 2021, 0%nat => rates7 9950 40525 86375 164925 209425 523600
  | 2021, 1%nat | 2021, 4%nat => rates7 19900 81050 172750 329850 418850 628300
  | 2021, 2%nat => rates7 9950 40525 86375 164925 209425 314150
  | 2021, 3%nat => rates7 14200 54200 86350 164900 209400 523600
  | 2022, 0%nat => rates7 10275 41775 89075 170050 215950 539900
  | 2022, 1%nat | 2022, 4%nat => rates7 20550 83550 178150 340100 431900 647850
  | 2022, 2%nat => rates7 10275 41775 89075 170050 215950 323925
  | 2022, 3%nat => rates7 14650 55900 89050 170050 215950 539900
  | 2023, 0%nat => rates7 11000 44725 95375 182100 231250 578125
  | 2023, 1%nat | 2023, 4%nat => rates7 22000 89450 190750 364200 462500 693750
  | 2023, 2%nat => rates7 11000 44725 95375 182100 231250 346875
  | 2023, 3%nat => rates7 15700 59850 95350 182100 231250 578100
  | _, _ => []
  end.

(* The IRS Tax Table row that contains an income below $100,000 (Form 1040 instructions, "Tax Table"). *)
Definition irs_row (x:Z) : Z * Z :=
  let d := x / 100 in
  if d <? 5 then (0, 5) else if d <? 15 then (5, 15) else if d <? 25 then (15, 25)
  else if d <? 3000 then (d / 25 * 25, d / 25 * 25 + 25) else (d / 50 * 50, d / 50 * 50 + 50).

Definition rhu_dollars (micro:Z) : Z := (micro + 500000) / 1000000.
Definition table_cut : Z := 100000.
Definition max_income : Z := 1000000000000.

Definition official_tax (y:Z) (st:nat) (x:Z) : Z :=
  if x <? table_cut * 100
  then let (lo, hi) := irs_row x in 1000000 * rhu_dollars (marg (statutory y st) ((lo + hi) * 50))
  else marg (statutory y st) x.

(** * Reflective checks: what must be computed about a regenerated [taxcfg] *)

Definition is_irs_row (lo hi:Z) : bool :=
  ((lo =? 0) && (hi =? 5)) || ((lo =? 5) && (hi =? 15)) || ((lo =? 15) && (hi =? 25))
  || ((25 <=? lo) && (lo <? 3000) && (lo mod 25 =? 0) && (hi =? lo + 25))
  || ((3000 <=? lo) && (lo mod 50 =? 0) && (hi =? lo + 50)).

Fixpoint contiguous (t:list trow) (start stop:Z) : bool :=
  match t with
  | [] => start =? stop
  | r :: t' => (t_lo r =? start) && (t_lo r <? t_hi r) && contiguous t' (t_hi r) stop
  end.

Definition row_exact (s:sched) (col:nat) (r:trow) : bool :=
  is_irs_row (t_lo r) (t_hi r) &&
  match nth_error (t_all r) col with
  | Some c => c =? rhu_dollars (marg s ((t_lo r + t_hi r) * 50))
  | None => false
  end.

Definition table_ok (y:Z) (c:taxcfg) (st:nat) (col:nat) : bool :=
  forallb (row_exact (statutory y st) col) (c_table c).

(* slope and intercept of [marg s] on [L,H], when no bracket boundary lies strictly inside *)
Fixpoint affine_on (s:sched) (L H:Z) : option (Z * Z) :=
  match s with
  | [] => Some (0, 0)
  | (lo, r) :: rest =>
      let lc := lo * 100 in
      let term :=
        match rest with
        | [] => if H <=? lc then Some (0, 0) else if lc <=? L then Some (r * 100, - (r * 100 * lc)) else None
        | (h, _) :: _ =>
            let hc := h * 100 in
            if H <=? lc then Some (0, 0)
            else if (hc <=? L) && (lc <=? hc) then Some (0, r * 100 * (hc - lc))
            else if (lc <=? L) && (H <=? hc) then Some (r * 100, - (r * 100 * lc)) else None
        end in
      match term, affine_on rest L H with
      | Some (a, b), Some (a', b') => Some (a + a', b + b')
      | _, _ => None
      end
  end.

Definition wrow_exact (s:sched) (r:wrow) : bool :=
  match affine_on s (w_lo r * 100) (w_hi r * 100) with
  | Some (a, b) => (a =? w_bp r) && (b =? - (w_sub r * 10000))
  | None => false
  end.

Fixpoint wcontiguous (rows:list wrow) (start stop:Z) : bool :=
  match rows with
  | [] => start =? stop
  | r :: rs => (w_lo r =? start) && (w_lo r <? w_hi r) && wcontiguous rs (w_hi r) stop
  end.

Definition wk_ok (y:Z) (c:taxcfg) (st:nat) (col:nat) : bool :=
  (c_wk_off c <=? col)%nat &&
  match nth_error (c_wk c) (col - c_wk_off c) with
  | Some rows => wcontiguous rows table_cut max_income && forallb (wrow_exact (statutory y st)) rows
  | None => false
  end.

Definition ops_ok (c:taxcfg) : bool :=
  match c_tab_lo c, c_tab_hi c, c_wk_first c, c_wk_hi c, c_cutop c with
  | Ge, Lt, Ge, Le, Lt => c_cut c =? table_cut
  | _, _, _, _, _ => false
  end.

Definition status_ok (y:Z) (c:taxcfg) (st:nat) : bool :=
  match nth_error (c_col c) st with
  | Some (Some col) => table_ok y c st col && wk_ok y c st col
  | _ => false
  end.

Definition cfg_ok (y:Z) (c:taxcfg) : bool :=
  ops_ok c && contiguous (c_table c) 0 table_cut
  && forallb (status_ok y c) [0;1;2;3;4]%nat
  && forallb (fun st => sched_ok (statutory y st)) [0;1;2;3;4]%nat.

(** * Diagnostics for a configuration that fails [cfg_ok] (hints for the failing-input search) *)
Fixpoint gaps (t:list trow) (start:Z) : list (Z * Z) :=
  match t with
  | [] => if start =? table_cut then [] else [(start, table_cut)]
  | r :: t' => (if t_lo r =? start then [] else [(start, t_lo r)]) ++ gaps t' (t_hi r)
  end.

Definition bad_rows (y:Z) (c:taxcfg) (st:nat) : list Z :=
  match nth_error (c_col c) st with
  | Some (Some col) =>
      map t_lo (filter (fun r => negb (row_exact (statutory y st) col r)) (c_table c))
  | _ => [-1]
  end.

Definition bad_wrows (y:Z) (c:taxcfg) (st:nat) : list Z :=
  match nth_error (c_col c) st with
  | Some (Some col) =>
      match nth_error (c_wk c) (col - c_wk_off c) with
      | Some rows => (if wcontiguous rows table_cut max_income then [] else [-2]) ++
                     map w_lo (filter (fun r => negb (wrow_exact (statutory y st) r)) rows)
      | None => [-3]
      end
  | _ => [-1]
  end.
