(** Arithmetic fragment of line bodies: the shapes to which an official instruction ("add lines ...", "subtract ... if zero or
    less enter 0", "multiply by ...", "smaller of", "larger of") can be compared.  [compile] recognises a body of the deep
    embedding that is a single return of such an expression over lines of the same solution. *)
From Coq Require Import ZArith QArith Qminmax List String Bool.
From HV Require Import Forms.
Import ListNotations.
Open Scope string_scope.

Inductive aexp :=
| AConst (q:Q)
| ALine (n:string)                 (* v['n'] : a money line (read as a number) *)
| AAdd (a b:aexp) | ASub (a b:aexp)
| AScale (k:Q) (a:aexp)            (* a * k with a literal k *)
| AMax (a b:aexp) | AMin (a b:aexp)
| AIfGt (a b t e:aexp).              (* t if a > b else e  (extended fragment only) *)

Fixpoint aexp_eqb (a b:aexp) : bool :=
  match a, b with
  | AConst p, AConst q => Qeq_bool p q
  | ALine n, ALine m => String.eqb n m
  | AAdd x y, AAdd x' y' | ASub x y, ASub x' y' | AMax x y, AMax x' y' | AMin x y, AMin x' y' => aexp_eqb x x' && aexp_eqb y y'
  | AScale k x, AScale k' x' => Qeq_bool k k' && aexp_eqb x x'
  | AIfGt a b t e, AIfGt a' b' t' e' => aexp_eqb a a' && aexp_eqb b b' && aexp_eqb t t' && aexp_eqb e e'
  | _, _ => false
  end.

Definition name_pattern (x:string) (parts:list npart) : option (string * string) :=
  match parts with
  | [NLit pre; NExp (EVar y); NLit post] => if String.eqb x y then Some (pre, post) else None
  | [NLit pre; NExp (EVar y)] => if String.eqb x y then Some (pre, "") else None
  | [NExp (EVar y); NLit post] => if String.eqb x y then Some ("", post) else None
  | [NExp (EVar y)] => if String.eqb x y then Some ("", "") else None
  | _ => None
  end.

Definition lit_name (parts:list npart) : option string :=
  match parts with [NLit s] => Some s | _ => None end.

Definition num_of (v:pv) : option Q := match v with PNum q => Some q | _ => None end.   (* float literals only: max(0, x) can be an int *)

Definition as_const (e:expr) : option Q := match e with EConst (PNum q) => Some q | _ => None end.

Fixpoint compile_e (ext:bool) (fuel:nat) (e:expr) : option aexp :=
  match fuel with
  | O => None
  | S n =>
    match e with
    | EConst v => option_map AConst (num_of v)
    | ERead RV name => option_map ALine (lit_name name)
    | EBin OAdd a b => match compile_e ext n a, compile_e ext n b with Some x, Some y => Some (AAdd x y) | _, _ => None end
    | EBin OSub a b => match compile_e ext n a, compile_e ext n b with Some x, Some y => Some (ASub x y) | _, _ => None end
    | EBin OMul a b =>
        match as_const b with
        | Some k => option_map (AScale k) (compile_e ext n a)
        | None => match as_const a with
                  | Some k => option_map (AScale k) (compile_e ext n b)
                  | None => None
                  end
        end
    | ECall FMax [a; b] => match compile_e ext n a, compile_e ext n b with Some x, Some y => Some (AMax x y) | _, _ => None end
    | ECall FMin [a; b] => match compile_e ext n a, compile_e ext n b with Some x, Some y => Some (AMin x y) | _, _ => None end
    | ECall FSum [EList l] => if negb ext then None else
        (fix go (l:list expr) : option aexp :=
           match l with
           | [] => None                              (* sum([]) is the int 0 *)
           | [x] => compile_e ext n x
           | x :: t => match compile_e ext n x, go t with Some a, Some r => Some (AAdd a r) | _, _ => None end
           end) l
    | ECall FSum [EComp (ERead RV parts) x (EConst (PList (it0 :: items0))) None] => if negb ext then None else
        (* sum([v[f'pre{x}post'] for x in <non-empty constants>]) *)
        match name_pattern x parts with
        | None => None
        | Some (pre, post) =>
          (fix go (l:list pv) : option aexp :=
             match l with
             | [] => Some (AConst 0)
             | it :: t =>
                 match (match it with PStr s => Some s | PInt z => Some (str_of_Z z) | _ => None end), go t with
                 | Some s, Some r => Some (AAdd (ALine (pre ++ s ++ post)) r)
                 | _, _ => None
                 end
             end) (it0 :: items0)
        end
    | ECall FFloat [a] => compile_e ext n a
    | EIf (ECmp CGt a b) (EBin OSub a' b') (EConst (PNum z)) => if negb ext then None else
        (* a - b if a > b else 0.0 *)
        match compile_e ext n a, compile_e ext n b, compile_e ext n a', compile_e ext n b' with
        | Some x, Some y, Some x', Some y' =>
            if Qeq_bool z 0 && aexp_eqb x x' && aexp_eqb y y' then Some (AMax (AConst 0) (ASub x y)) else None
        | _, _, _, _ => None
        end
    | _ => None
    end
  end.

(* [compile false]: the core fragment, for which ArithProofs.compile_sound is proved;
   [compile true] additionally recognises sums over constant lists and `a - b if a > b else 0.0` *)
Definition compile (ext:bool) (body:list stmt) : option aexp :=
  match body with
  | [SReturn (EIf (ECmp CGt a b) t e)] =>
      match compile_e ext 40 (EIf (ECmp CGt a b) t e) with
      | Some r => Some r
      | None =>
          if negb ext then None else
          (* `t if a > b else e` at the top of a money line; a None arm is stored as 0.0 *)
          let arm x := match x with EConst PNone => Some (AConst 0) | _ => compile_e ext 40 x end in
          match compile_e ext 40 a, compile_e ext 40 b, arm t, arm e with
          | Some ca, Some cb, Some ct, Some ce => Some (AIfGt ca cb ct ce)
          | _, _, _, _ => None
          end
      end
  | [SReturn e] => compile_e ext 40 e
  | _ => None
  end.

Fixpoint aeval (env:string -> Q) (a:aexp) : Q :=
  match a with
  | AConst q => q
  | ALine n => env n
  | AAdd x y => aeval env x + aeval env y
  | ASub x y => aeval env x - aeval env y
  | AScale k x => aeval env x * k
  | AMax x y => Qmax (aeval env x) (aeval env y)
  | AMin x y => Qmin (aeval env x) (aeval env y)
  | AIfGt a b t e => if Qle_bool (aeval env a) (aeval env b) then aeval env e else aeval env t
  end.

Fixpoint alines (a:aexp) : list string :=
  match a with
  | AConst _ => [] | ALine n => [n]
  | AAdd x y | ASub x y | AMax x y | AMin x y => (alines x ++ alines y)%list
  | AScale _ x => alines x
  | AIfGt a b t e => (alines a ++ alines b ++ alines t ++ alines e)%list
  end.

(* a line that can only ever be blank: `s.not_implemented() if <cond> else None` (either arm order) *)
Definition always_blank (body:list stmt) : bool :=
  match body with
  | [SReturn (EIf _ EUnimpl (EConst PNone))] | [SReturn (EIf _ (EConst PNone) EUnimpl)] => true
  | _ => false
  end.
