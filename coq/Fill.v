(** C19 — which forms are filled, in which order (pdf_filler.py:108-132), and the two value checks of pdf_fields.py. *)
From Coq Require Import ZArith List Bool String Permutation Sorted Lia.
Import ListNotations.

Record fform := FForm { ff_name : string; ff_jur : Z; ff_seq : Z; ff_needs : bool }.

Definition key_le (a b:fform) : bool :=
  (ff_jur a <? ff_jur b)%Z || ((ff_jur a =? ff_jur b)%Z && (ff_seq a <=? ff_seq b)%Z).

(* list.sort(key=...) is stable: insert after the elements that are <= *)
Fixpoint insert (x:fform) (l:list fform) : list fform :=
  match l with
  | [] => [x]
  | y :: r => if key_le y x then y :: insert x r else x :: y :: r
  end.
Definition sort (l:list fform) : list fform := fold_left (fun acc x => insert x acc) l [].

Definition fill_order (forms:list fform) : list fform := sort (filter ff_needs forms).

Lemma insert_perm x l : Permutation (insert x l) (x :: l).
Proof.
  induction l as [|y l IH]; cbn; [reflexivity|].
  destruct (key_le y x); [|reflexivity]. rewrite IH. apply perm_swap.
Qed.
Lemma sort_perm_acc l : forall acc, Permutation (fold_left (fun a x => insert x a) l acc) (l ++ acc).
Proof.
  induction l as [|x l IH]; intros acc; cbn [fold_left app]; [reflexivity|].
  rewrite IH, insert_perm. symmetry. apply Permutation_middle.
Qed.
Lemma sort_perm l : Permutation (sort l) l.
Proof. unfold sort. rewrite sort_perm_acc, app_nil_r. reflexivity. Qed.

Definition key_leP (a b:fform) : Prop := key_le a b = true.
Lemma key_le_total a b : key_le a b = false -> key_le b a = true.
Proof. unfold key_le. intros H. apply orb_false_iff in H as [H1 H2]. apply andb_false_iff in H2. lia. Qed.
Lemma key_le_trans a b c : key_le a b = true -> key_le b c = true -> key_le a c = true.
Proof. unfold key_le. intros H1 H2. lia. Qed.

Lemma insert_sorted x l : Sorted key_leP l -> Sorted key_leP (insert x l).
Proof.
  induction l as [|y l IH]; intros Hs; cbn.
  - repeat constructor.
  - inversion Hs as [|? ? Hs' Hd]; subst.
    destruct (key_le y x) eqn:E.
    + constructor; [apply IH; exact Hs'|].
      destruct l as [|z l]; cbn.
      * constructor. exact E.
      * inversion Hd; subst. destruct (key_le z x); constructor; assumption.
    + constructor; [exact Hs|]. constructor. apply key_le_total. exact E.
Qed.
Lemma sort_sorted_acc l : forall acc, Sorted key_leP acc -> Sorted key_leP (fold_left (fun a x => insert x a) l acc).
Proof. induction l as [|x l IH]; intros acc Hs; cbn [fold_left]; [exact Hs|]. apply IH, insert_sorted, Hs. Qed.

(* exactly the forms that need filing, once each, ordered by (jurisdiction, sequence number) *)
Theorem fill_selection forms :
  Permutation (fill_order forms) (filter ff_needs forms) /\
  Sorted key_leP (fill_order forms) /\
  (forall f, In f (fill_order forms) -> ff_needs f = true /\ In f forms) /\
  (NoDup (map ff_name forms) -> NoDup (map ff_name (fill_order forms))).
Proof.
  unfold fill_order. split; [apply sort_perm|]. split; [apply sort_sorted_acc; constructor|]. split.
  - intros f Hin. apply (Permutation_in _ (sort_perm _)) in Hin. apply filter_In in Hin. tauto.
  - intros ND. apply (Permutation_NoDup (l:=map ff_name (filter ff_needs forms))).
    + apply Permutation_map. symmetry. apply sort_perm.
    + induction forms as [|f l IH]; cbn; [constructor|]. inversion ND; subst.
      destruct (ff_needs f); cbn; [constructor|]; auto.
      intros Hin. apply H1. apply in_map_iff in Hin as (g & E & Hg). apply filter_In in Hg. apply in_map_iff. exists g. tauto.
Qed.

(* TextPDFField.value / ChoicePDFField.value: a value that does not fit stops the fill (None = raises), it is never truncated *)
Definition text_value (max_length:option nat) (s:string) : option string :=
  match max_length with
  | Some m => if (m <? String.length s)%nat then None else Some s
  | None => Some s
  end.
Definition choice_value (choices:list string) (s:string) : option string :=
  if existsb (String.eqb s) choices then Some s else None.

Theorem text_value_never_truncates m s r : text_value m s = Some r -> r = s.
Proof. unfold text_value. destruct m as [m|]; [destruct (m <? String.length s)%nat; [discriminate|]|]; intros H; inversion H; reflexivity. Qed.
Theorem too_long_raises m s : (m < String.length s)%nat -> text_value (Some m) s = None.
Proof. unfold text_value. intros H. apply Nat.ltb_lt in H. rewrite H. reflexivity. Qed.
Theorem bad_choice_raises choices s : ~ In s choices -> choice_value choices s = None.
Proof.
  unfold choice_value. intros H. destruct (existsb (String.eqb s) choices) eqn:E; [|reflexivity].
  apply existsb_exists in E as (x & Hx & Ex). apply String.eqb_eq in Ex. subst. contradiction.
Qed.
