(** C17 — finite consistency checks over a year's catalogue, computed in the kernel, with their Prop reading. *)
From Coq Require Import ZArith QArith List String Bool Ascii.
From HV Require Import Forms.
Import ListNotations.
Open Scope string_scope.

Record cls := Cls {
  k_class : string; k_name : string; k_year : Z;
  k_meta : bool;            (* description, long_description, jurisdiction present and non-empty *)
  k_ctor_ok : bool;         (* instantiates for every allowed instance *)
  k_same_shape : bool;      (* every allowed instance declares the same inputs and lines *)
  k_inputs : list string; k_lines : list string
}.

Fixpoint nodup_s (l:list string) : bool :=
  match l with [] => true | x :: r => negb (existsb (String.eqb x) r) && nodup_s r end.

Definition lower_dotfree_char (c:ascii) : bool :=
  let n := nat_of_ascii c in negb ((65 <=? n)%nat && (n <=? 90)%nat) && negb (n =? 46)%nat && negb (is_space c).
Fixpoint lower_dotfree (s:string) : bool :=
  match s with EmptyString => true | String c r => lower_dotfree_char c && lower_dotfree r end.
Definition nonempty (s:string) : bool := negb (String.eqb s "").

Definition cls_ok (y:Z) (c:cls) : bool :=
  (k_year c =? y)%Z && k_meta c && k_ctor_ok c && k_same_shape c && nonempty (k_name c) && lower_dotfree (k_name c)
  && nodup_s (k_inputs c) && nodup_s (k_lines c)
  && forallb (fun s => nonempty s && lower_dotfree s) (k_inputs c ++ k_lines c)%list.

Definition catalogue_ok (y:Z) (l:list cls) : bool := forallb (cls_ok y) l && nodup_s (map k_name l).

(* a status-indexed table: for each of the statuses exactly one key matches *)
Definition keyed_by (sts:list pv) (t:threshold) : bool :=
  existsb (fun kv => existsb (fun k => existsb (pv_eqb k) sts) (fst kv)) (t_table t).
Definition matches (st:pv) (kv:list pv * pv) : bool := existsb (pv_eqb st) (fst kv).
Definition status_total (sts:list pv) (t:threshold) : bool :=
  match t_scalar t with
  | Some _ => true
  | None => if keyed_by sts t
            then forallb (fun st => (List.length (filter (matches st) (t_table t)) =? 1)%nat) sts
            else true
  end.
Definition thresholds_ok (sts:list pv) (cat:catalogue) : bool :=
  forallb (fun f => forallb (status_total sts) (f_thresholds f)) cat.

Lemma find_filter_one {A} (p:A -> bool) (l:list A) :
  List.length (filter p l) = 1%nat -> exists x, find p l = Some x /\ filter p l = [x].
Proof.
  induction l as [|a l IH]; cbn; [discriminate|].
  destruct (p a) eqn:E; cbn.
  - intros H. exists a. split; [reflexivity|]. destruct (filter p l); [reflexivity|discriminate].
  - exact IH.
Qed.

(* Prop reading: the real lookup (form.py:135-149, modelled by [threshold_lookup]) returns a value for each status,
   and that value comes from the only key that matches *)
Theorem status_total_spec sts t :
  t_scalar t = None -> keyed_by sts t = true -> status_total sts t = true ->
  forall st, In st sts -> exists kv, threshold_lookup t (Some st) = RVal (snd kv) /\ filter (matches st) (t_table t) = [kv].
Proof.
  intros Hs Hk H st Hin. unfold status_total in H. rewrite Hs, Hk in H.
  rewrite forallb_forall in H. specialize (H st Hin). apply Nat.eqb_eq in H.
  destruct (find_filter_one _ _ H) as (kv & Hf & Hl).
  exists kv. split; [|exact Hl]. unfold threshold_lookup. rewrite Hs.
  change (fun kv0 : list pv * pv => existsb (pv_eqb st) (fst kv0)) with (matches st). rewrite Hf. reflexivity.
Qed.

Theorem catalogue_ok_spec y l :
  catalogue_ok y l = true ->
  (forall c, In c l -> k_year c = y /\ k_meta c = true /\ k_ctor_ok c = true /\ nodup_s (k_inputs c) = true /\ nodup_s (k_lines c) = true)
  /\ nodup_s (map k_name l) = true.
Proof.
  unfold catalogue_ok. intros H. apply andb_prop in H as [H1 H2]. split; [|exact H2].
  rewrite forallb_forall in H1. intros c Hc. specialize (H1 c Hc). unfold cls_ok in H1.
  repeat (apply andb_prop in H1 as [H1 ?]). apply Z.eqb_eq in H1. auto.
Qed.
