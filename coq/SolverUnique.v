(** C05 — schedule independence: the scheduled set of a finished run is the declarative demand closure [DemS];
    hence two finished runs of the same catalogue on the same set of requests and the same final inputs agree. *)
From Coq Require Import ZArith NArith List Bool Lia Permutation.
From HV Require Import Solver TrackerProofs RunLemmas SolverInd SolverInv SolverThms SolverDem SolverSpec SolverPrompt.
Import ListNotations.

Arguments add_names : simpl never.
Arguments sort_rank : simpl never.
Arguments add_unmet : simpl never.
Arguments run : simpl never.

Section U.
Context (C:catalogue).

Inductive ReadsS (sp:list name) (I:istore) : prog -> name -> Prop :=
| rs_here d k : ReadsS sp I (ReadV d k) d
| rs_nextV e w k d : Derives C sp I e w -> ReadsS sp I (k w) d -> ReadsS sp I (ReadV e k) d
| rs_nextI i w k d : mem i sp = true -> alookup i I = Some (Some w) -> ReadsS sp I (k w) d ->
                     ReadsS sp I (ReadI i k) d.

Inductive DemS (R FN:list name) (sp:list name) (I:istore) : name -> Prop :=
| ds_req F fi f : In F R -> c_form C F = Some fi -> In f (f_required fi) -> DemS R FN sp I f
| ds_fld f : In f FN -> DemS R FN sp I f
| ds_read g d : DemS R FN sp I g -> ReadsS sp I (c_body C g) d -> DemS R FN sp I d
| ds_form g d fi f : DemS R FN sp I g -> ReadsS sp I (c_body C g) d ->
                     c_form C (c_form_of_line C d) = Some fi -> In f (f_required fi) -> DemS R FN sp I f.

Lemma ReadsS_mono sp sp' I I' p d : ssub sp sp' -> sub I I' -> ReadsS sp I p d -> ReadsS sp' I' p d.
Proof.
  intros Hs HI H. induction H.
  - apply rs_here.
  - eapply rs_nextV; [eapply Derives_mono; eassumption|assumption].
  - eapply rs_nextI; [apply mem_in; apply Hs; apply mem_in; assumption|apply HI; eassumption|assumption].
Qed.

Lemma DemS_mono R R' FN FN' sp sp' I I' f :
  (forall x, In x R -> In x R') -> (forall x, In x FN -> In x FN') -> ssub sp sp' -> sub I I' ->
  DemS R FN sp I f -> DemS R' FN' sp' I' f.
Proof.
  intros HR HF Hs HI H. induction H.
  - eapply ds_req; eauto.
  - apply ds_fld; auto.
  - eapply ds_read; [eassumption|eapply ReadsS_mono; eassumption].
  - eapply ds_form; [eassumption|eapply ReadsS_mono; eassumption|eassumption|assumption].
Qed.

Lemma reads_ReadsS sp I S p d :
  (forall g w, alookup g S = Some w -> Derives C sp I g w) -> In d (reads p sp I S) -> ReadsS sp I p d.
Proof.
  intros HS. induction p as [v| |c|d0 k IH|i k IH]; unfold reads; fold reads; try contradiction.
  - intros [<-|H]; [apply rs_here|].
    destruct (alookup d0 S) as [w|] eqn:E; [|contradiction]. eapply rs_nextV; [apply HS; exact E|apply IH; exact H].
  - destruct (mem i sp) eqn:Em; cbn [negb]; [|contradiction].
    destruct (alookup i I) as [[w|]|] eqn:E; try contradiction. intros H. eapply rs_nextI; eauto.
Qed.

Lemma reads_present_or_block p sp I S d :
  In d (reads p sp I S) -> (exists w, alookup d S = Some w) \/ run p sp I S = ONeedV d.
Proof.
  induction p as [v| |c|d0 k IH|i k IH]; unfold reads; fold reads; try contradiction.
  - intros [<-|H].
    + unfold run; fold run. destruct (alookup d0 S) as [w|] eqn:E; [left; eauto|right; reflexivity].
    + destruct (alookup d0 S) as [w|] eqn:E; [|contradiction].
      destruct (IH w H) as [X|X]; [left; exact X|right]. unfold run; fold run. rewrite E. exact X.
  - destruct (mem i sp) eqn:Em; cbn [negb]; [|contradiction].
    destruct (alookup i I) as [[w|]|] eqn:E; try contradiction. intros H.
    destruct (IH w H) as [X|X]; [left; exact X|right]. unfold run; fold run. rewrite Em, E. exact X.
Qed.

(* following the path of the declarative reads on a terminal state *)
Lemma ReadsS_reads sp sp' I S p d :
  ssub sp sp' ->
  (forall e w, alookup e S = Some w -> Derives C sp' I e w) ->
  (forall e w, Derives C sp' I e w -> run p sp I S = ONeedV e -> False) ->
  (forall i, run p sp I S <> ONeedSpec i) ->
  ReadsS sp' I p d -> In d (reads p sp I S).
Proof.
  intros Hsp HS. intros Hblock Hspec H. induction H as [d k|e w k d He Hr IH|i w k d Hm Hi Hr IH].
  - unfold reads; fold reads. left. reflexivity.
  - unfold reads; fold reads. right. unfold run in Hblock, Hspec; fold run in Hblock, Hspec.
    destruct (alookup e S) as [w'|] eqn:E.
    + assert (w' = w) by (apply (Derives_fun C sp' I e w'); [apply HS; exact E|exact He]). subst w'.
      apply IH; assumption.
    + exfalso. apply (Hblock e w He). reflexivity.
  - unfold reads; fold reads. unfold run in Hblock, Hspec; fold run in Hblock, Hspec.
    destruct (mem i sp) eqn:Em; cbn [negb] in *.
    + rewrite Hi in *. apply IH; assumption.
    + exfalso. apply (Hspec i). reflexivity.
Qed.

Section OneRun.
Context (rank:name -> N) (ans:name -> option V) (R FN:list name).

Theorem solving_is_DemS fuel I hp s sp' :
  cat_wf C -> solve C rank fuel R FN I hp ans = inl s -> ssub (specs s) sp' ->
  forall f, In f (solving s) <-> DemS R FN sp' (inp s) f.
Proof.
  intros Hwf H Hsp.
  destruct (solve_prefix C rank ans _ _ _ _ _ _ H) as (s0 & s1 & E0 & E1 & Hm).
  destruct (start_Inv2 C rank ans R FN I hp s0 s1 Hwf E0 E1) as (HJ0 & HR0 & HFN0).
  pose proof (start_Inv C rank ans R FN I hp s0 s1 E0 E1) as HI0.
  destruct (main_loop_Inv2 C rank ans R FN fuel _ _ Hwf (conj HI0 HJ0) Hm) as [[_ HJ] _].
  destruct (main_loop_grows C rank ans _ _ _ Hm) as [Gf Gs].
  destruct (terminal_status C rank ans _ _ _ _ _ _ H) as (HI & HL & Hst).
  assert (HSd : forall e w, alookup e (vals s) = Some w -> Derives C sp' (inp s) e w).
  { intros e w He. apply (Derives_mono C (specs s) sp' (inp s) (inp s)); auto using sub_refl.
    apply (l_derives _ _ HL). exact He. }
  intros f. split.
  - intros Hf. pose proof (j_dem _ _ _ _ HJ f Hf) as HD. clear Hf.
    induction HD as [F fi f HF Hc Hin|f Hf|g d Hg IH Hgd|g d fi f Hg IH Hgd Hc Hin].
    + eapply ds_req; eassumption.
    + apply ds_fld; assumption.
    + eapply ds_read; [exact IH|]. apply (reads_ReadsS sp' (inp s) (vals s)); [exact HSd|].
      apply (reads_mono (specs s) sp' (inp s) (inp s) (vals s) (vals s)); auto using sub_refl.
      apply (j_edge_sem _ _ _ _ HJ). exact Hgd.
    + eapply ds_form; [exact IH| |exact Hc|exact Hin]. apply (reads_ReadsS sp' (inp s) (vals s)); [exact HSd|].
      apply (reads_mono (specs s) sp' (inp s) (inp s) (vals s) (vals s)); auto using sub_refl.
      apply (j_edge_sem _ _ _ _ HJ). exact Hgd.
  - intros HD.
    assert (Hread : forall g d, In g (solving s) -> ReadsS sp' (inp s) (c_body C g) d -> In d (solving s)).
    { intros g d Hg Hr.
      assert (Hin : In d (reads (c_body C g) (specs s) (inp s) (vals s))).
      { apply (ReadsS_reads (specs s) sp' (inp s) (vals s)); auto.
        - intros e w He Hrun.
          destruct (Hst g Hg) as [(v0 & _ & Hs0)|[(_ & Hs0)|[(d1 & Hd1 & Hdn & Hds & Hs0)|(i & _ & _ & Hs0)]]];
            unfold srun in Hs0; rewrite Hrun in Hs0; try discriminate.
          inversion Hs0; subst d1.
          rewrite (terminal_complete C rank ans _ _ _ _ _ _ sp' H Hsp e w He Hds) in Hdn. discriminate.
        - intros i Hrun.
          destruct (Hst g Hg) as [(v0 & _ & Hs0)|[(_ & Hs0)|[(d1 & _ & _ & _ & Hs0)|(i1 & _ & _ & Hs0)]]];
            unfold srun in Hs0; rewrite Hrun in Hs0; discriminate. }
      destruct (reads_present_or_block _ _ _ _ _ Hin) as [[w Hw]|Hb].
      - apply (i_vals_sol _ _ _ _ HI d w Hw).
      - destruct (Hst g Hg) as [(v0 & _ & Hs0)|[(_ & Hs0)|[(d1 & _ & _ & Hds & Hs0)|(i1 & _ & _ & Hs0)]]];
          unfold srun in Hs0; rewrite Hb in Hs0; try discriminate.
        inversion Hs0; subst. exact Hds. }
    induction HD as [F fi f HF Hc Hin|f Hf|g d Hg IH Hgd|g d fi f Hg IH Hgd Hc Hin].
    + apply (j_forms_req _ _ _ _ HJ F fi f); auto.
    + auto.
    + apply (Hread g d IH Hgd).
    + pose proof (Hread g d IH Hgd) as Hd.
      apply (j_forms_req _ _ _ _ HJ (c_form_of_line C d) fi f); auto.
      apply (j_fmap_form _ _ _ _ HJ). apply (j_sol_fmap _ _ _ _ HJ). exact Hd.
Qed.

(* success = every scheduled line has a value *)
Theorem solved_iff_all_valued fuel I hp s :
  solve C rank fuel R FN I hp ans = inl s ->
  (solved s = true <-> forall f, In f (solving s) -> exists v, alookup f (vals s) = Some v).
Proof.
  intros H. split.
  - intros Hs f Hf. destruct (no_silent_success C rank ans _ _ _ _ _ _ H Hs) as (_ & _ & _ & _ & Hv).
    destruct (Hv f Hf) as (v & Hv1 & _). eauto.
  - intros Hall. destruct (terminal_status C rank ans _ _ _ _ _ _ H) as (HI & HL & Hst).
    destruct (solve_Inv C rank ans _ _ _ _ _ _ H) as [_ Hc].
    destruct (loop_exit _ Hc) as (Hu & Hmi & Hmf & _).
    assert (Hval : forall f, In f (solving s) -> exists v, srun C s f = OVal v).
    { intros f Hf. destruct (Hall f Hf) as [v Hv]. exists v. apply (i_sound _ _ _ _ HI). exact Hv. }
    assert (Hun : unimpl s = []).
    { destruct (unimpl s) as [|f l] eqn:E; [reflexivity|exfalso].
      assert (Hf : In f (unimpl s)) by (rewrite E; left; reflexivity).
      destruct (Hval f (i_unimpl_sol _ _ _ _ HI f Hf)) as [v Hv].
      rewrite (i_unimpl_sem _ _ _ _ HI f Hf) in Hv. discriminate. }
    assert (Hrf : regs (fdep s) = []).
    { destruct (regs (fdep s)) as [|[d f] l] eqn:E; [reflexivity|exfalso].
      assert (Hin : In (d, f) (regs (fdep s))) by (rewrite E; left; reflexivity).
      destruct (Hval f (proj1 (i_fw_sol _ _ _ _ HI d f Hin))) as [v Hv].
      destruct (l_fwaitneed _ _ HL d f Hin) as [X|X]; [rewrite Hmf in X; destruct X|].
      rewrite X in Hv. discriminate. }
    assert (Hri : regs (idep s) = []).
    { destruct (regs (idep s)) as [|[i f] l] eqn:E; [reflexivity|exfalso].
      assert (Hin : In (i, f) (regs (idep s))) by (rewrite E; left; reflexivity).
      destruct (Hval f (i_iw_sol _ _ _ _ HI i f Hin)) as [v Hv].
      destruct (i_iwait _ _ _ _ HI i f Hin) as [X|[_ X]]; [rewrite Hmi in X; destruct X|].
      rewrite X in Hv. discriminate. }
    assert (Hnou : forall t, twf t -> regs t = [] -> has_unmet t = false).
    { intros t [_ NE] Hr. unfold has_unmet. apply not_true_is_false. intros X.
      apply existsb_exists in X as ([d l] & Hin & _).
      pose proof (NE d l Hin) as Hne. destruct l as [|w l]; [congruence|].
      assert (Y : In (d, w) (regs t)).
      { unfold regs, regs_of. rewrite in_flat_map. exists (d, w :: l). split; [exact Hin|]. cbn. auto. }
      rewrite Hr in Y. destruct Y. }
    unfold solved. rewrite (Hnou _ (i_fwf _ _ _ _ HI) Hrf), (Hnou _ (i_iwf _ _ _ _ HI) Hri), Hun. reflexivity.
Qed.

End OneRun.

(** ** two runs *)
Theorem schedule_independent
  rank1 rank2 ans1 ans2 R1 R2 FN1 FN2 fuel1 fuel2 I1 I2 hp1 hp2 s1 s2 :
  cat_wf C ->
  solve C rank1 fuel1 R1 FN1 I1 hp1 ans1 = inl s1 ->
  solve C rank2 fuel2 R2 FN2 I2 hp2 ans2 = inl s2 ->
  (forall F, In F R1 <-> In F R2) -> (forall f, In f FN1 <-> In f FN2) ->
  sub (inp s1) (inp s2) -> sub (inp s2) (inp s1) ->
  (forall f, In f (solving s1) <-> In f (solving s2)) /\
  (forall f, alookup f (vals s1) = alookup f (vals s2)) /\
  solved s1 = solved s2.
Proof.
  intros Hwf H1 H2 HR HF Hi12 Hi21.
  set (sp' := specs s1 ++ specs s2).
  assert (Hsp1 : ssub (specs s1) sp') by (intros x Hx; apply in_or_app; auto).
  assert (Hsp2 : ssub (specs s2) sp') by (intros x Hx; apply in_or_app; auto).
  assert (Hsol : forall f, In f (solving s1) <-> In f (solving s2)).
  { intros f. rewrite (solving_is_DemS rank1 ans1 R1 FN1 _ _ _ _ sp' Hwf H1 Hsp1 f).
    rewrite (solving_is_DemS rank2 ans2 R2 FN2 _ _ _ _ sp' Hwf H2 Hsp2 f).
    split; apply DemS_mono; auto using ssub_refl; intros x; try apply HR; try apply HF. }
  destruct (terminal_status C rank1 ans1 _ _ _ _ _ _ H1) as (HI1 & HL1 & _).
  destruct (terminal_status C rank2 ans2 _ _ _ _ _ _ H2) as (HI2 & HL2 & _).
  assert (Hv12 : forall f v, alookup f (vals s1) = Some v -> alookup f (vals s2) = Some v).
  { intros f v Hv. apply (terminal_complete C rank2 ans2 _ _ _ _ _ _ sp' H2 Hsp2).
    - apply (Derives_mono C (specs s1) sp' (inp s1) (inp s2)); auto. apply (l_derives _ _ HL1). exact Hv.
    - apply Hsol. apply (i_vals_sol _ _ _ _ HI1 f v Hv). }
  assert (Hv21 : forall f v, alookup f (vals s2) = Some v -> alookup f (vals s1) = Some v).
  { intros f v Hv. apply (terminal_complete C rank1 ans1 _ _ _ _ _ _ sp' H1 Hsp1).
    - apply (Derives_mono C (specs s2) sp' (inp s2) (inp s1)); auto. apply (l_derives _ _ HL2). exact Hv.
    - apply Hsol. apply (i_vals_sol _ _ _ _ HI2 f v Hv). }
  assert (Hvals : forall f, alookup f (vals s1) = alookup f (vals s2)).
  { intros f. destruct (alookup f (vals s1)) as [v|] eqn:E1.
    - symmetry. apply Hv12. exact E1.
    - destruct (alookup f (vals s2)) as [v|] eqn:E2; [|reflexivity]. rewrite (Hv21 f v E2) in E1. discriminate. }
  split; [exact Hsol|split; [exact Hvals|]].
  pose proof (solved_iff_all_valued rank1 ans1 R1 FN1 _ _ _ _ H1) as S1.
  pose proof (solved_iff_all_valued rank2 ans2 R2 FN2 _ _ _ _ H2) as S2.
  destruct (solved s1) eqn:E1; destruct (solved s2) eqn:E2; try reflexivity; exfalso.
  - pose proof (proj1 S1 eq_refl) as X.
    assert (Y : false = true); [apply (proj2 S2)|discriminate].
    intros f Hf. rewrite <- Hvals. apply X. apply Hsol. exact Hf.
  - pose proof (proj1 S2 eq_refl) as X.
    assert (Y : false = true); [apply (proj2 S1)|discriminate].
    intros f Hf. rewrite Hvals. apply X. apply Hsol. exact Hf.
Qed.

(** C13 (second half): after a run that solved, re-running on the written-back inputs - in any attempt order, with a
    user who would refuse every question - solves again with the same values and never asks. *)
Theorem rerun_quiet rank1 rank2 ans1 R FN fuel1 fuel2 I hp1 hp2 s1 s2 :
  cat_wf C ->
  solve C rank1 fuel1 R FN I hp1 ans1 = inl s1 -> solved s1 = true ->
  solve C rank2 fuel2 R FN (inp s1) hp2 (fun _ => None) = inl s2 ->
  solved s2 = true /\ (forall f, alookup f (vals s2) = alookup f (vals s1)) /\ prompted (trace s2) = [].
Proof.
  intros Hwf H1 Hs1 H2.
  destruct (session_keeps_answers C rank2 (fun _ => None) (inp s1) _ _ _ _ _ H2) as (Hsub & _ & Hsrc).
  cbn [result_state] in Hsub, Hsrc.
  assert (Hback : sub (inp s2) (inp s1)).
  { intros i x Hx. destruct (Hsrc i x Hx) as [X|(_ & v & nb & _ & Y & _)]; [exact X|discriminate]. }
  destruct (schedule_independent rank1 rank2 ans1 (fun _ => None) R R FN FN _ _ _ _ _ _ s1 s2 Hwf H1 H2
              (fun F => iff_refl _) (fun f => iff_refl _) Hsub Hback) as (Hsol & Hvals & Hsolved).
  rewrite Hs1 in Hsolved. split; [symmetry; exact Hsolved|]. split; [intros f; symmetry; apply Hvals|].
  destruct (prompted (trace s2)) as [|i l] eqn:Ep; [reflexivity|exfalso].
  assert (Hin : In i (prompted (trace s2))) by (rewrite Ep; left; reflexivity).
  unfold prompted in Hin. apply in_flat_map in Hin as (e & He & Hi).
  destruct e as [f|j nb a]; [destruct Hi|]. destruct Hi as [<-|[]].
  destruct (prompts_demand_exact C rank2 (fun _ => None) (inp s1) _ _ _ _ _ H2) as (Hp & _).
  cbn [result_state] in Hp. destruct (Hp j nb a He) as (Hnone & Hne & Hrd).
  destruct nb as [|f nb]; [congruence|]. destruct (Hrd f (or_introl eq_refl)) as [Hr Hf].
  destruct (no_silent_success C rank2 (fun _ => None) _ _ _ _ _ _ H2 (eq_sym Hsolved)) as (_ & _ & _ & _ & Hval).
  destruct (Hval f Hf) as (v & _ & Hrun).
  destruct (val_ireads_present _ _ _ _ _ j Hrun Hr) as [w Hw].
  rewrite (Hback j _ Hw) in Hnone. discriminate.
Qed.

End U.
