(** C07 — proofs about [TaxModel]: a configuration that passes the computed check [cfg_ok]
    computes the statutory tax for EVERY income in cents in [0, max_income], all five statuses. *)
From Coq Require Import ZArith List Bool Lia ZifyBool.
From HV Require Import TaxModel.
Import ListNotations.
Open Scope Z_scope.

Ltac Zify.zify_post_hook ::= Z.to_euclidean_division_equations.

Lemma irs_row_char lo hi x :
  is_irs_row lo hi = true -> lo * 100 <= x < hi * 100 -> irs_row x = (lo, hi).
Proof.
  unfold is_irs_row, irs_row. intros Hr Hx.
  assert (Hd : lo <= x / 100 < hi) by lia.
  set (d := x / 100) in *. clearbody d.
  destruct (Z.ltb_spec d 5); [f_equal; lia|].
  destruct (Z.ltb_spec d 15); [f_equal; lia|].
  destruct (Z.ltb_spec d 25); [f_equal; lia|].
  destruct (Z.ltb_spec d 3000); f_equal; lia.
Qed.

Lemma tab_lookup_total sc col t : forall s e x,
  contiguous t s e = true -> forallb (row_exact sc col) t = true ->
  s * 100 <= x < e * 100 ->
  tab_lookup Ge Lt t x col =
    Some (1000000 * rhu_dollars (marg sc ((fst (irs_row x) + snd (irs_row x)) * 50))).
Proof.
  induction t as [|r t IH]; intros s e x Hc Hall Hx; cbn [contiguous tab_lookup forallb] in *.
  - lia.
  - apply andb_prop in Hc as [Hc Hrest]. apply andb_prop in Hc as [Hlo Hlt].
    apply andb_prop in Hall as [Hr Hall].
    unfold lo_ok, hi_ok.
    destruct (Z.ltb_spec x (t_hi r * 100)) as [Hin|Hout].
    + replace (t_lo r * 100 <=? x) with true by lia. cbn [andb].
      unfold row_exact in Hr. apply andb_prop in Hr as [Hirs Hcell].
      rewrite (irs_row_char (t_lo r) (t_hi r) x Hirs) by lia. cbn [fst snd].
      destruct (nth_error (t_all r) col) as [c|]; [|discriminate].
      cbn [option_map]. f_equal. f_equal. lia.
    + rewrite andb_false_r. apply (IH (t_hi r) e x Hrest Hall). lia.
Qed.

Lemma affine_on_ok s : forall L H a b,
  sched_ok s = true -> affine_on s L H = Some (a, b) ->
  forall x, L <= x <= H -> marg s x = a * x + b.
Proof.
  induction s as [|[lo r] rest IH]; intros L H a b Hok Haff x Hx; cbn [affine_on marg] in *.
  - inversion Haff; subst; lia.
  - cbn [sched_ok] in Hok.
    apply andb_prop in Hok as [Hok Hrest]. apply andb_prop in Hok as [Hok Hnext].
    destruct (affine_on rest L H) as [[a' b']|] eqn:Hrec.
    2:{ destruct rest as [|[h r'] rest']; [|];
        repeat match type of Haff with context[if ?c then _ else _] => destruct c end; discriminate. }
    specialize (IH L H a' b' Hrest Hrec x Hx). rewrite IH.
    destruct rest as [|[h r'] rest'].
    + destruct (Z.leb_spec H (lo * 100)).
      * inversion Haff; subst. replace (Z.max 0 (x - lo * 100)) with 0 by lia. lia.
      * destruct (Z.leb_spec (lo * 100) L); [|discriminate].
        inversion Haff; subst. replace (Z.max 0 (x - lo * 100)) with (x - lo * 100) by lia. ring.
    + destruct (Z.leb_spec H (lo * 100)).
      * inversion Haff; subst. replace (Z.max 0 (Z.min x (h * 100) - lo * 100)) with 0 by lia. lia.
      * destruct (Z.leb_spec (h * 100) L); destruct (Z.leb_spec (lo * 100) (h * 100)); cbn [andb] in Haff.
        -- inversion Haff; subst.
           replace (Z.max 0 (Z.min x (h * 100) - lo * 100)) with (h * 100 - lo * 100) by lia. ring.
        -- destruct (Z.leb_spec (lo * 100) L); destruct (Z.leb_spec H (h * 100)); cbn [andb] in Haff;
             try discriminate. lia.
        -- destruct (Z.leb_spec (lo * 100) L); destruct (Z.leb_spec H (h * 100)); cbn [andb] in Haff;
             try discriminate.
           inversion Haff; subst.
           replace (Z.max 0 (Z.min x (h * 100) - lo * 100)) with (x - lo * 100) by lia. ring.
        -- destruct (Z.leb_spec (lo * 100) L); destruct (Z.leb_spec H (h * 100)); cbn [andb] in Haff;
             try discriminate.
           inversion Haff; subst.
           replace (Z.max 0 (Z.min x (h * 100) - lo * 100)) with (x - lo * 100) by lia. ring.
Qed.

Lemma wk_lookup_spec sc lo_r rows : forall (first:bool) s e x,
  sched_ok sc = true ->
  wcontiguous rows s e = true -> forallb (wrow_exact sc) rows = true ->
  (if first then s * 100 <= x /\ s < e else s * 100 < x) -> x <= e * 100 ->
  wk_lookup Ge lo_r Le first rows x = Some (marg sc x).
Proof.
  induction rows as [|r rs IH]; intros first s e x Hsc Hc Hall Hlo Hhi;
    cbn [wcontiguous wk_lookup forallb] in *.
  - destruct first; lia.
  - apply andb_prop in Hc as [Hc Hrest]. apply andb_prop in Hc as [Hs Hlt].
    apply andb_prop in Hall as [Hr Hall].
    assert (Hlook : lo_ok (if first then Ge else lo_r) x (w_lo r * 100) = true).
    { destruct first; [|destruct lo_r]; unfold lo_ok; lia. }
    rewrite Hlook. cbn [andb]. unfold hi_ok.
    destruct (Z.leb_spec x (w_hi r * 100)) as [Hin|Hout].
    + unfold wrow_exact in Hr.
      destruct (affine_on sc (w_lo r * 100) (w_hi r * 100)) as [[a b]|] eqn:Haff; [|discriminate].
      apply andb_prop in Hr as [Ha Hb].
      rewrite (affine_on_ok sc _ _ a b Hsc Haff x) by (destruct first; lia).
      f_equal. apply Z.eqb_eq in Ha, Hb. subst. ring.
    + apply (IH false (w_hi r) e x Hsc Hrest Hall); lia.
Qed.

Theorem figure_tax_exact y c :
  cfg_ok y c = true ->
  forall st x, (st < 5)%nat -> 0 <= x <= max_income * 100 ->
  figure_tax c x st = Some (official_tax y st x).
Proof.
  unfold cfg_ok. intros Hok st x Hst Hx.
  apply andb_prop in Hok as [Hok Hsched]. apply andb_prop in Hok as [Hok Hstat].
  apply andb_prop in Hok as [Hops Hcont].
  assert (Hin : In st [0;1;2;3;4]%nat) by (cbn; lia).
  rewrite forallb_forall in Hstat, Hsched.
  specialize (Hstat st Hin). specialize (Hsched st Hin). cbn beta in Hsched.
  unfold status_ok in Hstat. unfold figure_tax, official_tax.
  destruct (nth_error (c_col c) st) as [[col|]|]; try discriminate.
  apply andb_prop in Hstat as [Htab Hwk].
  unfold ops_ok in Hops.
  destruct (c_tab_lo c), (c_tab_hi c), (c_wk_first c), (c_wk_hi c), (c_cutop c); try discriminate.
  apply Z.eqb_eq in Hops. rewrite Hops. unfold hi_ok.
  destruct (Z.ltb_spec x (table_cut * 100)) as [Hlow|Hhigh].
  - rewrite (tab_lookup_total (statutory y st) col (c_table c) 0 table_cut x Hcont Htab) by lia.
    destruct (irs_row x); reflexivity.
  - unfold wk_ok in Hwk. apply andb_prop in Hwk as [Hoff Hwk]. rewrite Hoff.
    destruct (nth_error (c_wk c) (col - c_wk_off c)) as [rows|]; [|discriminate].
    apply andb_prop in Hwk as [Hwc Hwe].
    apply (wk_lookup_spec (statutory y st) (c_wk_rest c) rows true table_cut max_income x Hsched Hwc Hwe);
      unfold table_cut, max_income in *; lia.
Qed.

(** * Consequences that are properties of the statutory function itself *)

Lemma marg_mono s : sched_ok s = true -> forall x x', x <= x' -> marg s x <= marg s x'.
Proof.
  induction s as [|[lo r] rest IH]; intros Hok x x' Hx; cbn [marg].
  - lia.
  - cbn [sched_ok] in Hok.
    apply andb_prop in Hok as [Hok Hrest]. apply andb_prop in Hok as [Hok Hnext].
    apply andb_prop in Hok as [Hr Hlo].
    specialize (IH Hrest x x' Hx).
    destruct rest as [|[h r'] rest'].
    + assert (Z.max 0 (x - lo * 100) <= Z.max 0 (x' - lo * 100)) by lia. nia.
    + assert (Z.max 0 (Z.min x (h * 100) - lo * 100) <= Z.max 0 (Z.min x' (h * 100) - lo * 100)) by lia. nia.
Qed.

Lemma marg_nonneg s : sched_ok s = true -> forall x, 0 <= marg s x.
Proof.
  induction s as [|[lo r] rest IH]; intros Hok x; cbn [marg].
  - lia.
  - cbn [sched_ok] in Hok.
    apply andb_prop in Hok as [Hok Hrest]. apply andb_prop in Hok as [Hok Hnext].
    apply andb_prop in Hok as [Hr Hlo]. specialize (IH Hrest x).
    destruct rest as [|[h r'] rest']; nia.
Qed.

(* marginal rate never exceeds [rmax] percent *)
Fixpoint rate_le (rmax:Z) (s:sched) : bool :=
  match s with [] => true | (_, r) :: rest => (r <=? rmax) && rate_le rmax rest end.

Fixpoint disjoint_ok (s:sched) : bool :=   (* brackets ascending: needed for the Lipschitz bound *)
  match s with
  | [] => true
  | (lo, _) :: rest => match rest with [] => true | (h, _) :: _ => lo <=? h end && disjoint_ok rest
  end.

Lemma irs_mid_mono x x' : 0 <= x <= x' ->
  (fst (irs_row x) + snd (irs_row x)) * 50 <= (fst (irs_row x') + snd (irs_row x')) * 50.
Proof.
  intros Hx. unfold irs_row.
  assert (Hd : 0 <= x / 100 <= x' / 100) by lia.
  set (d := x / 100) in *. set (d' := x' / 100) in *. clearbody d d'.
  destruct (Z.ltb_spec d 5); destruct (Z.ltb_spec d 15); destruct (Z.ltb_spec d 25);
    destruct (Z.ltb_spec d 3000); try lia;
  destruct (Z.ltb_spec d' 5); destruct (Z.ltb_spec d' 15); destruct (Z.ltb_spec d' 25);
    destruct (Z.ltb_spec d' 3000); try lia; cbn [fst snd]; lia.
Qed.

Lemma irs_mid_below x : 0 <= x < table_cut * 100 ->
  (fst (irs_row x) + snd (irs_row x)) * 50 <= 9997500.
Proof.
  intros Hx. unfold irs_row, table_cut in *.
  assert (Hd : 0 <= x / 100 < 100000) by lia.
  set (d := x / 100) in *. clearbody d.
  destruct (Z.ltb_spec d 5); destruct (Z.ltb_spec d 15); destruct (Z.ltb_spec d 25);
    destruct (Z.ltb_spec d 3000); cbn [fst snd]; lia.
Qed.

Definition boundary_ok (y:Z) (st:nat) : bool :=
  1000000 * rhu_dollars (marg (statutory y st) 9997500) <=? marg (statutory y st) (table_cut * 100).

Theorem official_tax_mono y st :
  sched_ok (statutory y st) = true -> boundary_ok y st = true ->
  forall x x', 0 <= x <= x' -> official_tax y st x <= official_tax y st x'.
Proof.
  intros Hs Hb x x' Hx. unfold official_tax.
  pose proof (marg_mono _ Hs) as Hm.
  destruct (Z.ltb_spec x (table_cut * 100)) as [Hl|Hh];
  destruct (Z.ltb_spec x' (table_cut * 100)) as [Hl'|Hh'].
  - pose proof (irs_mid_mono x x' Hx) as Hmid.
    destruct (irs_row x) as [lo hi]; destruct (irs_row x') as [lo' hi']; cbn [fst snd] in Hmid.
    specialize (Hm _ _ Hmid). unfold rhu_dollars. lia.
  - pose proof (irs_mid_below x ltac:(lia)) as Hmid.
    destruct (irs_row x) as [lo hi]; cbn [fst snd] in Hmid.
    pose proof (Hm _ _ Hmid) as H1. pose proof (Hm (table_cut * 100) x' ltac:(lia)) as H2.
    unfold boundary_ok in Hb. unfold rhu_dollars in *. lia.
  - lia.
  - apply Hm; lia.
Qed.

Theorem official_qss_eq_mfj y x : official_tax y 4 x = official_tax y 1 x.
Proof.
  unfold official_tax.
  assert (statutory y 4 = statutory y 1) as ->; [|reflexivity].
  unfold statutory.
  destruct y as [|p|p]; try reflexivity.
Qed.

(** * The same consequences, for the implementation model *)
Definition all_status (p:nat -> bool) : bool := forallb p [0;1;2;3;4]%nat.

Theorem figure_tax_monotone y c :
  cfg_ok y c = true -> all_status (boundary_ok y) = true ->
  forall st x x', (st < 5)%nat -> 0 <= x <= x' -> x' <= max_income * 100 ->
  exists t t', figure_tax c x st = Some t /\ figure_tax c x' st = Some t' /\ t <= t'.
Proof.
  intros Hok Hb st x x' Hst Hx Hx'.
  exists (official_tax y st x), (official_tax y st x').
  rewrite (figure_tax_exact y c Hok st x Hst) by lia.
  rewrite (figure_tax_exact y c Hok st x' Hst) by lia.
  split; [reflexivity|split; [reflexivity|]].
  unfold cfg_ok in Hok. apply andb_prop in Hok as [_ Hs].
  unfold all_status in Hb. rewrite forallb_forall in Hs, Hb.
  assert (Hin : In st [0;1;2;3;4]%nat) by (cbn; lia).
  apply official_tax_mono; [apply (Hs st Hin)|apply (Hb st Hin)|lia].
Qed.

Theorem figure_tax_qss_eq_mfj y c :
  cfg_ok y c = true ->
  forall x, 0 <= x <= max_income * 100 -> figure_tax c x 4 = figure_tax c x 1.
Proof.
  intros Hok x Hx.
  rewrite (figure_tax_exact y c Hok 4 x) by lia.
  rewrite (figure_tax_exact y c Hok 1 x) by lia.
  rewrite official_qss_eq_mfj. reflexivity.
Qed.

Theorem figure_tax_defined y c :
  cfg_ok y c = true ->
  forall st x, (st < 5)%nat -> 0 <= x <= max_income * 100 -> figure_tax c x st <> None.
Proof. intros Hok st x Hst Hx. rewrite (figure_tax_exact y c Hok st x Hst Hx). discriminate. Qed.

