(** Layer B — deep embedding of the Python subset used by the form files, and its interpreter.

    Numbers are exact: a Python float is modelled by a rational [PNum q] (binary64 rounding is NOT modelled here:
    the tie of this file to the code is translator validation with a one-unit tolerance on lines that multiply or
    divide; every other line must agree exactly at its declared precision).  [round] is half-even on the exact value.
    Evaluation order is CPython's: which name a line blocks on first is part of the semantics.
    No proofs in this file. *)
From Coq Require Import ZArith QArith Qround List Bool String Ascii.
Import ListNotations.
Open Scope string_scope.

Inductive pv :=
| PNone | PBool (b:bool) | PInt (z:Z) | PNum (q:Q) | PStr (s:string)
| PEnum (e m:string) | PTuple (l:list pv) | PList (l:list pv).

Inductive bop := OAdd | OSub | OMul | ODiv.
Inductive cop := CGt | CGe | CLt | CLe | CEq | CNe | CIs | CIsNot | CIn | CNotIn.
Inductive fn := FSum | FMin | FMax | FFloat | FStr | FLen | FRound | FCeil | FList | FFigureTax
              | FUpper | FStrip | FJoin (sep:string) | FAny.
Inductive rkind := RV | RI.

Inductive expr :=
| EConst (v:pv)
| EVar (x:string)
| ERead (k:rkind) (name:list npart)
| EThreshold (form:option string) (name:list npart) (key:option expr)
| EBin (op:bop) (a b:expr)
| ECmp (op:cop) (a b:expr)
| EAnd (a b:expr) | EOr (a b:expr) | ENot (a:expr) | ENeg (a:expr)
| EIf (c t e:expr)
| ECall (f:fn) (args:list expr)
| ETuple (l:list expr) | EList (l:list expr)
| EIndex (e:expr) (i:Z)
| EIndexE (e i:expr)                    (* subscript with a computed index / dict lookup *)
| EDict (items:list (expr * expr))
| ESlice (e:expr) (lo hi:option Z)
| EComp (body:expr) (x:string) (src:expr) (cond:option expr)   (* [body for x in src if cond]; src = ERange n or a list *)
| ERange (n:expr)
| EFStr (parts:list npart)
| EInstance
| EUnimpl
| EAttrErr (what:string)
| EBlock (params:list (string * expr)) (body:list stmt)        (* inlined call of a local helper function *)
with npart := NLit (s:string) | NExp (e:expr)
with stmt :=
| SAssign (x:string) (e:expr)
| SAug (x:string) (op:bop) (e:expr)
| STupleAssign (xs:list string) (e:expr)
| SIf (c:expr) (t e:list stmt)
| SFor (x:string) (src:expr) (body:list stmt)
| SReturn (e:expr)
| SExpr (e:expr)
| SContinue
| SAssert (e:expr)
| SAppend (x:string) (e:expr)
| SBreak.

Inductive ltype := TStr | TBool | TInt | TFloat (places:Z) | TEnum (e:string).

(** * results *)
Inductive crash := CTypeError | CKeyError | CAssert | CAttr | CIndex | CZeroDiv | CFuel | CThreshold | CName | COther.
Inductive res (A:Type) :=
| RVal (a:A) | RNeedV (n:string) | RNeedI (n:string) | RUnimpl | RCrash (c:crash).
Arguments RVal {A}. Arguments RNeedV {A}. Arguments RNeedI {A}. Arguments RUnimpl {A}. Arguments RCrash {A}.

Definition bind {A B} (r:res A) (k:A -> res B) : res B :=
  match r with
  | RVal a => k a | RNeedV n => RNeedV n | RNeedI n => RNeedI n | RUnimpl => RUnimpl | RCrash c => RCrash c
  end.
Notation "x <- r ;; k" := (bind r (fun x => k)) (at level 61, r at next level, right associativity).

(** * values *)
Fixpoint slookup {A} (k:string) (l:list (string * A)) : option A :=
  match l with [] => None | (k', a) :: r => if String.eqb k k' then Some a else slookup k r end.
Fixpoint sset {A} (k:string) (a:A) (l:list (string * A)) : list (string * A) :=
  match l with [] => [(k, a)] | (k', a') :: r => if String.eqb k k' then (k, a) :: r else (k', a') :: sset k a r end.

Definition truthy (v:pv) : bool :=
  match v with
  | PNone => false | PBool b => b | PInt z => negb (z =? 0)%Z | PNum q => negb (Qeq_bool q 0)
  | PStr s => negb (String.eqb s "") | PEnum _ _ => true
  | PTuple l => negb (match l with [] => true | _ => false end)
  | PList l => negb (match l with [] => true | _ => false end)
  end.

(* numeric view: bool and int are numbers (bool is a subclass of int) *)
Definition as_num (v:pv) : option (bool * Q) :=      (* (is_float, value) *)
  match v with
  | PBool b => Some (false, if b then 1 else 0)%Q
  | PInt z => Some (false, inject_Z z)
  | PNum q => Some (true, q)
  | _ => None
  end.
Definition mk_num (isf:bool) (q:Q) : pv := if isf then PNum (Qred q) else PInt (Qfloor q).

Fixpoint pv_eqb (a b:pv) {struct a} : bool :=
  match as_num a, as_num b with
  | Some (_, x), Some (_, y) => Qeq_bool x y
  | _, _ =>
    match a, b with
    | PNone, PNone => true
    | PStr x, PStr y => String.eqb x y
    | PEnum e m, PEnum e' m' => String.eqb e e' && String.eqb m m'
    | PTuple l, PTuple l' | PList l, PList l' =>
        (fix go (l l':list pv) : bool :=
           match l, l' with
           | [], [] => true
           | x :: r, y :: r' => pv_eqb x y && go r r'
           | _, _ => false
           end) l l'
    | _, _ => false
    end
  end.

Definition arith (op:bop) (a b:pv) : res pv :=
  match op, a, b with
  | OAdd, PStr x, PStr y => RVal (PStr (x ++ y))
  | OAdd, PList x, PList y => RVal (PList (x ++ y)%list)
  | _, _, _ =>
    match as_num a, as_num b with
    | Some (fa, x), Some (fb, y) =>
        match op with
        | OAdd => RVal (mk_num (fa || fb) (x + y))
        | OSub => RVal (mk_num (fa || fb) (x - y))
        | OMul => RVal (mk_num (fa || fb) (x * y))
        | ODiv => if Qeq_bool y 0 then RCrash CZeroDiv else RVal (PNum (Qred (x / y)))
        end
    | _, _ => RCrash CTypeError
    end
  end.

Definition num_cmp (op:cop) (x y:Q) : bool :=
  match op with
  | CGt => negb (Qle_bool x y) | CGe => Qle_bool y x | CLt => negb (Qle_bool y x) | CLe => Qle_bool x y
  | _ => false
  end.

Definition compare_pv (op:cop) (a b:pv) : res pv :=
  match op with
  | CEq => RVal (PBool (pv_eqb a b))
  | CNe => RVal (PBool (negb (pv_eqb a b)))
  | CIs => RVal (PBool (match a, b with
                        | PNone, PNone => true | PBool x, PBool y => Bool.eqb x y
                        | PEnum e m, PEnum e' m' => String.eqb e e' && String.eqb m m'
                        | _, _ => false end))
  | CIsNot => RVal (PBool (negb (match a, b with
                        | PNone, PNone => true | PBool x, PBool y => Bool.eqb x y
                        | PEnum e m, PEnum e' m' => String.eqb e e' && String.eqb m m'
                        | _, _ => false end)))
  | CIn | CNotIn =>
      match b with
      | PList l | PTuple l => RVal (PBool (xorb (match op with CNotIn => true | _ => false end) (existsb (pv_eqb a) l)))
      | _ => RCrash CTypeError
      end
  | _ =>
      match as_num a, as_num b with
      | Some (_, x), Some (_, y) => RVal (PBool (num_cmp op x y))
      | _, _ => RCrash CTypeError
      end
  end.

(* round half to even on the exact value: q * 10^p rounded to an integer *)
Definition rhe (q:Q) : Z :=
  let f := Qfloor q in
  let d := (q - inject_Z f)%Q in
  match Qcompare d (1#2) with
  | Lt => f | Gt => (f + 1)%Z | Eq => if Z.even f then f else (f + 1)%Z
  end.
Definition pow10 (p:Z) : Q := inject_Z (10 ^ p).
Definition qround (p:Z) (q:Q) : Q := Qred (inject_Z (rhe (q * pow10 p)) / pow10 p).

(* decimal rendering of an integer (str(int)) *)
Fixpoint digits_of (fuel:nat) (n:Z) (acc:string) : string :=
  match fuel with
  | O => acc
  | S k => let d := (n mod 10)%Z in
           let c := String (ascii_of_nat (48 + Z.to_nat d)) acc in
           if (n / 10 =? 0)%Z then c else digits_of k (n / 10)%Z c
  end.
Definition str_of_Z (z:Z) : string :=
  if (z <? 0)%Z then String "-" (digits_of 40 (- z) "") else digits_of 40 z "".

Definition upper_ascii (c:ascii) : ascii :=
  let n := nat_of_ascii c in if (97 <=? n)%nat && (n <=? 122)%nat then ascii_of_nat (n - 32) else c.
Fixpoint upper (s:string) : string := match s with EmptyString => s | String c r => String (upper_ascii c) (upper r) end.
Definition is_space (c:ascii) : bool := let n := nat_of_ascii c in (n =? 32)%nat || ((9 <=? n)%nat && (n <=? 13)%nat).
Fixpoint lstrip (s:string) : string := match s with String c r => if is_space c then lstrip r else s | _ => s end.
Fixpoint srev (s acc:string) : string := match s with EmptyString => acc | String c r => srev r (String c acc) end.
Definition strip (s:string) : string := srev (lstrip (srev (lstrip s) "")) "".
Fixpoint sjoin (sep:string) (l:list string) : string :=
  match l with [] => "" | [x] => x | x :: r => x ++ sep ++ sjoin sep r end.

Definition str_of (v:pv) : res string :=
  match v with
  | PStr s => RVal s
  | PInt z => RVal (str_of_Z z)
  | PEnum _ m => RVal m
  | PBool b => RVal (if b then "True" else "False")
  | PNone => RVal "None"
  | _ => RCrash COther          (* str(float): not used to build names in the forms *)
  end.

Definition slice_list {A} (l:list A) (lo hi:option Z) : list A :=
  let n := Z.of_nat (List.length l) in
  let norm z := if (z <? 0)%Z then Z.max 0 (n + z) else Z.min z n in
  let a := match lo with Some z => norm z | None => 0%Z end in
  let b := match hi with Some z => norm z | None => n end in
  firstn (Z.to_nat (b - a)) (skipn (Z.to_nat a) l).
Definition slice_str (s:string) (lo hi:option Z) : string :=
  string_of_list_ascii (slice_list (list_ascii_of_string s) lo hi).

(** * catalogue *)
Record line := Line { l_name : string; l_type : ltype; l_required : bool; l_body : list stmt }.
Record threshold := Threshold { t_name : string; t_scalar : option pv; t_table : list (list pv * pv) }.
Record form := Form {
  f_name : string; f_inputs : list (string * string);     (* input name, class name *)
  f_lines : list line; f_thresholds : list threshold
}.
Definition catalogue := list form.

Record ctx := Ctx {
  x_cat : catalogue;
  x_form : string;                  (* own form class name *)
  x_inst : option string;           (* own instance *)
  x_vals : list (string * pv);
  x_inps : list (string * pv);      (* validated, typed input values; absent = missing *)
  x_forms : list string;            (* participating form instances: s.form('1040') *)
  x_tax : Q -> pv -> res pv         (* figure_tax of the year *)
}.

Definition own_name (c:ctx) : string :=
  match x_inst c with Some i => x_form c ++ ":" ++ i | None => x_form c end.
Fixpoint has_dot (s:string) : bool :=
  match s with EmptyString => false | String c r => if Ascii.eqb c "." then true else has_dot r end.
Definition qualify (c:ctx) (k:string) : string := if has_dot k then k else own_name c ++ "." ++ k.

Fixpoint find_form (cat:catalogue) (n:string) : option form :=
  match cat with [] => None | f :: r => if String.eqb (f_name f) n then Some f else find_form r n end.
Fixpoint find_threshold (l:list threshold) (n:string) : option threshold :=
  match l with [] => None | t :: r => if String.eqb (t_name t) n then Some t else find_threshold r n end.

(* Form.threshold, habutax/form.py:135-149 *)
Definition threshold_lookup (t:threshold) (key:option pv) : res pv :=
  match t_scalar t, key with
  | Some v, None => RVal v
  | Some _, Some _ => RCrash CThreshold
  | None, None => RCrash CThreshold
  | None, Some k =>
      match find (fun kv => existsb (pv_eqb k) (fst kv)) (t_table t) with
      | Some kv => RVal (snd kv)
      | None => RCrash CThreshold
      end
  end.

Inductive signal := SigNone | SigReturn (v:pv) | SigContinue | SigBreak.
Definition env := list (string * pv).

Section Eval.
Context (c:ctx).

Definition do_read (k:rkind) (name:string) : res pv :=
  let n := qualify c name in
  match k with
  | RV => match slookup n (x_vals c) with Some v => RVal v | None => RNeedV n end
  | RI => match slookup n (x_inps c) with Some v => RVal v | None => RNeedI n end
  end.

Definition call_fn (f:fn) (args:list pv) : res pv :=
  match f, args with
  | FSum, [PList l] | FSum, [PTuple l] =>
      fold_left (fun acc x => a <- acc ;; arith OAdd a x) l (RVal (PInt 0))
  | FMin, a :: b :: r =>
      fold_left (fun acc x => m <- acc ;; t <- compare_pv CLt x m ;; RVal (if truthy t then x else m)) (b :: r) (RVal a)
  | FMax, a :: b :: r =>
      fold_left (fun acc x => m <- acc ;; t <- compare_pv CGt x m ;; RVal (if truthy t then x else m)) (b :: r) (RVal a)
  | FMin, [PList (a :: r)] =>
      fold_left (fun acc x => m <- acc ;; t <- compare_pv CLt x m ;; RVal (if truthy t then x else m)) r (RVal a)
  | FMax, [PList (a :: r)] =>
      fold_left (fun acc x => m <- acc ;; t <- compare_pv CGt x m ;; RVal (if truthy t then x else m)) r (RVal a)
  | FFloat, [v] => match as_num v with Some (_, q) => RVal (PNum q) | None => RCrash CTypeError end
  | FStr, [v] => s <- str_of v ;; RVal (PStr s)
  | FLen, [PList l] | FLen, [PTuple l] => RVal (PInt (Z.of_nat (List.length l)))
  | FLen, [PStr s] => RVal (PInt (Z.of_nat (String.length s)))
  | FRound, [v; PInt p] =>
      match v with
      | PNum q => RVal (PNum (qround p q))
      | PInt z => RVal (PInt z)
      | PBool b => RVal (PInt (if b then 1 else 0))
      | _ => RCrash CTypeError
      end
  | FRound, [v] => match as_num v with Some (_, q) => RVal (PInt (rhe q)) | None => RCrash CTypeError end     (* round(x): nearest integer, ties to even *)
  | FCeil, [v] => match as_num v with Some (_, q) => RVal (PInt (Qceiling q)) | None => RCrash CTypeError end
  | FList, [PList l] | FList, [PTuple l] => RVal (PList l)
  | FFigureTax, [a; st] => match as_num a with Some (_, q) => x_tax c q st | None => RCrash CTypeError end
  | FUpper, [PStr s] => RVal (PStr (upper s))
  | FStrip, [PStr s] => RVal (PStr (strip s))
  | FJoin sep, [PList l] =>
      a <- fold_right (fun x acc => a <- acc ;; match x with PStr s => RVal (s :: a) | _ => RCrash CTypeError end) (RVal []) l ;;
      RVal (PStr (sjoin sep a))
  | FAny, [PList l] => RVal (PBool (existsb truthy l))
  | _, _ => RCrash CTypeError
  end.

Fixpoint eval (fuel:nat) (e:expr) (r:env) {struct fuel} : res pv :=
  match fuel with
  | O => RCrash CFuel
  | S n =>
    let ev := eval n in
    let eval_list := fix go (l:list expr) : res (list pv) :=
        match l with [] => RVal [] | x :: t => v <- ev x r ;; vs <- go t ;; RVal (v :: vs) end in
    let eval_name := fix go (l:list npart) : res string :=
        match l with
        | [] => RVal ""
        | NLit s :: t => rest <- go t ;; RVal (s ++ rest)
        | NExp x :: t => v <- ev x r ;; s <- str_of v ;; rest <- go t ;; RVal (s ++ rest)
        end in
    match e with
    | EConst v => RVal v
    | EVar x => match slookup x r with Some v => RVal v | None => RCrash CName end
    | ERead k name => s <- eval_name name ;; do_read k s
    | EThreshold fo name key =>
        (* receiver first: s.form('1040') raises KeyError when that form does not take part *)
        fm <- match fo with
              | Some f => if existsb (String.eqb f) (x_forms c) then RVal f else RCrash CKeyError
              | None => RVal (x_form c)
              end ;;
        nm <- eval_name name ;;
        k <- match key with Some ke => v <- ev ke r ;; RVal (Some v) | None => RVal None end ;;
        match find_form (x_cat c) fm with
        | None => RCrash CKeyError
        | Some f => match find_threshold (f_thresholds f) nm with
                    | None => RCrash CThreshold
                    | Some t => threshold_lookup t k
                    end
        end
    | EBin op a b => x <- ev a r ;; y <- ev b r ;; arith op x y
    | ECmp op a b => x <- ev a r ;; y <- ev b r ;; compare_pv op x y
    | EAnd a b => x <- ev a r ;; if truthy x then ev b r else RVal x
    | EOr a b => x <- ev a r ;; if truthy x then RVal x else ev b r
    | ENot a => x <- ev a r ;; RVal (PBool (negb (truthy x)))
    | ENeg a => x <- ev a r ;; arith OSub (PInt 0) x
    | EIf cnd t f => x <- ev cnd r ;; if truthy x then ev t r else ev f r
    | ECall f args => vs <- eval_list args ;; call_fn f vs
    | ETuple l => vs <- eval_list l ;; RVal (PTuple vs)
    | EList l => vs <- eval_list l ;; RVal (PList vs)
    | EIndex a i =>
        x <- ev a r ;;
        match x with
        | PTuple l | PList l =>
            let n := Z.of_nat (List.length l) in
            let j := if (i <? 0)%Z then (n + i)%Z else i in
            if ((0 <=? j) && (j <? n))%Z then
              match nth_error l (Z.to_nat j) with Some v => RVal v | None => RCrash CIndex end
            else RCrash CIndex
        | _ => RCrash CTypeError
        end
    | ESlice a lo hi =>
        x <- ev a r ;;
        match x with
        | PStr s => RVal (PStr (slice_str s lo hi))
        | PList l => RVal (PList (slice_list l lo hi))
        | PTuple l => RVal (PTuple (slice_list l lo hi))
        | _ => RCrash CTypeError
        end
    | EIndexE a ie =>
        x <- ev a r ;;
        i <- ev ie r ;;
        match x with
        | PTuple [PStr "<dict>"; PList pairs] =>
            match find (fun kv => match kv with PTuple [k; _] => pv_eqb k i | _ => false end) pairs with
            | Some (PTuple [_; v]) => RVal v
            | _ => RCrash CKeyError
            end
        | PTuple l | PList l =>
            match i with
            | PInt iz =>
                let n := Z.of_nat (List.length l) in
                let j := if (iz <? 0)%Z then (n + iz)%Z else iz in
                if ((0 <=? j) && (j <? n))%Z then
                  match nth_error l (Z.to_nat j) with Some v => RVal v | None => RCrash CIndex end
                else RCrash CIndex
            | PBool b => match nth_error l (if b then 1%nat else 0%nat) with Some v => RVal v | None => RCrash CIndex end
            | _ => RCrash CTypeError
            end
        | _ => RCrash CTypeError
        end
    | EDict items =>
        ps <- (fix go (l:list (expr * expr)) : res (list pv) :=
                 match l with
                 | [] => RVal []
                 | (k, v) :: t => kv <- ev k r ;; vv <- ev v r ;; rest <- go t ;; RVal (PTuple [kv; vv] :: rest)
                 end) items ;;
        RVal (PTuple [PStr "<dict>"; PList ps])
    | ERange cnt =>
        x <- ev cnt r ;;
        match x with
        | PInt z => RVal (PList (map (fun k => PInt (Z.of_nat k)) (seq 0 (Z.to_nat z))))
        | PBool b => RVal (PList (if b then [PInt 0] else []))
        | _ => RCrash CTypeError
        end
    | EComp body x src cond =>
        s <- ev src r ;;
        match (match s with PStr str => PList (map (fun ch => PStr (String ch "")) (list_ascii_of_string str)) | _ => s end) with
        | PList items | PTuple items =>
            a <- fold_left (fun acc it =>
                         a <- acc ;;
                         let r' := sset x it r in
                         keep <- match cond with
                                 | Some cnd => t <- ev cnd r' ;; RVal (truthy t)
                                 | None => RVal true
                                 end ;;
                         if keep then v <- ev body r' ;; RVal (a ++ [v])%list else RVal a)
                      items (RVal []) ;;
            RVal (PList a)
        | _ => RCrash CTypeError
        end
    | EFStr parts => s <- eval_name parts ;; RVal (PStr s)
    | EInstance => RVal (match x_inst c with Some i => PStr i | None => PNone end)
    | EUnimpl => RUnimpl
    | EAttrErr _ => RCrash CAttr
    | EBlock params body =>
        r0 <- (fix go (l:list (string * expr)) : res env :=
                 match l with
                 | [] => RVal []
                 | (x, a) :: t => v <- ev a r ;; rest <- go t ;; RVal ((x, v) :: rest)
                 end) params ;;
        sg <- exec n body r0 ;;
        match snd sg with SigReturn v => RVal v | _ => RVal PNone end
    end
  end
with exec (fuel:nat) (l:list stmt) (r:env) {struct fuel} : res (env * signal) :=
  match fuel with
  | O => RCrash CFuel
  | S n =>
    match l with
    | [] => RVal (r, SigNone)
    | s :: rest =>
      let continue_with (r':env) := exec n rest r' in
      match s with
      | SAssign x e => v <- eval n e r ;; continue_with (sset x v r)
      | SAug x op e =>
          match slookup x r with
          | None => RCrash CName
          | Some old => v <- eval n e r ;; nv <- arith op old v ;; continue_with (sset x nv r)
          end
      | STupleAssign xs e =>
          v <- eval n e r ;;
          match v with
          | PTuple vs | PList vs =>
              if (List.length vs =? List.length xs)%nat
              then continue_with (fold_left (fun acc xv => sset (fst xv) (snd xv) acc) (combine xs vs) r)
              else RCrash CTypeError
          | _ => RCrash CTypeError
          end
      | SIf cnd t f =>
          x <- eval n cnd r ;;
          sg <- exec n (if truthy x then t else f) r ;;
          match snd sg with SigNone => continue_with (fst sg) | _ => RVal sg end
      | SFor x src body =>
          s <- eval n src r ;;
          match s with
          | PList items | PTuple items =>
              res0 <- fold_left (fun acc it =>
                                   a <- acc ;;
                                   match snd a with
                                   | SigReturn _ | SigBreak => RVal a
                                   | _ => sg <- exec n body (sset x it (fst a)) ;;
                                          RVal (fst sg, match snd sg with SigReturn v => SigReturn v | SigBreak => SigBreak | _ => SigNone end)
                                   end)
                                items (RVal (r, SigNone)) ;;
              match snd res0 with SigReturn v => RVal res0 | _ => continue_with (fst res0) end
          | PStr str =>
              res0 <- fold_left (fun acc ch =>
                                   a <- acc ;;
                                   match snd a with
                                   | SigReturn _ | SigBreak => RVal a
                                   | _ => sg <- exec n body (sset x (PStr (String ch "")) (fst a)) ;;
                                          RVal (fst sg, match snd sg with SigReturn v => SigReturn v | SigBreak => SigBreak | _ => SigNone end)
                                   end)
                                (list_ascii_of_string str) (RVal (r, SigNone)) ;;
              match snd res0 with SigReturn v => RVal res0 | _ => continue_with (fst res0) end
          | _ => RCrash CTypeError
          end
      | SReturn e => v <- eval n e r ;; RVal (r, SigReturn v)
      | SExpr e => _ <- eval n e r ;; continue_with r
      | SContinue => RVal (r, SigContinue)
      | SBreak => RVal (r, SigBreak)
      | SAssert e => v <- eval n e r ;; if truthy v then continue_with r else RCrash CAssert
      | SAppend x e =>
          match slookup x r with
          | Some (PList old) => v <- eval n e r ;; continue_with (sset x (PList (old ++ [v])%list) r)
          | _ => RCrash CTypeError
          end
      end
    end
  end.

Definition is_blank (s:string) : bool := String.eqb (strip s) "".

(* TypedField.value / FloatField.value, habutax/fields.py:58-64, 97-99 *)
Definition typed_value (t:ltype) (v:pv) : res pv :=
  let blank := match v with PNone => true | PStr s => is_blank s | _ => false end in
  if blank then
    RVal (match t with TStr => PStr "" | TBool => PBool false | TInt => PInt 0 | TFloat _ => PNum 0 | TEnum _ => PNone end)
  else
    match t, v with
    | TStr, PStr _ | TBool, PBool _ | TInt, PInt _ => RVal v
    | TFloat p, PNum q => RVal (PNum (qround p q))
    | TEnum e, PEnum e' _ => if String.eqb e e' then RVal v else RCrash CTypeError
    | _, _ => RCrash CTypeError
    end.

Definition line_value (fuel:nat) (l:line) : res pv :=
  sg <- exec fuel (l_body l) [] ;;
  typed_value (l_type l) (match snd sg with SigReturn v => v | _ => PNone end).

End Eval.
