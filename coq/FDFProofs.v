(** C19 — the writer's output decodes, under the PDF literal-string syntax, to exactly the text that was written:
    for EVERY byte string (parentheses, backslashes, quotes, carriage returns, any length). *)
From Coq Require Import List Bool String Ascii Arith Lia.
From HV Require Import FDF.
Import ListNotations.
Open Scope string_scope.

Lemma app_assoc_s (a b c:string) : (a ++ b) ++ c = a ++ (b ++ c).
Proof. induction a; cbn; [reflexivity|rewrite IHa; reflexivity]. Qed.
Lemma app_nil_r_s (a:string) : a ++ "" = a.
Proof. induction a; cbn; [reflexivity|rewrite IHa; reflexivity]. Qed.
Lemma length_app_s (a b:string) : String.length (a ++ b) = String.length a + String.length b.
Proof. induction a; cbn; [reflexivity|rewrite IHa; reflexivity]. Qed.

Lemma lit_fdf_string s : forall fuel acc rest,
  String.length (fdf_string s) < fuel ->
  lit fuel (fdf_string s ++ String rp rest) 0 acc = Some (acc ++ s, rest).
Proof.
  induction s as [|c s IH]; intros fuel acc rest Hf.
  - destruct fuel as [|n]; [cbn in Hf; lia|]. cbn. rewrite app_nil_r_s. reflexivity.
  - cbn [fdf_string] in *. rewrite length_app_s in Hf.
    destruct fuel as [|n]; [lia|].
    unfold esc in *.
    destruct (Ascii.eqb_spec c bs) as [->|Hbs].
    { cbn in Hf. cbn. rewrite (IH n) by lia. rewrite app_assoc_s. reflexivity. }
    destruct (Ascii.eqb_spec c lp) as [->|Hlp].
    { cbn in Hf. cbn. rewrite (IH n) by lia. rewrite app_assoc_s. reflexivity. }
    destruct (Ascii.eqb_spec c rp) as [->|Hrp].
    { cbn in Hf. cbn. rewrite (IH n) by lia. rewrite app_assoc_s. reflexivity. }
    destruct (Ascii.eqb_spec c cr) as [->|Hcr].
    { cbn in Hf. cbn. rewrite (IH n) by lia. rewrite app_assoc_s. reflexivity. }
    cbn in Hf. cbn [append]. cbn [lit].
    destruct (Ascii.eqb_spec c bs); [contradiction|].
    destruct (Ascii.eqb_spec c lp); [contradiction|].
    destruct (Ascii.eqb_spec c rp); [contradiction|].
    destruct (Ascii.eqb_spec c cr); [contradiction|].
    rewrite (IH n) by lia. rewrite app_assoc_s. reflexivity.
Qed.

Lemma strip_prefix_app p s : strip_prefix p (p ++ s) = Some s.
Proof. induction p as [|a p IH]; cbn; [reflexivity|]. rewrite Ascii.eqb_refl. exact IH. Qed.

Lemma lit_fdf_string0 s rest : lit (S (String.length (fdf_string s ++ String rp rest))) (fdf_string s ++ String rp rest) 0 "" = Some (s, rest).
Proof. rewrite lit_fdf_string; [reflexivity|]. rewrite length_app_s. cbn. lia. Qed.

Theorem fdf_entry_roundtrip k v rest : read_entry (entry (k, v) ++ rest) = Some ((k, v), rest).
Proof.
  unfold read_entry, entry. cbn [fst snd].
  replace (("<< /T (" ++ fdf_string k ++ ") /V (" ++ fdf_string v ++ ") >>") ++ rest)
    with ("<< /T (" ++ (fdf_string k ++ String rp (" /V (" ++ (fdf_string v ++ String rp (" >>" ++ rest)))))
    by (rewrite !app_assoc_s; reflexivity).
  rewrite strip_prefix_app. rewrite lit_fdf_string0.
  rewrite strip_prefix_app. rewrite lit_fdf_string0.
  rewrite strip_prefix_app. reflexivity.
Qed.

(* the whole field list, entries joined by new lines as _create_fdf writes them *)
Fixpoint body (data:list (string * string)) : string :=
  match data with
  | [] => ""
  | [kv] => entry kv
  | kv :: r => entry kv ++ String lf (body r)
  end.
Fixpoint read_body (fuel:nat) (s:string) : option (list (string * string)) :=
  match fuel with
  | O => None
  | S n =>
      match s with
      | EmptyString => Some []
      | _ => match read_entry s with
             | None => None
             | Some (kv, rest) =>
                 match rest with
                 | EmptyString => Some [kv]
                 | String c r => if Ascii.eqb c lf then option_map (cons kv) (read_body n r) else None
                 end
             end
      end
  end.

Theorem fdf_roundtrip data : read_body (S (List.length data)) (body data) = Some data.
Proof.
  induction data as [|kv data IH]; [reflexivity|].
  destruct kv as [k v]. cbn [body].
  destruct data as [|kv2 data].
  - cbn [read_body List.length]. rewrite <- (app_nil_r_s (entry (k, v))). rewrite fdf_entry_roundtrip.
    unfold entry. cbn. reflexivity.
  - cbn [read_body]. rewrite fdf_entry_roundtrip. rewrite Ascii.eqb_refl.
    change (List.length ((k, v) :: kv2 :: data)) with (S (List.length (kv2 :: data))).
    rewrite IH. cbn. destruct (entry (k, v) ++ String lf (body (kv2 :: data))) eqn:E; [|reflexivity].
    unfold entry in E. cbn in E. discriminate.
Qed.
