(** C10 - soundness of the reference collection of FormsRefs.v with respect to the interpreter of Forms.v, for EVERY line body:
    whatever name a line can wait for (a line of some form, RNeedV; an input, RNeedI) was collected by the analysis from a read node of
    the body, with the literal parts of the name as written there.  So the interpreter can hand the solver no name whose skeleton the
    analysis has not checked against the catalogue (C10_names_ok_<year>).
    "Weak" matching: an alternative set (loop variable over a constant list, instance-indexed table) is read as "any string" here; that
    the value actually lies among the alternatives is not part of this theorem. *)
From Coq Require Import ZArith QArith List String Bool.
From HV Require Import Forms FormsRefs TaxModel FormsCheck StoreMono.
Import ListNotations.
Open Scope string_scope.

Fixpoint wmatch (ps:list piece) (s:string) : Prop :=
  match ps with
  | [] => s = ""
  | PcLit l :: t => exists rest, s = l ++ rest /\ wmatch t rest
  | _ :: t => exists pre rest, s = pre ++ rest /\ wmatch t rest
  end.

Definition exh : ref := Ref KAttrErr [PcLit "<analysis fuel exhausted>"].

(* neither a wait nor an attribute error: what arithmetic, comparisons, built-in functions, conversions and typing can produce *)
Definition noneed {A} (r:res A) : Prop := match r with RNeedV _ | RNeedI _ | RCrash CAttr | RCrash CThreshold => False | _ => True end.

Lemma noneed_bind A B (ra:res A) (k:A -> res B) : noneed ra -> (forall a, noneed (k a)) -> noneed (bind ra k).
Proof. destruct ra as [| | | |cr]; simpl; auto. Qed.
Lemma noneed_fold A B (f:res A -> B -> res A) l : (forall acc it, noneed acc -> noneed (f acc it)) -> forall i, noneed i -> noneed (fold_left f l i).
Proof. intros Hf. induction l; simpl; auto. Qed.

Lemma arith_noneed op x y : noneed (arith op x y).
Proof. unfold arith. destruct op, x, y; simpl; try exact I; repeat match goal with |- noneed (if ?b then _ else _) => destruct b end; exact I. Qed.
Lemma compare_noneed op x y : noneed (compare_pv op x y).
Proof.
  unfold compare_pv. destruct op; try exact I;
    try (destruct (as_num x) as [[? ?]|]; [destruct (as_num y) as [[? ?]|]|]; exact I);
    destruct y; exact I.
Qed.
Lemma str_of_noneed v : noneed (str_of v).
Proof. destruct v; exact I. Qed.
Lemma threshold_shape t k : (exists v, threshold_lookup t k = RVal v) \/ threshold_lookup t k = RCrash CThreshold.
Proof. unfold threshold_lookup. destruct (t_scalar t), k; eauto. destruct (find _ _); eauto. Qed.
Lemma refs_s_cons vi n a s rest : refs_s vi (S n) a (s :: rest) =
  (
      let drop x := filter (fun kv => negb (String.eqb (fst kv) x)) a in
      match s with
      | SAssign x e | SAug x _ e | SAppend x e => (refs_e vi n a e ++ refs_s vi n (drop x) rest)%list
      | STupleAssign xs e => (refs_e vi n a e ++ refs_s vi n (filter (fun kv => negb (existsb (String.eqb (fst kv)) xs)) a) rest)%list
      | SIf c t f => (refs_e vi n a c ++ refs_s vi n a t ++ refs_s vi n a f ++ refs_s vi n a rest)%list
      | SFor x src body =>
          let a' := match const_strings src with Some l => sset x l a | None => drop x end in
          (refs_e vi n a src ++ refs_s vi n a' body ++ refs_s vi n (drop x) rest)%list
      | SReturn e | SExpr e | SAssert e => (refs_e vi n a e ++ refs_s vi n a rest)%list
      | SContinue | SBreak => refs_s vi n a rest
      end).
Proof. reflexivity. Qed.

Section S.
Context (c:ctx) (vi:list string) (R:list ref).
Hypothesis clean : ~ In exh R.
Hypothesis tax_noneed : forall q st, noneed (x_tax c q st).

Lemma minmax_noneed (cmp:cop) l i : noneed i ->
  noneed (fold_left (fun acc x => m <- acc ;; t <- compare_pv cmp x m ;; RVal (if truthy t then x else m)) l i).
Proof.
  apply noneed_fold. intros acc it Ha. apply noneed_bind; [exact Ha|]. intros a0.
  apply noneed_bind; [apply compare_noneed|]. intros; exact I.
Qed.

Lemma call_fn_noneed f args : noneed (call_fn c f args).
Proof.
  unfold call_fn.
  repeat match goal with
  | |- noneed (match ?x with _ => _ end) => destruct x
  | |- noneed (if ?b then _ else _) => destruct b
  | |- noneed (RVal _) => exact I
  | |- noneed (RCrash _) => exact I
  | |- noneed (x_tax c _ _) => apply tax_noneed
  | |- noneed (bind _ _) => apply noneed_bind; [|intros ?]
  | |- noneed (str_of _) => apply str_of_noneed
  | |- noneed (fold_left (fun acc x => a <- acc ;; arith OAdd a x) _ _) => apply noneed_fold; [intros ? ? ?; apply noneed_bind; [assumption|intros; apply arith_noneed]|exact I]
  | |- noneed (fold_left _ _ _) => apply minmax_noneed; exact I
  | |- noneed (fold_right _ _ _) => idtac
  end.
  all: try match goal with |- noneed (fold_right _ _ ?l) => induction l as [|x0 t0 IH0]; simpl; [exact I|apply noneed_bind; [exact IH0|intros ?; destruct x0; exact I]] end.
Qed.

Definition covers (k:refk) (n:string) : Prop :=
  exists r s, In r R /\ r_kind r = k /\ n = qualify c s /\ wmatch (r_name r) s.
Definition ok {A} (r:res A) : Prop :=
  match r with
  | RNeedV n => covers KLine n | RNeedI n => covers KInput n
  | RCrash CAttr => exists rf, In rf R /\ r_kind rf = KAttrErr
  | RCrash CThreshold => exists rf fo, In rf R /\ r_kind rf = KThreshold fo
  | _ => True
  end.

Lemma noneed_ok A (r:res A) : noneed r -> ok r.
Proof. destruct r as [| | | |cr]; simpl; try tauto. destruct cr; simpl; tauto. Qed.
Lemma ok_bind A B (ra:res A) (k:A -> res B) : ok ra -> (forall a, ra = RVal a -> ok (k a)) -> ok (bind ra k).
Proof. destruct ra; simpl; auto. Qed.
Lemma ok_fold A B (f:res A -> B -> res A) l : (forall acc it, ok acc -> ok (f acc it)) -> forall i, ok i -> ok (fold_left f l i).
Proof. intros Hf. induction l; simpl; auto. Qed.

(* a name part that is a literal constant evaluates to that literal *)
Lemma piece_lit a m x r v s l : piece_of a vi x = PcLit l -> eval c m x r = RVal v -> str_of v = RVal s -> s = l.
Proof.
  intros Hp He Hs. destruct x; simpl in Hp; try discriminate.
  all: repeat match type of Hp with
       | match ?y with _ => _ end = _ => destruct y; simpl in Hp; try discriminate
       end.
  all: destruct m; [discriminate He|]; simpl in He; inversion He; subst; simpl in Hs; inversion Hs; subst; inversion Hp; reflexivity.
Qed.

Lemma wmatch_cons p t s rest : (forall l, p = PcLit l -> s = l) -> wmatch t rest -> wmatch (p :: t) (s ++ rest).
Proof.
  intros Hl Hw. destruct p; simpl.
  - exists rest. rewrite (Hl s0 eq_refl). auto.
  - exists s, rest. auto.
  - exists s, rest. auto.
Qed.

Lemma refs_e_block n a params body : refs_e vi (S n) a (EBlock params body) =
  ((fix go (l:list (string * expr)) : list ref :=
      match l with [] => [] | (_, x) :: t => (refs_e vi n a x ++ go t)%list end) params ++ refs_s vi n [] body)%list.
Proof. reflexivity. Qed.

Ltac sub Hi := let z := fresh "z" in let Hz := fresh "Hz" in intros z Hz; apply Hi; repeat (progress (cbn [In]; rewrite ?in_app_iff)); tauto.

Ltac ih IHe IHx :=
  match goal with
  | Hi : incl ?L R |- ok (eval c _ ?e ?r) =>
      match L with context[refs_e vi ?n ?a e] => apply (IHe n a e r); sub Hi end
  | Hi : incl ?L R |- ok (exec c _ ?l ?r) =>
      match L with context[refs_s vi ?n ?a l] => apply (IHx n a l r); sub Hi end
  end.

Ltac st IHe IHx :=
  match goal with
  | H : ok ?x |- ok ?x => exact H
  | |- ok (RVal _) => exact I
  | Hi : incl _ R |- ok (RCrash CAttr) => eexists; split; [apply Hi; left; reflexivity|reflexivity]
  | |- ok (RCrash _) => exact I
  | |- ok RUnimpl => exact I
  | |- ok (bind _ _) => apply ok_bind; [|intros ? _]
  | |- ok (exec c _ (if ?b then _ else _) _) => destruct b
  | |- ok (eval c _ _ _) => ih IHe IHx
  | |- ok (exec c _ _ _) => ih IHe IHx
  | |- ok (arith _ _ _) => apply noneed_ok, arith_noneed
  | |- ok (compare_pv _ _ _) => apply noneed_ok, compare_noneed
  | |- ok (call_fn c _ _) => apply noneed_ok, call_fn_noneed
  | |- ok (str_of _) => apply noneed_ok, str_of_noneed
  | Hi : incl _ R |- ok (threshold_lookup ?t ?k) =>
      destruct (threshold_shape t k) as [[? ->]| ->]; [exact I|]
  | Hi : incl _ R |- ok (RCrash CThreshold) =>
      eexists; eexists; split; [apply Hi; repeat (progress (cbn [In]; rewrite ?in_app_iff)); right; left; reflexivity|reflexivity]
  | |- ok (fold_left _ _ _) => apply ok_fold; [intros ? ? ?|]
  | IH : incl ?L R -> ok ?g, Hi : incl _ R |- ok ?g => apply IH; sub Hi
  | Hi : incl ?L R |- ok (?g ?l) =>
      is_fix g;
      match L with context[?h l] => is_fix h;
        let HL := fresh "HL" in
        assert (HL : forall l', incl (h l') R -> ok (g l'));
        [ clear Hi; let l' := fresh "l'" in let IHl := fresh "IHl" in let Hl := fresh "Hl" in
          intros l'; induction l' as [|? ? IHl]; intros Hl; cbv beta iota zeta in Hl |- *
        | apply HL; sub Hi ]
      end
  | |- ok (if ?b then _ else _) => destruct b
  | |- ok (match ?x with _ => _ end) => destruct x
  | |- ok (let (_, _) := ?x in _) => destruct x; cbv beta iota zeta in *
  end.

(* the names a body builds: the parts of a read, a threshold or an f-string *)
Ltac name_fact IHe n a m r :=
  match goal with
  | Hi : incl ?L R |- context[bind (?g ?name) _] =>
     is_fix g;
     match L with context[?h name] => is_fix h;
       assert (HN : forall parts, incl (h parts) R -> ok (g parts) /\ forall s, g parts = RVal s -> wmatch (pieces_of a vi parts) s);
       [ let parts := fresh "parts" in let IHt := fresh "IHt" in let Hp := fresh "Hp" in
         intros parts; induction parts as [|[l|x] t IHt]; intros Hp; cbv beta iota zeta in Hp |- *;
         [ split; [exact I|intros s Hs; inversion Hs; reflexivity]
         | destruct (IHt Hp) as [Hok Hm]; split;
           [ apply ok_bind; [exact Hok|intros; exact I]
           | intros s Hs; destruct (g t) eqn:Eg; simpl in Hs; try discriminate; inversion Hs; subst; simpl;
             eexists; split; [reflexivity|apply Hm; reflexivity] ]
         | assert (Hp2 : incl (h t) R) by sub Hp; destruct (IHt Hp2) as [Hok Hm]; split;
           [ apply ok_bind; [apply (IHe n a x r); sub Hp|intros ? _]; apply ok_bind; [apply noneed_ok, str_of_noneed|intros ? _];
             apply ok_bind; [exact Hok|intros; exact I]
           | intros s Hs; destruct (eval c m x r) eqn:Ex; simpl in Hs; try discriminate;
             match type of Hs with context[str_of ?v] => destruct (str_of v) eqn:Es; simpl in Hs; try discriminate end;
             destruct (g t) eqn:Eg; simpl in Hs; try discriminate; inversion Hs; subst;
             change (pieces_of a vi (NExp x :: t)) with (piece_of a vi x :: pieces_of a vi t);
             apply wmatch_cons; [intros l0 Hl; eapply piece_lit; eauto|apply Hm; reflexivity] ] ]
       | ]
     end
  end.

Lemma sound m : (forall n a e r, incl (refs_e vi n a e) R -> ok (eval c m e r)) /\
                (forall n a l r, incl (refs_s vi n a l) R -> ok (exec c m l r)).
Proof.
  induction m as [|m [IHe IHx]]; [split; intros; exact I|].
  split.
  - intros n a e r Hi. destruct n as [|n]; [exfalso; apply clean, Hi; left; reflexivity|].
    destruct e; rewrite ?eval_block; rewrite ?refs_e_block in Hi; cbn [eval exec]; cbn [refs_e refs_s] in Hi.
    3: { (* ERead *)
      name_fact IHe n a m r.
      destruct (HN name ltac:(sub Hi)) as [Hok Hm]. apply ok_bind; [exact Hok|intros s Hs].
      unfold do_read. destruct k.
      - destruct (slookup _ _); [exact I|]. exists (Ref KLine (pieces_of a vi name)), s.
        split; [apply Hi; left; reflexivity|]. split; [reflexivity|]. split; [reflexivity|apply Hm, Hs].
      - destruct (slookup _ _); [exact I|]. exists (Ref KInput (pieces_of a vi name)), s.
        split; [apply Hi; left; reflexivity|]. split; [reflexivity|]. split; [reflexivity|apply Hm, Hs]. }
    all: repeat st IHe IHx.
  - intros n a l r Hi. destruct n as [|n]; [exfalso; apply clean, Hi; left; reflexivity|].
    destruct l as [|s rest]; [exact I|].
    rewrite refs_s_cons in Hi. rewrite exec_cons. destruct s; cbv beta iota zeta in Hi |- *.
    all: repeat st IHe IHx.
Qed.

Lemma typed_value_noneed t v : noneed (typed_value t v).
Proof.
  unfold typed_value. destruct (match v with PNone => true | PStr s => is_blank s | _ => false end); [exact I|].
  destruct t, v; try exact I. destruct (String.eqb e e0); exact I.
Qed.
End S.

(** every name a line can wait for was collected, with its literal skeleton, from a read node of the line;
    and an attribute error can only come from a node the analysis flagged (KAttrErr, which names_ok never accepts) *)
Definition waits_collected (c:ctx) (vi:list string) (fuel:nat) (l:line) : Prop :=
  match line_value c fuel l with
  | RNeedV n => covers c (line_refs vi l) KLine n
  | RNeedI n => covers c (line_refs vi l) KInput n
  | RCrash CAttr => exists rf, In rf (line_refs vi l) /\ r_kind rf = KAttrErr       (* an attribute error comes from a node the analysis flagged *)
  | RCrash CThreshold => exists rf fo, In rf (line_refs vi l) /\ r_kind rf = KThreshold fo   (* the assertion of Form.threshold: from a collected threshold reference *)
  | _ => True
  end.

Theorem waits_are_collected c vi fuel (l:line) :
  (forall q st, noneed (x_tax c q st)) -> ~ In exh (line_refs vi l) -> waits_collected c vi fuel l.
Proof.
  intros Ht Hc. unfold waits_collected, line_value.
  pose proof (proj2 (sound c vi (line_refs vi l) Hc Ht fuel) 200%nat [] (l_body l) [] (incl_refl _)) as H.
  destruct (exec c fuel (l_body l) []) as [sg| | | |]; simpl in *; try exact H.
  pose proof (typed_value_noneed (l_type l) (match snd sg with SigReturn v => v | _ => PNone end)) as Hn.
  destruct (typed_value _ _) as [| | | |cr]; simpl in *; try tauto. destruct cr; simpl in *; tauto.
Qed.

(* the analysis did not run out of its own fuel: decidable, checked per catalogue inside the kernel *)
Definition not_exh (r:ref) : bool :=
  match r_kind r, r_name r with
  | KAttrErr, [PcLit s] => negb (String.eqb s "<analysis fuel exhausted>")
  | _, _ => true
  end.
Lemma not_exh_sound refs : forallb not_exh refs = true -> ~ In exh refs.
Proof. intros H Hin. rewrite forallb_forall in H. specialize (H exh Hin). discriminate H. Qed.

Definition vi_of (d:decls) (f:form) : list string := match slookup (f_name f) d with Some fd => d_instances fd | None => [] end.
Definition catalogue_clean (cat:catalogue) (d:decls) : bool :=
  forallb (fun f => forallb (fun l => forallb not_exh (line_refs (vi_of d f) l)) (f_lines f)) cat.

Theorem catalogue_waits_collected cat d :
  catalogue_clean cat d = true ->
  forall f l, In f cat -> In l (f_lines f) ->
  forall c fuel, (forall q st, noneed (x_tax c q st)) -> waits_collected c (vi_of d f) fuel l.
Proof.
  intros H f l Hf Hl c fuel Ht. apply waits_are_collected; [exact Ht|]. apply not_exh_sound.
  unfold catalogue_clean in H. rewrite forallb_forall in H. specialize (H f Hf). rewrite forallb_forall in H. exact (H l Hl).
Qed.

Lemma tax_fn_noneed y cfg q st : noneed (tax_fn y cfg q st).
Proof. unfold tax_fn. destruct (status_index st); [destruct (figure_tax _ _ _)|]; exact I. Qed.

(* non-vacuity: a line that waits for v['a'] after reading the input f'{n}_x' for n = 3 *)
Example waits_example :
  let l := Line "t" (TFloat 2) true [SAssign "n" (EConst (PInt 3)); SReturn (EBin OAdd (ERead RI [NExp (EVar "n"); NLit "_x"]) (ERead RV [NLit "a"]))] in
  let c := Ctx [] "f" None [] [("f.3_x", PNum 1)] ["f"] (fun _ _ => RCrash COther) in
  line_value c 50 l = RNeedV "f.a" /\ waits_collected c [] 50 l.
Proof.
  intros l c. split; [vm_compute; reflexivity|].
  apply waits_are_collected; [intros; exact I|]. apply not_exh_sound. vm_compute. reflexivity.
Qed.

(* non-vacuity of the attribute-error clause: `self.not_implemented()` written on the form instead of the line *)
Example attr_example :
  let l := Line "t" (TFloat 2) true [SIf (ERead RI [NLit "g"]) [SExpr (EAttrErr "self.not_implemented")] []; SReturn (EConst (PNum 0))] in
  let c := Ctx [] "f" None [] [("f.g", PBool true)] ["f"] (fun _ _ => RCrash COther) in
  line_value c 50 l = RCrash CAttr /\ waits_collected c [] 50 l.
Proof.
  intros l c. split; [vm_compute; reflexivity|].
  apply waits_are_collected; [intros; exact I|]. apply not_exh_sound. vm_compute. reflexivity.
Qed.

(* non-vacuity of the threshold clause: a threshold name the form does not define (the assertion in Form.threshold) *)
Example threshold_example :
  let l := Line "t" (TFloat 2) true [SReturn (EThreshold None [NLit "nope"] None)] in
  let c := Ctx [Form "f" [] [l] []] "f" None [] [] ["f"] (fun _ _ => RCrash COther) in
  line_value c 50 l = RCrash CThreshold /\ waits_collected c [] 50 l.
Proof.
  intros l c. split; [vm_compute; reflexivity|].
  apply waits_are_collected; [intros; exact I|]. apply not_exh_sound. vm_compute. reflexivity.
Qed.
