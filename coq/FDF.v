(** C19 — the form-data file: [_create_fdf] (pdf_filler.py) and the PDF literal-string syntax (ISO 32000-1, 7.3.4.2).
    Strings are byte strings. *)
From Coq Require Import List Bool String Ascii Arith Lia.
Import ListNotations.
Open Scope string_scope.

Notation bs := ("\"%char).
Notation lp := ("("%char).
Notation rp := (")"%char).
Notation cr := ("013"%char).
Notation lf := ("010"%char).

(** * writer: PDFFiller._fdf_string *)
Definition esc (c:ascii) : string :=
  if Ascii.eqb c bs then String bs (String bs "")
  else if Ascii.eqb c lp then String bs (String lp "")
  else if Ascii.eqb c rp then String bs (String rp "")
  else if Ascii.eqb c cr then String bs "r"
  else String c "".
Fixpoint fdf_string (s:string) : string :=
  match s with EmptyString => "" | String c r => esc c ++ fdf_string r end.

Definition entry (kv:string * string) : string :=
  "<< /T (" ++ fdf_string (fst kv) ++ ") /V (" ++ fdf_string (snd kv) ++ ") >>".

(** * reader: literal string, starting just after the opening parenthesis *)
Definition octal (c:ascii) : bool := let n := nat_of_ascii c in ((48 <=? n) && (n <=? 55))%nat.
Definition oval (c:ascii) : nat := (nat_of_ascii c - 48)%nat.

(* returns the decoded bytes and the rest after the closing parenthesis; [depth] = open nested parentheses *)
Fixpoint lit (fuel:nat) (s:string) (depth:nat) (acc:string) : option (string * string) :=
  match fuel with
  | O => None
  | S n =>
    match s with
    | EmptyString => None
    | String c r =>
        if Ascii.eqb c bs then
          match r with
          | EmptyString => None
          | String d r2 =>
              if Ascii.eqb d "n" then lit n r2 depth (acc ++ String lf "")
              else if Ascii.eqb d "r" then lit n r2 depth (acc ++ String cr "")
              else if Ascii.eqb d "t" then lit n r2 depth (acc ++ String (ascii_of_nat 9) "")
              else if Ascii.eqb d "b" then lit n r2 depth (acc ++ String (ascii_of_nat 8) "")
              else if Ascii.eqb d "f" then lit n r2 depth (acc ++ String (ascii_of_nat 12) "")
              else if Ascii.eqb d lp || Ascii.eqb d rp || Ascii.eqb d bs then lit n r2 depth (acc ++ String d "")
              else if Ascii.eqb d lf then lit n r2 depth acc                                   (* line continuation *)
              else if Ascii.eqb d cr then
                     match r2 with String e r3 => if Ascii.eqb e lf then lit n r3 depth acc else lit n r2 depth acc
                                 | _ => lit n r2 depth acc end
              else if octal d then
                     match r2 with
                     | String e r3 =>
                         if octal e then
                           match r3 with
                           | String f r4 => if octal f then lit n r4 depth (acc ++ String (ascii_of_nat ((oval d * 64 + oval e * 8 + oval f) mod 256)%nat) "")
                                            else lit n r3 depth (acc ++ String (ascii_of_nat (oval d * 8 + oval e)%nat) "")
                           | _ => lit n r3 depth (acc ++ String (ascii_of_nat (oval d * 8 + oval e)%nat) "")
                           end
                         else lit n r2 depth (acc ++ String (ascii_of_nat (oval d)) "")
                     | _ => lit n r2 depth (acc ++ String (ascii_of_nat (oval d)) "")
                     end
              else lit n r2 depth (acc ++ String d "")            (* the backslash is ignored *)
          end
        else if Ascii.eqb c lp then lit n r (S depth) (acc ++ String c "")
        else if Ascii.eqb c rp then
               match depth with O => Some (acc, r) | S d' => lit n r d' (acc ++ String c "") end
        else if Ascii.eqb c cr then
               match r with String e r2 => if Ascii.eqb e lf then lit n r2 depth (acc ++ String lf "") else lit n r depth (acc ++ String lf "")
                          | _ => lit n r depth (acc ++ String lf "") end
        else lit n r depth (acc ++ String c "")
    end
  end.

Fixpoint strip_prefix (p s:string) : option string :=
  match p, s with
  | EmptyString, _ => Some s
  | String a p', String b s' => if Ascii.eqb a b then strip_prefix p' s' else None
  | _, _ => None
  end.

Definition read_entry (s:string) : option ((string * string) * string) :=
  match strip_prefix "<< /T (" s with
  | None => None
  | Some s1 =>
      match lit (S (String.length s1)) s1 0 "" with
      | None => None
      | Some (k, s2) =>
          match strip_prefix " /V (" s2 with
          | None => None
          | Some s3 =>
              match lit (S (String.length s3)) s3 0 "" with
              | None => None
              | Some (v, s4) => match strip_prefix " >>" s4 with Some s5 => Some ((k, v), s5) | None => None end
              end
          end
      end
  end.
