(** C14 - the float text round trip as a theorem about an executable model of binary64 rounding over exact rationals.

    A money line holds round(x, p), which CPython computes as float(<x written with p decimal places>): the double nearest to a
    p-place decimal k/10^p.  Writing it with to_string (f'{v:.{p}f}': the correctly rounded p-place decimal of the double) gives back
    the digits k as long as the doubles near k/10^p are closer together than 10^-p; reading those digits (float(text), then round(_, p))
    gives back the same double.  [dbl] is round-to-nearest-even to 53 significant bits (with the subnormal floor of the exponent);
    it is executed by vm_compute against CPython in the correspondence of the C14 check. *)
From Coq Require Import ZArith QArith Qabs Qround Lqa Lia.
From HV Require Import Forms Rounding.

Lemma rhe_err y : Qabs (inject_Z (rhe y) - y) <= 1#2.
Proof.
  unfold rhe. pose proof (Qfloor_le y) as L. pose proof (Qlt_floor y) as U.
  rewrite inject_Z_plus in U. change (inject_Z 1) with 1 in U.
  destruct (Qcompare (y - inject_Z (Qfloor y)) (1#2)) eqn:E.
  - apply Qeq_alt in E. destruct (Z.even (Qfloor y)).
    + apply Qabs_case; intros; lra.
    + rewrite inject_Z_plus. change (inject_Z 1) with 1. apply Qabs_case; intros; lra.
  - apply Qlt_alt in E. apply Qabs_case; intros; lra.
  - apply Qgt_alt in E. rewrite inject_Z_plus. change (inject_Z 1) with 1. apply Qabs_case; intros; lra.
Qed.

Lemma rhe_near y k : Qabs (y - inject_Z k) < 1#2 -> rhe y = k.
Proof.
  intros H. pose proof (rhe_err y) as E.
  apply Qabs_Qlt_condition in H. apply Qabs_Qle_condition in E. destruct H as [H1 H2]. destruct E as [E1 E2].
  assert (A : inject_Z (rhe y) < inject_Z (k + 1)) by (rewrite inject_Z_plus; change (inject_Z 1) with 1; lra).
  assert (B : inject_Z (k + -1) < inject_Z (rhe y)) by (rewrite inject_Z_plus; change (inject_Z (-1)) with (-(1)); lra).
  rewrite <- Zlt_Qlt in A, B. lia.
Qed.

Definition pow2 (e:Z) : Q := if (0 <=? e)%Z then inject_Z (2 ^ e) else 1 / inject_Z (2 ^ (- e)).

Lemma pow2_pos e : 0 < pow2 e.
Proof.
  unfold pow2. destruct (0 <=? e)%Z eqn:E.
  - apply Z.leb_le in E. change 0 with (inject_Z 0). rewrite <- Zlt_Qlt. apply Z.pow_pos_nonneg; lia.
  - apply Z.leb_gt in E. assert (P : 0 < inject_Z (2 ^ (- e))).
    { change 0 with (inject_Z 0). rewrite <- Zlt_Qlt. apply Z.pow_pos_nonneg; lia. }
    apply Qlt_shift_div_l; [exact P|]. lra.
Qed.

(* the binary exponent of x: the largest e <= 1023 with 2^e <= |x| (search downwards; exhausted below the subnormal range) *)
Fixpoint ilog2_from (fuel:nat) (e:Z) (x:Q) : Z :=
  match fuel with
  | O => e
  | S n => if Qle_bool (pow2 e) x then e else ilog2_from n (e - 1) x
  end.
(* the search starts just above the exponent estimated from the bit lengths of numerator and denominator (the true exponent is that
   estimate or one less), never above 1023 *)
Definition ilog2_start (x:Q) : Z := Z.min 1023 (Z.log2 (Z.abs (Qnum x)) - Z.log2 (Zpos (Qden x)) + 1).
Definition ilog2 (x:Q) : Z := ilog2_from (Z.to_nat 2100) (ilog2_start x) (Qabs x).
Definition ulp_exp (x:Q) : Z := Z.max (ilog2 x) (-1022) - 52.
Definition ulp (x:Q) : Q := pow2 (ulp_exp x).

(* round to nearest, ties to even, at that exponent *)
Definition dbl (x:Q) : Q := inject_Z (rhe (x / ulp x)) * ulp x.

Lemma dbl_err x : Qabs (dbl x - x) <= ulp x / 2.
Proof.
  unfold dbl. pose proof (pow2_pos (ulp_exp x)) as P. fold (ulp x) in P. set (u := ulp x) in *.
  pose proof (rhe_err (x / u)) as E.
  assert (X : inject_Z (rhe (x / u)) * u - x == (inject_Z (rhe (x / u)) - x / u) * u) by (field; lra).
  rewrite X, Qabs_Qmult, (Qabs_pos u) by lra.
  assert (Y : Qabs (inject_Z (rhe (x / u)) - x / u) * u <= (1 # 2) * u) by (apply Qmult_le_compat_r; [exact E|lra]).
  assert (Z : (1 # 2) * u == u / 2) by field. rewrite <- Z. exact Y.
Qed.

(** the text of a money value with p places, as the scaled integer whose digits are written (C14_money_rt covers the digits) *)
Definition to_text (p:Z) (v:Q) : Z := rhe (v * pow10 p).
Definition of_text (p:Z) (k:Z) : Q := dbl (inject_Z k / pow10 p).            (* float(text) *)
Definition pyround (p:Z) (v:Q) : Q := of_text p (to_text p v).               (* round(v, p): correctly rounded via the p-place decimal *)
Definition from_string (p:Z) (k:Z) : Q := pyround p (of_text p k).           (* FloatField.from_string *)

Theorem float_text_roundtrip p k : (0 <= p)%Z ->
  ulp (inject_Z k / pow10 p) < 1 / pow10 p ->
  let v := of_text p k in
  to_text p v = k /\ from_string p (to_text p v) == v.
Proof.
  intros Hp Hu v.
  assert (T : to_text p v = k).
  { unfold to_text, v, of_text. apply rhe_near.
    pose proof (pow10_pos p Hp) as P10. set (d := inject_Z k / pow10 p) in *.
    pose proof (dbl_err d) as E.
    assert (X : dbl d * pow10 p - inject_Z k == (dbl d - d) * pow10 p) by (unfold d; field; lra).
    rewrite X, Qabs_Qmult, (Qabs_pos (pow10 p)) by lra.
    assert (B : Qabs (dbl d - d) * pow10 p <= (ulp d / 2) * pow10 p) by (apply Qmult_le_compat_r; [exact E|lra]).
    assert (C : (ulp d / 2) * pow10 p < 1 # 2).
    { assert (ulp d * pow10 p < 1).
      { apply (Qmult_lt_r _ _ (pow10 p) P10) in Hu. assert (Z : 1 / pow10 p * pow10 p == 1) by (field; lra). rewrite Z in Hu. exact Hu. }
      assert (Z2 : ulp d / 2 * pow10 p == (1 # 2) * (ulp d * pow10 p)) by field. rewrite Z2. set (t := ulp d * pow10 p) in *. lra. }
    lra. }
  split; [exact T|]. unfold from_string, pyround. rewrite T. fold v. rewrite T. reflexivity.
Qed.

(** a sufficient condition for the guard: amounts below 2^46 (7.0e13) at two places, below 2^36 at five, below 2^53 at none *)
Lemma ilog2_from_le fuel : forall e x b, (forall e', (b < e')%Z -> x < pow2 e') -> (ilog2_from fuel e x <= Z.max b (e - Z.of_nat fuel))%Z \/ (ilog2_from fuel e x <= b)%Z.
Proof.
  induction fuel as [|n IH]; intros e x b H; cbn [ilog2_from].
  - left. lia.
  - destruct (Qle_bool (pow2 e) x) eqn:E.
    + apply Qle_bool_iff in E. right. destruct (Z_lt_le_dec b e) as [L|L]; [|exact L].
      specialize (H e L). lra.
    + destruct (IH (e - 1)%Z x b H) as [X|X]; [left; lia|right; exact X].
Qed.

Lemma pow2_mono a b : (a <= b)%Z -> pow2 a <= pow2 b.
Proof.
  intros L. assert (S : forall e, pow2 (e + 1) == 2 * pow2 e).
  { intros e. unfold pow2. destruct (0 <=? e)%Z eqn:E1; destruct (0 <=? e + 1)%Z eqn:E2;
      try apply Z.leb_le in E1; try apply Z.leb_le in E2; try apply Z.leb_gt in E1; try apply Z.leb_gt in E2; try lia.
    - rewrite Z.pow_add_r by lia. rewrite inject_Z_mult. change (inject_Z (2 ^ 1)) with 2. ring.
    - assert (e = -1)%Z by lia. subst. reflexivity.
    - replace (- e)%Z with (- (e + 1) + 1)%Z by lia. rewrite Z.pow_add_r by lia. rewrite inject_Z_mult. change (inject_Z (2 ^ 1)) with 2.
      assert (0 < inject_Z (2 ^ (- (e + 1)))) by (change 0 with (inject_Z 0); rewrite <- Zlt_Qlt; apply Z.pow_pos_nonneg; lia).
      field. lra. }
  replace b with (a + Z.of_nat (Z.to_nat (b - a)))%Z by lia. generalize (Z.to_nat (b - a)) as n. intros n.
  induction n as [|n IH]; [rewrite Z.add_0_r; lra|].
  rewrite Nat2Z.inj_succ. replace (a + Z.succ (Z.of_nat n))%Z with ((a + Z.of_nat n) + 1)%Z by lia. rewrite S.
  pose proof (pow2_pos (a + Z.of_nat n)). lra.
Qed.

Lemma ulp_small x b : (-1022 <= b)%Z -> Qabs x < pow2 (b + 1) -> ulp x <= pow2 (b - 52).
Proof.
  intros Hb H. unfold ulp, ulp_exp. apply pow2_mono.
  assert (I : (ilog2 x <= b)%Z).
  { unfold ilog2. assert (S : (ilog2_start x <= 1023)%Z) by (unfold ilog2_start; lia).
    destruct (ilog2_from_le (Z.to_nat 2100) (ilog2_start x) (Qabs x) b) as [X|X]; [|rewrite Z2Nat.id in X by lia; lia|exact X].
    intros e' L. pose proof (pow2_mono (b + 1) e' ltac:(lia)). lra. }
  lia.
Qed.

Corollary guard_two_places k : Qabs (inject_Z k / pow10 2) < pow2 46 -> ulp (inject_Z k / pow10 2) < 1 / pow10 2.
Proof.
  intros H. pose proof (ulp_small _ 45 ltac:(lia) H) as U. change (pow2 (45 - 52)) with (1 / inject_Z 128) in U.
  assert (1 / inject_Z 128 < 1 / pow10 2) by (vm_compute; reflexivity). lra.
Qed.
Corollary guard_five_places k : Qabs (inject_Z k / pow10 5) < pow2 36 -> ulp (inject_Z k / pow10 5) < 1 / pow10 5.
Proof.
  intros H. pose proof (ulp_small _ 35 ltac:(lia) H) as U. change (pow2 (35 - 52)) with (1 / inject_Z 131072) in U.
  assert (1 / inject_Z 131072 < 1 / pow10 5) by (vm_compute; reflexivity). lra.
Qed.
Corollary guard_whole_dollars k : Qabs (inject_Z k / pow10 0) < pow2 52 -> ulp (inject_Z k / pow10 0) < 1 / pow10 0.
Proof.
  intros H. pose proof (ulp_small _ 51 ltac:(lia) H) as U. change (pow2 (51 - 52)) with (1 / inject_Z 2) in U.
  assert (1 / inject_Z 2 < 1 / pow10 0) by (vm_compute; reflexivity). lra.
Qed.
