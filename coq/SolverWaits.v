(** C06 - bounded work, the part that is a theorem: a line never waits twice for the same line.
    Token invariant: every line occurs at most once among the lines pending an attempt, the queue and the waiters of the two
    trackers; hence a line is only attempted when it is registered nowhere, each attempt registers it at most once, and (with
    the tracker theorems: a registration is released once, and only after its dependency was met) the ghost list of all
    (waiter, line) registrations ever made has no duplicates. *)
From Coq Require Import ZArith NArith List Bool Lia Permutation.
From HV Require Import Solver TrackerProofs RunLemmas SolverInd SolverInv SolverThms SolverDem SolverPrompt.
Import ListNotations.

Arguments add_names : simpl never.
Arguments sort_rank : simpl never.
Arguments add_unmet : simpl never.
Arguments run : simpl never.
Arguments reads : simpl never.

Lemma run_needv_none p sp I S d : run p sp I S = ONeedV d -> alookup d S = None.
Proof.
  induction p as [v| |c|d0 k IH|i k IH]; intros H.
  - discriminate.
  - discriminate.
  - discriminate.
  - change (run (ReadV d0 k) sp I S) with (match alookup d0 S with Some v => run (k v) sp I S | None => ONeedV d0 end) in H.
    destruct (alookup d0 S) as [v|] eqn:E; [apply (IH v H)|]. inversion H; subst. exact E.
  - change (run (ReadI i k) sp I S) with
      (if negb (mem i sp) then ONeedSpec i
       else match alookup i I with None => ONeedI i | Some None => OInvalid i | Some (Some v) => run (k v) sp I S end) in H.
    destruct (negb (mem i sp)); [discriminate|].
    destruct (alookup i I) as [[v|]|]; try discriminate. apply (IH v H).
Qed.

Lemma nodup_app {A} (l l':list A) : NoDup l -> NoDup l' -> (forall x, In x l -> In x l' -> False) -> NoDup (l ++ l').
Proof.
  induction l as [|a l IH]; intros H1 H2 Hd; cbn [app]; [exact H2|].
  inversion H1; subst. constructor.
  - intros Hin. apply in_app_or in Hin as [Hin|Hin]; [contradiction|]. apply (Hd a); [left; reflexivity|exact Hin].
  - apply IH; try assumption. intros x Hx Hx'. apply (Hd x); [right; exact Hx|exact Hx'].
Qed.

Definition waiters (t:tracker) : list name := map snd (regs t).

Lemma waiters_add_unmet d w t : Permutation (waiters (add_unmet d w t)) (w :: waiters t).
Proof. unfold waiters. rewrite (add_unmet_regs d w t). reflexivity. Qed.
Lemma waiters_meet d t : waiters (meet d t) = waiters t.
Proof. reflexivity. Qed.

(** the control-flow induction of [SolverInd], with the pending list taken up to permutation *)
Section IndP.
Context (C:catalogue) (rank:name -> N) (ans:name -> option V).
Variables (P : list name -> state -> Prop) (Q : state -> Prop).
Hypothesis H_perm : forall pend pend' s, Permutation pend pend' -> P pend s -> P pend' s.
Hypothesis H_attempt : forall fuel f pend s s', P (f :: pend) s -> attempt_field C rank fuel f s = inl s' -> P pend s'.
Hypothesis H_pop : forall s q f, P [] s -> unatt s = q ++ [f] -> P [f] (with_unatt q s).
Hypothesis H_fdrain : forall s ws t', P [] s -> drain (fdep s) = (ws, t') -> P ws (set_fdep t' s).
Hypothesis H_prompt : forall s, P [] s -> refused s = false -> Q (prompt_all ans (sort_rank rank (unmet_dependencies (idep s))) s).
Hypothesis H_noprompt : forall s, P [] s -> refused s = true -> Q s.
Hypothesis H_idrain : forall s ws t', Q s -> drain (idep s) = (ws, t') -> P ws (set_idep t' s).

Lemma attempt_all_PP l : forall s s', P l s -> attempt_all C rank l s = inl s' -> P [] s'.
Proof.
  induction l as [|f l IH]; intros s s' HP H; cbn [attempt_all] in H.
  - inversion H; subst; exact HP.
  - destruct (attempt_field C rank retry_fuel f s) as [s1|e] eqn:E; [|discriminate].
    apply (IH s1 s'); [|exact H]. apply (H_attempt _ _ _ _ _ HP E).
Qed.
Lemma attempt_all_PP_err l : forall s e, P l s -> attempt_all C rank l s = inr e -> True.
Proof. auto. Qed.

Lemma drain_queue_PP fuel : forall s s', P [] s -> drain_queue C rank fuel s = inl s' -> P [] s'.
Proof.
  induction fuel as [|n IH]; intros s s' HP H; cbn [drain_queue] in H; [discriminate|].
  destruct (rev (unatt s)) as [|f rq] eqn:Er.
  - inversion H; subst. exact HP.
  - match type of H with match attempt_field _ _ _ _ ?s1 with _ => _ end = _ => set (s1' := s1) in * end.
    destruct (attempt_field C rank retry_fuel f s1') as [s2|e] eqn:E; [|discriminate].
    apply (IH s2 s'); [|exact H].
    refine (H_attempt _ _ [] s1' _ _ E).
    apply (H_pop s (rev rq) f HP).
    rewrite <- (rev_involutive (unatt s)), Er. reflexivity.
Qed.

(* every state the loop passes through at the top of an iteration satisfies P [] - including the one handed back by an abort *)
Theorem main_loop_PP fuel : forall s r,
  P [] s -> main_loop C rank fuel ans s = r ->
  match r with inl s' => P [] s' | inr (_, sx) => P [] sx \/ Q sx end.
Proof.
  induction fuel as [|n IH]; intros s r HP H; [cbn in H; subst r; left; exact HP|].
  cbn [main_loop] in H.
  destruct (loop_cond s) eqn:Ec; cbn [negb] in H.
  2:{ subst r. exact HP. }
  destruct (drain_queue C rank (S n) s) as [s1|e] eqn:E1; [|subst r; left; exact HP].
  pose proof (drain_queue_PP _ _ _ HP E1) as HP1.
  destruct (drain (fdep s1)) as [ws t1] eqn:Ed1.
  destruct (attempt_all C rank (sort_rank rank ws) (set_fdep t1 s1)) as [s2|e] eqn:E2; [|subst r; left; exact HP1].
  assert (HP2 : P [] s2).
  { refine (attempt_all_PP _ _ _ _ E2).
    apply (H_perm ws); [symmetry; apply sort_rank_perm|]. apply H_fdrain; assumption. }
  set (s3 := if refused s2 then s2 else prompt_all ans (sort_rank rank (unmet_dependencies (idep s2))) s2) in *.
  assert (HQ3 : Q s3).
  { unfold s3. destruct (refused s2) eqn:Er; [apply H_noprompt|apply H_prompt]; assumption. }
  destruct (drain (idep s3)) as [wi t2] eqn:Ed2.
  destruct (attempt_all C rank wi (set_idep t2 s3)) as [s4|e] eqn:E4; [|subst r; right; exact HQ3].
  apply (IH s4 r); [|exact H].
  refine (attempt_all_PP _ _ _ _ E4). apply H_idrain; assumption.
Qed.
End IndP.

Section W.
Context (C:catalogue) (rank:name -> N) (ans:name -> option V) (R:list name).

(* the lines a form declares are distinct (habutax refuses duplicate field names; C17 checks it for the shipped catalogue) *)
Definition cat_nodup : Prop := forall F fi, c_form C F = Some fi -> NoDup (f_required fi ++ f_optional fi).

Definition tokens (pend:list name) (s:state) : list name := pend ++ unatt s ++ waiters (fdep s) ++ waiters (idep s).

Record InvW (pend:list name) (s:state) : Prop := {
  w_nodup : NoDup (edges s);
  w_edge : forall f d, In (f, d) (edges s) -> In (d, f) (regs (fdep s)) \/ exists v, alookup d (vals s) = Some v;
  w_uniq : NoDup (tokens pend s);
  w_cover : forall F fi x, In F (forms s) -> c_form C F = Some fi -> In x (f_required fi ++ f_optional fi) -> In x (fmap s)
}.

Lemma W_perm pend pend' s : Permutation pend pend' -> InvW pend s -> InvW pend' s.
Proof.
  intros Hp []. constructor; try assumption.
  unfold tokens in *. rewrite <- Hp. exact w_uniq0.
Qed.

Lemma tokens_sol b pend s x : Inv C b pend s -> In x (tokens pend s) -> In x (solving s).
Proof.
  intros HI Hx. unfold tokens, waiters in Hx.
  apply in_app_or in Hx as [Hx|Hx]; [apply (i_pend_sol _ _ _ _ HI); exact Hx|].
  apply in_app_or in Hx as [Hx|Hx]; [apply (i_unatt_sol _ _ _ _ HI); exact Hx|].
  apply in_app_or in Hx as [Hx|Hx]; apply in_map_iff in Hx as ((d & w) & E & Hin); cbn in E; subst.
  - apply (i_fw_sol _ _ _ _ HI d x Hin).
  - apply (i_iw_sol _ _ _ _ HI d x Hin).
Qed.

(* a step that only queues new lines (and possibly adds a form) *)
Lemma W_same pend s s2 newq :
  edges s2 = edges s -> vals s2 = vals s -> fdep s2 = fdep s -> idep s2 = idep s ->
  Permutation (unatt s2) (unatt s ++ newq) -> NoDup newq -> (forall x, In x newq -> ~ In x (tokens pend s)) ->
  (forall F fi x, In F (forms s2) -> c_form C F = Some fi -> In x (f_required fi ++ f_optional fi) -> In x (fmap s2)) ->
  InvW pend s -> InvW pend s2.
Proof.
  intros Ee Ev Ef Ei Hu Hn Hd Hc []. constructor; rewrite ?Ee, ?Ev, ?Ef; try assumption.
  unfold tokens in *. rewrite Ef, Ei, Hu.
  assert (P : Permutation (pend ++ (unatt s ++ newq) ++ waiters (fdep s) ++ waiters (idep s))
                          ((pend ++ unatt s ++ waiters (fdep s) ++ waiters (idep s)) ++ newq)).
  { rewrite <- !app_assoc. apply Permutation_app_head. apply Permutation_app_head.
    rewrite (Permutation_app_comm newq). rewrite <- app_assoc. reflexivity. }
  rewrite P. apply nodup_app; try assumption.
  intros x Hx Hq. exact (Hd x Hq Hx).
Qed.

Lemma W_reg_line b f d pend s s' :
  Inv C b (f :: pend) s -> InvW (f :: pend) s -> alookup d (vals s) = None ->
  edges s' = (f, d) :: edges s -> vals s' = vals s -> fdep s' = add_unmet d f (fdep s) -> idep s' = idep s ->
  unatt s' = unatt s -> forms s' = forms s -> fmap s' = fmap s ->
  InvW pend s'.
Proof.
  intros HI [] Hnone Ee Ev Ef Ei Eu Efo Efm.
  assert (Hf : ~ In f (pend ++ unatt s ++ waiters (fdep s) ++ waiters (idep s))).
  { unfold tokens in w_uniq0. cbn [app] in w_uniq0. apply NoDup_cons_iff in w_uniq0. tauto. }
  constructor; rewrite ?Ee, ?Ev, ?Ef, ?Efo, ?Efm.
  - constructor; [|assumption]. intros Hin.
    destruct (w_edge0 f d Hin) as [Hr|(v & Hv)]; [|congruence].
    apply Hf. apply in_or_app. right. apply in_or_app. right. apply in_or_app. left.
    unfold waiters. apply in_map_iff. exists (d, f). auto.
  - intros g d0 [E|Hin].
    + inversion E; subst. left. apply (Permutation_in _ (Permutation_sym (add_unmet_regs d0 g (fdep s)))). left. reflexivity.
    + destruct (w_edge0 g d0 Hin) as [Hr|Hv]; [left|right; exact Hv].
      apply (Permutation_in _ (Permutation_sym (add_unmet_regs d f (fdep s)))). right. exact Hr.
  - unfold tokens in *. rewrite Ef, Ei, Eu. rewrite (waiters_add_unmet d f (fdep s)).
    cbn [app] in w_uniq0.
    assert (P : Permutation (pend ++ unatt s ++ (f :: waiters (fdep s)) ++ waiters (idep s))
                            (f :: pend ++ unatt s ++ waiters (fdep s) ++ waiters (idep s))).
    { replace (pend ++ unatt s ++ (f :: waiters (fdep s)) ++ waiters (idep s))
        with ((pend ++ unatt s) ++ f :: (waiters (fdep s) ++ waiters (idep s))) by (rewrite <- app_assoc; reflexivity).
      replace (f :: pend ++ unatt s ++ waiters (fdep s) ++ waiters (idep s))
        with (f :: (pend ++ unatt s) ++ (waiters (fdep s) ++ waiters (idep s))) by (rewrite <- app_assoc; reflexivity).
      symmetry. apply Permutation_middle. }
    rewrite P. exact w_uniq0.
  - assumption.
Qed.

Lemma W_reg_input f i pend s s' :
  InvW (f :: pend) s ->
  edges s' = edges s -> vals s' = vals s -> fdep s' = fdep s -> idep s' = add_unmet i f (idep s) ->
  unatt s' = unatt s -> forms s' = forms s -> fmap s' = fmap s ->
  InvW pend s'.
Proof.
  intros [] Ee Ev Ef Ei Eu Efo Efm.
  constructor; rewrite ?Ee, ?Ev, ?Ef, ?Efo, ?Efm; try assumption.
  unfold tokens in *. rewrite Ef, Ei, Eu. rewrite (waiters_add_unmet i f (idep s)).
  cbn [app] in w_uniq0.
  assert (P : Permutation (pend ++ unatt s ++ waiters (fdep s) ++ f :: waiters (idep s))
                          (f :: pend ++ unatt s ++ waiters (fdep s) ++ waiters (idep s))).
  { replace (pend ++ unatt s ++ waiters (fdep s) ++ f :: waiters (idep s))
      with ((pend ++ unatt s ++ waiters (fdep s)) ++ f :: waiters (idep s)) by (rewrite <- !app_assoc; reflexivity).
    replace (f :: pend ++ unatt s ++ waiters (fdep s) ++ waiters (idep s))
      with (f :: (pend ++ unatt s ++ waiters (fdep s)) ++ waiters (idep s)) by (rewrite <- !app_assoc; reflexivity).
    symmetry. apply Permutation_middle. }
  rewrite P. exact w_uniq0.
Qed.

(* a step that takes [f] out of the pending list and changes nothing the invariant looks at, except that values may be added *)
Lemma W_done f pend s s' :
  InvW (f :: pend) s ->
  edges s' = edges s -> (forall d v, alookup d (vals s) = Some v -> exists v', alookup d (vals s') = Some v') ->
  regs (fdep s') = regs (fdep s) -> idep s' = idep s -> unatt s' = unatt s -> forms s' = forms s -> fmap s' = fmap s ->
  InvW pend s'.
Proof.
  intros [] Ee Hv Ef Ei Eu Efo Efm.
  constructor; rewrite ?Ee, ?Efo, ?Efm; try assumption.
  - intros g d Hin. destruct (w_edge0 g d Hin) as [Hr|(v & Hvv)]; [left; rewrite Ef; exact Hr|right; eapply Hv; eassumption].
  - unfold tokens, waiters in *. rewrite Ef, Ei, Eu. cbn [app] in w_uniq0. apply NoDup_cons_iff in w_uniq0. tauto.
Qed.

Ltac proj_simpl := cbn [inp specs forms fmap vals unatt unimpl solving fdep idep refused trace edges met unmet].

Lemma W_log pend s e : InvW pend s -> InvW pend (log e s).
Proof. intros []. constructor; cbn; assumption. Qed.

Lemma in_waiters_f d f t : In (d, f) (regs t) -> In f (waiters t).
Proof. intros H. unfold waiters. apply in_map_iff. exists (d, f). auto. Qed.

(* a new form's required lines are nowhere yet *)
Lemma new_form_lines_fresh b pend s F fi d x :
  cat_wf C -> Inv C b pend s -> Inv2 C R [] s -> InvW pend s ->
  c_form C F = Some fi -> c_form_of_line C d = F ->
  In d (f_required fi ++ f_optional fi) -> ~ In d (fmap s) ->
  In x (f_required fi ++ f_optional fi) -> ~ In x (fmap s).
Proof.
  intros Hwf HI HJ HW Hfi HdF Hd Hnd Hx Hin.
  apply Hnd. apply (w_cover _ _ HW F fi d); [|exact Hfi|exact Hd].
  pose proof (j_fmap_form _ _ _ _ HJ x Hin) as Hform.
  rewrite (Hwf F fi x Hfi Hx) in Hform. exact Hform.
Qed.


Lemma nodup_app_l {A} (l l':list A) : NoDup (l ++ l') -> NoDup l.
Proof.
  induction l as [|a l IH]; intros H; [constructor|]. cbn [app] in H. inversion H; subst.
  constructor; [intros Hin; apply H2; apply in_or_app; left; exact Hin|apply IH; assumption].
Qed.

Lemma add_form_unatt F s s' fi : add_form C rank F false s = inl s' -> c_form C F = Some fi ->
  unatt s' = sort_rank rank (unatt s ++ f_required fi).
Proof.
  unfold add_form. intros H Hfi. rewrite Hfi in H. inversion H; subst. unfold add_unattempted. reflexivity.
Qed.

(* scheduling one more line on demand keeps the core invariant *)
Lemma Inv_schedule b pend s d : Inv C b pend s ->
  Inv C b pend (State (inp s) (specs s) (forms s) (fmap s) (vals s) (sort_rank rank (unatt s ++ [d])) (unimpl s)
                      (add_names [d] (solving s)) (fdep s) (idep s) (refused s) (trace s) (edges s)).
Proof.
  intros HI. destruct HI. constructor; unfold srun in *; proj_simpl; try assumption.
  - intros g Hg. apply sort_rank_in in Hg. apply in_app_or in Hg as [Hg|[<-|[]]]; apply add_names_in; [right; auto|left; left; reflexivity].
  - intros g Hg. apply add_names_in. right. auto.
  - intros d0 g Hg. destruct (i_fw_sol d0 g Hg). split; apply add_names_in; right; assumption.
  - intros i0 g Hg. apply add_names_in. right. eauto.
  - intros g v0 Hg. apply add_names_in. right. eauto.
  - intros g Hg. apply add_names_in. right. eauto.
  - intros g Hg. apply add_names_in in Hg as [[<-|[]]|Hg].
    + left. apply sort_rank_in. apply in_or_app. right. left. reflexivity.
    + destruct (i_part g Hg) as [X|X]; [left; apply sort_rank_in; apply in_or_app; left; exact X|right; exact X].
Qed.

Lemma W_attempt b fuel : cat_wf C -> cat_nodup -> forall f pend s s',
  Inv C b (f :: pend) s -> Inv2 C R [] s -> InvW (f :: pend) s -> attempt_field C rank fuel f s = inl s' -> InvW pend s'.
Proof.
  intros Hwf Hnd. induction fuel as [|n IH]; intros f pend s s' HI HJ HW H; [discriminate|].
  cbn [attempt_field] in H.
  apply (Inv_log _ _ _ _ (EvAttempt f)) in HI. apply (Inv2_log _ _ _ _ (EvAttempt f)) in HJ. apply (W_log _ _ (EvAttempt f)) in HW.
  set (s0 := log (EvAttempt f) s) in *. clearbody s0.
  destruct (run (c_body C f) (specs s0) (inp s0) (vals s0)) as [v|d|i|i|i| |c] eqn:Er; try discriminate.
  - (* a value *)
    inversion H; subst s'; clear H.
    apply (W_done f pend s0); proj_simpl; try reflexivity; [exact HW|].
    intros d v0 Hv. destruct (N.eq_dec f d) as [->|Hne].
    + exists v. apply alookup_aset_eq.
    + exists v0. rewrite alookup_aset_neq; assumption.
  - (* blocked on line d *)
    pose proof (run_needv_none _ _ _ _ _ Er) as Hnone.
    match type of H with match ?r with _ => _ end = _ => destruct r as [s3|e] eqn:Es3; [|discriminate] end.
    inversion H; subst s'; clear H.
    assert (Hs3 : Inv C b (f :: pend) s3 /\ InvW (f :: pend) s3 /\ vals s3 = vals s0).
    { destruct (mem d (solving s0)) eqn:Em.
      { inversion Es3; subst s3. auto. }
      apply mem_false in Em.
      match type of Es3 with match ?r1 with _ => _ end = _ => destruct r1 as [s1|e] eqn:Es1; [|discriminate] end.
      destruct (mem d (fmap s1)) eqn:Emf; [|discriminate]. apply mem_in in Emf.
      destruct (mem d (fmap s0)) eqn:Em0.
      - (* the form of d is known: d is an optional line scheduled on demand *)
        inversion Es1; subst s1; clear Es1.
        destruct (mem d (solving s0)) eqn:Ems; [apply mem_in in Ems; contradiction|].
        inversion Es3; subst s3; clear Es3.
        split; [|split; [|reflexivity]].
        + unfold add_unattempted; proj_simpl. apply Inv_schedule. exact HI.
        + apply (W_same (f :: pend) s0 _ [d]); unfold add_unattempted; proj_simpl; try reflexivity; try exact HW.
          * apply sort_rank_perm.
          * constructor; [intros []|constructor].
          * intros x [<-|[]] Hx. apply Em. eapply tokens_sol; eassumption.
          * exact (w_cover _ _ HW).
      - (* first reference into a new form *)
        apply mem_false in Em0.
        destruct (add_form_spec C rank ans _ _ _ _ Es1) as (fi & Hfi & Ei & Ev & Eu & Ef & Eid & _ & _ & Ee & Hsp & Hf & Hm & Hu & Hs).
        assert (HI1 : Inv C b (f :: pend) s1) by (eapply Inv_add_form; eassumption).
        assert (Hdl : In d (f_required fi ++ f_optional fi)).
        { apply Hm in Emf as [X|X]; [apply in_or_app; exact X|contradiction]. }
        assert (Hfresh : forall x, In x (f_required fi) -> ~ In x (tokens (f :: pend) s0)).
        { intros x Hx Ht.
          apply (new_form_lines_fresh b (f :: pend) s0 (c_form_of_line C d) fi d x Hwf HI HJ HW Hfi eq_refl Hdl Em0).
          - apply in_or_app. left. exact Hx.
          - apply (j_sol_fmap _ _ _ _ HJ). eapply tokens_sol; eassumption. }
        assert (HW1 : InvW (f :: pend) s1).
        { apply (W_same (f :: pend) s0 s1 (f_required fi)); try assumption.
          - rewrite (add_form_unatt _ _ _ _ Es1 Hfi). apply sort_rank_perm.
          - pose proof (Hnd _ _ Hfi) as N. apply nodup_app_l in N. exact N.
          - intros F0 fi0 x HF0 Hc0 Hx0. apply Hm. apply Hf in HF0 as [->|HF0].
            + rewrite Hfi in Hc0. inversion Hc0; subst. left. apply in_app_or. exact Hx0.
            + right. eapply (w_cover _ _ HW); eassumption. }
        destruct (mem d (solving s1)) eqn:Ems1.
        + inversion Es3; subst s3. split; [exact HI1|split; [exact HW1|exact Ev]].
        + apply mem_false in Ems1. inversion Es3; subst s3; clear Es3.
          split; [|split; [|exact Ev]].
          * unfold add_unattempted; proj_simpl. apply Inv_schedule. exact HI1.
          * apply (W_same (f :: pend) s1 _ [d]); unfold add_unattempted; proj_simpl; try reflexivity; try exact HW1.
            -- apply sort_rank_perm.
            -- constructor; [intros []|constructor].
            -- intros x [<-|[]] Hx. apply Ems1. eapply tokens_sol; eassumption.
            -- exact (w_cover _ _ HW1). }
    destruct Hs3 as (HI3 & HW3 & Ev3).
    apply (W_reg_line b f d pend s3); proj_simpl; try reflexivity; try assumption.
    rewrite Ev3. exact Hnone.
  - (* blocked on input i *)
    inversion H; subst s'; clear H.
    apply (W_reg_input f i pend s0); proj_simpl; try reflexivity. exact HW.
  - (* load the specifications of the input's form, retry *)
    destruct (add_form C rank (c_form_of_input C i) true s0) as [s1|e] eqn:Es1; [|discriminate].
    destruct (mem i (specs s1)); [|discriminate].
    destruct (add_form_spec C rank ans _ _ _ _ Es1) as (fi & _ & Ei & Ev & Eu & Ef & Eid & _ & _ & Ee & Hsp & (Efo & Efm & Eun & Eso)).
    apply (IH f pend s1 s'); [eapply Inv_add_form; eassumption| | |exact H].
    + apply (Inv2_ext_same C R [] s0); auto. eapply add_form_ext; eassumption.
    + apply (W_same (f :: pend) s0 s1 []); try assumption.
      * rewrite Eun, app_nil_r. reflexivity.
      * constructor.
      * intros x [].
      * rewrite Efo, Efm. exact (w_cover _ _ HW).
  - (* not implemented *)
    inversion H; subst s'; clear H.
    apply (W_done f pend s0); proj_simpl; try reflexivity; [exact HW|].
    intros d v0 Hv. exists v0. exact Hv.
Qed.

Lemma W_pop s q f : InvW [] s -> unatt s = q ++ [f] -> InvW [f] (with_unatt q s).
Proof.
  intros [] Hu. constructor; unfold with_unatt; proj_simpl; try assumption.
  unfold tokens in *. proj_simpl. rewrite Hu in w_uniq0. cbn [app] in *.
  assert (P : Permutation (f :: q ++ waiters (fdep s) ++ waiters (idep s)) ((q ++ [f]) ++ waiters (fdep s) ++ waiters (idep s))).
  { rewrite <- app_assoc. cbn [app]. apply Permutation_middle. }
  rewrite P. exact w_uniq0.
Qed.

Lemma W_fdrain s ws t' : Inv C true [] s -> InvW [] s -> drain (fdep s) = (ws, t') -> InvW ws (set_fdep t' s).
Proof.
  intros HI [] Hd.
  destruct (drain_complete _ _ _ (i_fwf _ _ _ _ HI) Hd) as (Hm & Hwf & ys & -> & Hp & Hy & Hleft).
  constructor; unfold set_fdep; proj_simpl; try assumption.
  - intros g d Hin. destruct (w_edge0 g d Hin) as [Hr|Hv]; [|right; exact Hv].
    apply (Permutation_in _ Hp) in Hr. apply in_app_or in Hr as [Hr|Hr]; [right|left; exact Hr].
    apply (i_fmet _ _ _ _ HI d). apply (Hy d g Hr).
  - unfold tokens in *. proj_simpl. cbn [app] in w_uniq0.
    assert (Pw : Permutation (waiters (fdep s)) (map snd ys ++ waiters t')).
    { unfold waiters. rewrite Hp, map_app. reflexivity. }
    rewrite Pw in w_uniq0.
    assert (P : Permutation (map snd ys ++ unatt s ++ waiters t' ++ waiters (idep s))
                            (unatt s ++ (map snd ys ++ waiters t') ++ waiters (idep s))).
    { rewrite <- (app_assoc (map snd ys)). rewrite !app_assoc. apply Permutation_app_tail. apply Permutation_app_tail.
      apply Permutation_app_comm. }
    rewrite P. exact w_uniq0.
Qed.

Lemma W_idrain b s ws t' : Inv C b [] s -> InvW [] s -> drain (idep s) = (ws, t') -> InvW ws (set_idep t' s).
Proof.
  intros HI [] Hd.
  destruct (drain_complete _ _ _ (i_iwf _ _ _ _ HI) Hd) as (Hm & Hwf & ys & -> & Hp & Hy & Hleft).
  constructor; unfold set_idep; proj_simpl; try assumption.
  unfold tokens in *. proj_simpl. cbn [app] in w_uniq0.
  assert (Pw : Permutation (waiters (idep s)) (map snd ys ++ waiters t')).
  { unfold waiters. rewrite Hp, map_app. reflexivity. }
  rewrite Pw in w_uniq0.
  assert (P : Permutation (map snd ys ++ unatt s ++ waiters (fdep s) ++ waiters t')
                          (unatt s ++ waiters (fdep s) ++ map snd ys ++ waiters t')).
  { rewrite !app_assoc. apply Permutation_app_tail. rewrite <- app_assoc. apply Permutation_app_comm. }
  rewrite P. exact w_uniq0.
Qed.

Lemma prompt_all_idep_regs l : forall s, regs (idep (prompt_all ans l s)) = regs (idep s).
Proof.
  induction l as [|i l IH]; intros s; cbn [prompt_all]; [reflexivity|].
  destruct (ans i) as [v|]; [|reflexivity]. rewrite IH. reflexivity.
Qed.

Lemma W_prompt_all l s : InvW [] s -> InvW [] (prompt_all ans l s).
Proof.
  intros []. destruct (prompt_all_same ans l s) as (_ & Ev & Efo & Efm & _ & Ee & Eu & _ & Ef).
  constructor; rewrite ?Ee, ?Ev, ?Ef, ?Efo, ?Efm; try assumption.
  unfold tokens, waiters in *. rewrite Eu, Ef, prompt_all_idep_regs. exact w_uniq0.
Qed.

Definition PW (pend:list name) (s:state) : Prop := Inv C true pend s /\ Inv2 C R [] s /\ InvW pend s.
Definition QW (s:state) : Prop := Inv C false [] s /\ Inv2 C R [] s /\ InvW [] s.

Theorem main_loop_W fuel s r : cat_wf C -> cat_nodup ->
  PW [] s -> main_loop C rank fuel ans s = r ->
  match r with inl s' => PW [] s' | inr (_, sx) => PW [] sx \/ QW sx end.
Proof.
  intros Hwf Hnd. apply (main_loop_PP C rank ans PW QW); unfold PW, QW.
  - intros pend pend' s0 Hp (A & B & D). split; [|split; [exact B|eapply W_perm; eassumption]].
    eapply Inv_perm; [|exact A]. intros x. split; intros Hx; [apply (Permutation_in _ Hp Hx)|apply (Permutation_in _ (Permutation_sym Hp) Hx)].
  - intros fu f pend s0 s1 (A & B & D) H.
    split; [eapply Inv_attempt; eassumption|split; [eapply (Inv2_attempt C rank ans R []); eassumption|eapply W_attempt; eassumption]].
  - intros s0 q f (A & B & D) Hu. split; [apply Inv_pop; assumption|split; [destruct B; constructor; assumption|apply W_pop; assumption]].
  - intros s0 ws t' (A & B & D) Hd. split; [apply Inv_fdrain; assumption|split; [destruct B; constructor; assumption|apply W_fdrain; assumption]].
  - intros s0 (A & B & D) Hr. split; [apply Inv_prompt; assumption|split; [|apply W_prompt_all; exact D]].
    pose proof (i_iwf _ _ _ _ A) as [ND _]. pose proof (i_strict _ _ _ _ A eq_refl) as Hm.
    set (l := sort_rank rank (unmet_dependencies (idep s0))).
    destruct (prompt_all_same ans l s0) as (A1 & A2 & A3 & A4 & A5 & A6 & _).
    apply (Inv2_ext_same C R [] s0); auto.
    apply (prompt_all_ext C rank ans).
    + apply Inv_noprompt. exact A.
    + apply (Permutation_NoDup (Permutation_sym (sort_rank_perm rank _))). exact ND.
    + intros i Hi. apply sort_rank_in in Hi. split; [exact Hi|]. rewrite Hm. tauto.
  - intros s0 (A & B & D) Hr. split; [apply Inv_noprompt; assumption|split; assumption].
  - intros s0 ws t' (A & B & D) Hd. split; [apply Inv_idrain; assumption|split; [destruct B; constructor; assumption|eapply W_idrain; eassumption]].
Qed.

Lemma W_init I hp : InvW [] (init_state I hp).
Proof. constructor; cbn; try constructor; intros; contradiction. Qed.

Lemma W_add_form_new b F s s' : cat_wf C -> cat_nodup ->
  Inv C b [] s -> Inv2 C R [] s -> InvW [] s -> ~ In F (forms s) -> add_form C rank F false s = inl s' -> InvW [] s'.
Proof.
  intros Hwf Hnd HI HJ HW HF E.
  destruct (add_form_spec C rank ans _ _ _ _ E) as (fi & Hfi & Ei & Ev & Eu & Ef & Eid & _ & _ & Ee & Hsp & Hf & Hm & Hu & Hs).
  apply (W_same [] s s' (f_required fi)); try assumption.
  - rewrite (add_form_unatt _ _ _ _ E Hfi). apply sort_rank_perm.
  - pose proof (Hnd _ _ Hfi) as N. apply nodup_app_l in N. exact N.
  - intros x Hx Ht. apply HF.
    assert (Hxm : In x (fmap s)) by (apply (j_sol_fmap _ _ _ _ HJ); eapply tokens_sol; eassumption).
    pose proof (j_fmap_form _ _ _ _ HJ x Hxm) as Hform.
    rewrite (Hwf F fi x Hfi (in_or_app _ _ _ (or_introl Hx))) in Hform. exact Hform.
  - intros F0 fi0 x HF0 Hc0 Hx0. apply Hm. apply Hf in HF0 as [->|HF0].
    + rewrite Hfi in Hc0. inversion Hc0; subst. left. apply in_app_or. exact Hx0.
    + right. eapply (w_cover _ _ HW); eassumption.
Qed.

Lemma W_add_forms l : cat_wf C -> cat_nodup -> (forall F, In F l -> In F R) -> NoDup l -> forall s s',
  Inv C true [] s -> Inv2 C R [] s -> InvW [] s -> (forall F, In F l -> ~ In F (forms s)) ->
  add_forms C rank l s = inl s' -> InvW [] s'.
Proof.
  intros Hwf Hnd. induction l as [|F l IH]; intros Hl ND s s' HI HJ HW Hnew H; cbn [add_forms] in H.
  - inversion H; subst. exact HW.
  - destruct (add_form C rank F false s) as [s1|e] eqn:E; [|discriminate].
    inversion ND as [|? ? HnF ND']; subst.
    apply (IH (fun F0 H0 => Hl F0 (or_intror H0)) ND' s1 s'); try exact H.
    + eapply Inv_add_form; eassumption.
    + eapply (Inv2_add_form_req C rank ans R []); eauto. apply Hl. left. reflexivity.
    + eapply W_add_form_new; try eassumption. apply Hnew. left. reflexivity.
    + intros F0 HF0 Hin.
      destruct (add_form_spec C rank ans _ _ _ _ E) as (fi & _ & _ & _ & _ & _ & _ & _ & _ & _ & _ & Hf & _).
      apply Hf in Hin as [->|Hin]; [contradiction|]. exact (Hnew F0 (or_intror HF0) Hin).
Qed.

(** C06: in every run - finished, failed, aborted, or out of fuel - no line waited twice for the same line *)
Theorem no_repeated_wait fuel I hp r : cat_wf C -> cat_nodup -> NoDup R ->
  solve C rank fuel R [] I hp ans = r -> NoDup (edges (result_state r)).
Proof.
  intros Hwf Hnd ND H. unfold solve in H.
  destruct (add_forms C rank R (init_state I hp)) as [s0|e] eqn:E0.
  2:{ subst r. cbn. constructor. }
  cbn [add_fields] in H.
  assert (HW0 : InvW [] s0).
  { apply (W_add_forms R Hwf Hnd (fun F HF => HF) ND (init_state I hp) s0); try assumption.
    - apply (Inv_init C rank ans).
    - apply Inv2_init.
    - apply W_init.
    - intros F _ []. }
  pose proof (start_Inv C rank ans R [] I hp s0 s0 E0 eq_refl) as HI.
  destruct (start_Inv2 C rank ans R [] I hp s0 s0 Hwf E0 eq_refl) as (HJ & _ & _).
  assert (HWs : InvW [] (start_state [] s0)).
  { destruct HW0. constructor; unfold start_state; cbn; assumption. }
  match type of H with main_loop _ _ _ _ ?st = _ => change st with (start_state [] s0) in H end.
  pose proof (main_loop_W fuel (start_state [] s0) r Hwf Hnd (conj HI (conj HJ HWs)) H) as X.
  destruct r as [s'|[e sx]]; cbn [result_state].
  - destruct X as (_ & _ & W). exact (w_nodup _ _ W).
  - destruct X as [(_ & _ & W)|(_ & _ & W)]; exact (w_nodup _ _ W).
Qed.

(** ... and at the end of every run each line is in at most one place: queued, or waiting under one dependency *)
Theorem tokens_unique fuel I hp r : cat_wf C -> cat_nodup -> NoDup R ->
  solve C rank fuel R [] I hp ans = r ->
  let s := result_state r in NoDup (unatt s ++ waiters (fdep s) ++ waiters (idep s)).
Proof.
  intros Hwf Hnd ND H. unfold solve in H.
  destruct (add_forms C rank R (init_state I hp)) as [s0|e] eqn:E0.
  2:{ subst r. cbn. constructor. }
  cbn [add_fields] in H.
  assert (HW0 : InvW [] s0).
  { apply (W_add_forms R Hwf Hnd (fun F HF => HF) ND (init_state I hp) s0); try assumption.
    - apply (Inv_init C rank ans).
    - apply Inv2_init.
    - apply W_init.
    - intros F _ []. }
  pose proof (start_Inv C rank ans R [] I hp s0 s0 E0 eq_refl) as HI.
  destruct (start_Inv2 C rank ans R [] I hp s0 s0 Hwf E0 eq_refl) as (HJ & _ & _).
  assert (HWs : InvW [] (start_state [] s0)).
  { destruct HW0. constructor; unfold start_state; cbn; assumption. }
  match type of H with main_loop _ _ _ _ ?st = _ => change st with (start_state [] s0) in H end.
  pose proof (main_loop_W fuel (start_state [] s0) r Hwf Hnd (conj HI (conj HJ HWs)) H) as X.
  destruct r as [s'|[e sx]]; cbn [result_state].
  - destruct X as (_ & _ & W). exact (w_uniq _ _ W).
  - destruct X as [(_ & _ & W)|(_ & _ & W)]; exact (w_uniq _ _ W).
Qed.
End W.
