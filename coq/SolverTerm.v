(** C06 - termination as a theorem.

    For a catalogue whose lines, inputs and forms lie in finite lists UL, UI, UF:
      (1) [trace_bounded]  every state the solver passes through has logged at most  BOUND  events (attempts + prompts), where
            BOUND = |UL|*(1+|UI|) + |UL|*|UL| + |UL|*|UI| + |UI|
          (sum of the per-line bound of SolverCount over the lines being solved, with |edges| <= |UL|^2, |specs| <= |UI|,
           at most |UI| prompts, each naming at most |UL| lines);
      (2) every pop of the queue and every pass of the main loop makes progress (logs an event, or is the single pass that only clears
          the list of met dependencies), and a retry inside one attempt loads the input specifications of a new form;
      (3) [solve_terminates]  hence with  fuel > 2*BOUND + 1  (and fewer forms than the retry limit) the model never runs out of fuel. *)
From Coq Require Import ZArith NArith List Bool Lia Permutation.
From HV Require Import Solver TrackerProofs RunLemmas SolverInd SolverInv SolverThms SolverDem SolverPrompt SolverWaits SolverCount.
Import ListNotations.

Arguments add_names : simpl never.
Arguments sort_rank : simpl never.
Arguments add_unmet : simpl never.
Arguments run : simpl never.
Arguments reads : simpl never.
Arguments ireads : simpl never.

Ltac proj_simpl := cbn [inp specs forms fmap vals unatt unimpl solving fdep idep refused trace edges met unmet].

(** * sums of counts *)
Fixpoint sumf (g:name -> nat) (U:list name) : nat := match U with [] => 0 | x :: r => g x + sumf g r end.

Lemma sumf_le g h U : (forall x, In x U -> g x <= h x) -> sumf g U <= sumf h U.
Proof.
  induction U as [|x U IH]; intros H; cbn; [lia|].
  pose proof (H x (or_introl eq_refl)). assert (sumf g U <= sumf h U) by (apply IH; intros; apply H; right; assumption). lia.
Qed.
Lemma sumf_add g h U : sumf (fun x => g x + h x) U = sumf g U + sumf h U.
Proof. induction U as [|x U IH]; cbn; [reflexivity|]. rewrite IH. lia. Qed.
Lemma sumf_const c U : sumf (fun _ => c) U = length U * c.
Proof. induction U as [|x U IH]; cbn; [reflexivity|]. rewrite IH. lia. Qed.

Lemma sumf_cons_notin x l U : ~ In x U -> sumf (fun f => cnt f (x :: l)) U = sumf (fun f => cnt f l) U.
Proof.
  induction U as [|y U IH]; intros Hn; cbn [sumf]; [reflexivity|].
  rewrite cnt_cons_neq by (intros ->; apply Hn; left; reflexivity).
  rewrite IH; [reflexivity|]. intros H; apply Hn; right; exact H.
Qed.

(* the counts of a list over a duplicate-free universe add up to at most its length; to exactly its length when it lies inside *)
Lemma sum_cnt_le l : forall U, NoDup U -> sumf (fun f => cnt f l) U <= length l.
Proof.
  induction l as [|a l IH]; intros U ND.
  - induction U as [|x U IHU]; cbn; [lia|]. inversion ND; subst. specialize (IHU H2). unfold cnt in *. cbn in *. lia.
  - assert (E : sumf (fun f => cnt f (a :: l)) U <= 1 + sumf (fun f => cnt f l) U).
    { clear IH. induction U as [|x U IHU]; cbn [sumf]; [lia|]. inversion ND as [|? ? Hn ND']; subst.
      destruct (N.eq_dec a x) as [->|Hne].
      - rewrite cnt_cons_eq.
        pose proof (sumf_cons_notin x l U Hn) as Z.
        lia.
      - rewrite (cnt_cons_neq x a) by assumption. specialize (IHU ND'). lia. }
    specialize (IH U ND). cbn [length]. lia.
Qed.

Lemma sum_cnt_eq l : forall U, NoDup U -> incl l U -> sumf (fun f => cnt f l) U = length l.
Proof.
  induction l as [|a l IH]; intros U ND Hin.
  - clear. induction U as [|x U IHU]; cbn; [reflexivity|]. unfold cnt in *. cbn. exact IHU.
  - assert (Ha : In a U) by (apply Hin; left; reflexivity).
    assert (E : sumf (fun f => cnt f (a :: l)) U = 1 + sumf (fun f => cnt f l) U).
    { clear IH Hin. induction U as [|x U IHU]; [contradiction|]. cbn [sumf]. inversion ND as [|? ? Hn ND']; subst.
      destruct (N.eq_dec a x) as [->|Hne].
      - rewrite cnt_cons_eq.
        pose proof (sumf_cons_notin x l U Hn) as Z.
        lia.
      - rewrite (cnt_cons_neq x a) by assumption. destruct Ha as [->|Ha]; [contradiction|]. specialize (IHU ND' Ha). lia. }
    rewrite E, (IH U ND); [reflexivity|]. intros x Hx. apply Hin. right. exact Hx.
Qed.

(** * the trace: attempts and prompts *)
Lemma trace_split tr : length tr = length (attempts tr) + length (prompted tr).
Proof.
  unfold prompted. induction tr as [|e tr IH]; [reflexivity|]. destruct e as [f|i nb a]; cbn [attempts flat_map app length]; lia.
Qed.

Lemma released_le M tr : (forall i nb a, In (EvPrompt i nb a) tr -> length nb <= M) -> length (released tr) <= M * length (prompted tr).
Proof.
  unfold prompted. induction tr as [|e tr IH]; intros H; [cbn; lia|].
  assert (IH' : length (released tr) <= M * length (flat_map (fun e => match e with EvPrompt i _ _ => [i] | _ => [] end) tr))
    by (apply IH; intros; eapply H; right; eassumption).
  destruct e as [f|i nb [|]]; cbn [released flat_map app length].
  - exact IH'.
  - rewrite app_length. pose proof (H i nb true (or_introl eq_refl)). lia.
  - lia.
Qed.

Section U.
Context (C:catalogue) (rank:name -> N) (ans:name -> option V) (R:list name) (I0:istore).
Variables (UL UI UF : list name).
Hypothesis H_UL : forall F fi, c_form C F = Some fi -> incl (f_required fi ++ f_optional fi) UL.
Hypothesis H_UI : forall F fi, c_form C F = Some fi -> incl (f_inputs fi) UI.
Hypothesis H_UF : forall F fi, c_form C F = Some fi -> In F UF.

Record InvU (s:state) : Prop := {
  u_specs : incl (specs s) UI;
  u_specs_nd : NoDup (specs s);
  u_fmap : incl (fmap s) UL;
  u_sol_nd : NoDup (solving s);
  u_ireg : forall i f, In (i, f) (regs (idep s)) -> In i (specs s);
  u_prompted : incl (prompted (trace s)) (specs s);
  u_nb : forall i nb a, In (EvPrompt i nb a) (trace s) -> NoDup nb
}.

Definition BOUND : nat := length UL * (1 + length UI) + length UL * length UL + length UL * length UI + length UI.

Lemma incl_pairs (E:list (name * name)) (A B:list name) :
  (forall g d, In (g, d) E -> In g A /\ In d B) -> incl E (list_prod A B).
Proof. intros H [g d] Hin. apply in_prod; apply (H g d Hin). Qed.

Theorem state_bound b pend s :
  Inv C b pend s -> Inv2 C R [] s -> InvW C pend s -> InvK pend s -> Inv3 C ans I0 s -> InvU s ->
  length (trace s) <= BOUND.
Proof.
  intros HI HJ HW HK H3 HU. unfold BOUND.
  rewrite trace_split.
  assert (Hsol : incl (solving s) UL).
  { intros x Hx. apply (u_fmap _ HU). apply (j_sol_fmap _ _ _ _ HJ). exact Hx. }
  assert (Lsol : length (solving s) <= length UL) by (apply NoDup_incl_length; [exact (u_sol_nd _ HU)|exact Hsol]).
  assert (Lspecs : length (specs s) <= length UI) by (apply NoDup_incl_length; [exact (u_specs_nd _ HU)|exact (u_specs _ HU)]).
  assert (Lpr : length (prompted (trace s)) <= length UI).
  { apply NoDup_incl_length; [exact (k_nodup _ _ _ _ H3)|]. intros x Hx. apply (u_specs _ HU). apply (u_prompted _ HU). exact Hx. }
  assert (Ledges : length (edges s) <= length UL * length UL).
  { rewrite <- prod_length. apply NoDup_incl_length; [exact (w_nodup _ _ _ HW)|]. apply incl_pairs. intros g d Hin. split.
    - apply Hsol. apply (j_edge_sol _ _ _ _ HJ g d Hin).
    - apply Hsol. destruct (w_edge _ _ _ HW g d Hin) as [Hr|(v & Hv)].
      + apply (i_fw_sol _ _ _ _ HI d g Hr).
      + apply (i_vals_sol _ _ _ _ HI d v Hv). }
  assert (Lrel : length (released (trace s)) <= length UL * length (prompted (trace s))).
  { apply released_le. intros i nb a Hin. apply NoDup_incl_length; [exact (u_nb _ HU i nb a Hin)|].
    intros f Hf. apply Hsol. destruct (k_prompt _ _ _ _ H3 i nb a Hin) as (_ & _ & Hnb & _). apply (Hnb f Hf). }
  assert (Latt : length (attempts (trace s)) <= length (solving s) * (1 + length (specs s)) + length (edges s) + length (released (trace s))).
  { rewrite <- (sum_cnt_eq (attempts (trace s)) (solving s) (u_sol_nd _ HU)) by (intros x Hx; apply (k_att _ _ HK); exact Hx).
    etransitivity.
    - apply (sumf_le _ (fun f => (1 + length (specs s)) + cnt f (map fst (edges s)) + cnt f (released (trace s)))).
      intros f _. pose proof (k_le _ _ HK f) as X. unfold lhs, rhs in X. lia.
    - rewrite !sumf_add, !sumf_const, Nat.mul_add_distr_l.
      pose proof (sum_cnt_le (map fst (edges s)) (solving s) (u_sol_nd _ HU)) as A1. rewrite map_length in A1.
      pose proof (sum_cnt_le (released (trace s)) (solving s) (u_sol_nd _ HU)) as A2. lia. }
  assert (M1 : length (solving s) * (1 + length (specs s)) <= length UL * (1 + length UI)) by (apply Nat.mul_le_mono; lia).
  assert (M2 : length UL * length (prompted (trace s)) <= length UL * length UI) by (apply Nat.mul_le_mono; lia).
  lia.
Qed.

(** * the universe invariant is kept *)
Lemma add_names_nodup l : forall acc, NoDup acc -> NoDup (add_names l acc).
Proof.
  unfold add_names. induction l as [|x l IH]; intros acc ND; cbn [fold_left]; [exact ND|].
  destruct (mem x acc) eqn:E; [apply IH; exact ND|]. apply IH. apply mem_false in E.
  apply (Permutation_NoDup (Permutation_cons_append acc x)). constructor; assumption.
Qed.

Lemma run_needi_spec p sp I S i : run p sp I S = ONeedI i -> In i sp.
Proof.
  induction p as [v| |c|d0 k IH|j k IH]; intros H.
  - discriminate.
  - discriminate.
  - discriminate.
  - change (run (ReadV d0 k) sp I S) with (match alookup d0 S with Some v => run (k v) sp I S | None => ONeedV d0 end) in H.
    destruct (alookup d0 S) as [v|] eqn:E; [apply (IH v H)|discriminate].
  - change (run (ReadI j k) sp I S) with
      (if negb (mem j sp) then ONeedSpec j
       else match alookup j I with None => ONeedI j | Some None => OInvalid j | Some (Some v) => run (k v) sp I S end) in H.
    destruct (mem j sp) eqn:Em; cbn [negb] in H; [|discriminate].
    destruct (alookup j I) as [[v|]|]; try discriminate; [apply (IH v H)|]. inversion H; subst. apply mem_in. exact Em.
Qed.

Lemma U_steady s s' :
  InvU s -> incl (specs s) (specs s') -> incl (specs s') UI -> NoDup (specs s') -> incl (fmap s') UL -> NoDup (solving s') ->
  (forall i f, In (i, f) (regs (idep s')) -> In (i, f) (regs (idep s)) \/ In i (specs s')) ->
  (forall e, In e (trace s') -> In e (trace s) \/ exists g, e = EvAttempt g) ->
  (forall i, In i (prompted (trace s')) -> In i (prompted (trace s))) ->
  InvU s'.
Proof.
  intros [] Hs A B D E Hr Ht Hp. constructor; try assumption.
  - intros i f Hin. destruct (Hr i f Hin) as [X|X]; [apply Hs; eapply u_ireg0; eassumption|exact X].
  - intros i Hi. apply Hs. apply u_prompted0. apply Hp. exact Hi.
  - intros i nb a Hin. destruct (Ht _ Hin) as [X|(g & X)]; [eapply u_nb0; eassumption|discriminate].
Qed.

Lemma prompted_app l tr : (forall e, In e l -> exists g, e = EvAttempt g) -> prompted (l ++ tr) = prompted tr.
Proof.
  unfold prompted. induction l as [|e l IH]; intros H; [reflexivity|]. cbn [app flat_map].
  destruct (H e (or_introl eq_refl)) as (g & ->). cbn [app]. apply IH. intros; apply H; right; assumption.
Qed.

Lemma U_add_form F io s s' : add_form C rank F io s = inl s' -> InvU s -> InvU s'.
Proof.
  intros H HU. destruct (add_form_spec C rank ans _ _ _ _ H) as (fi & Hfi & Ei & Ev & Eu & Ef & Eid & _ & Et & Ee & Hsp & Hrest).
  unfold add_form in H. rewrite Hfi in H.
  apply (U_steady s s'); try exact HU.
  - intros x Hx. apply Hsp. right. exact Hx.
  - intros x Hx. apply Hsp in Hx as [Hx|Hx]; [apply (H_UI _ _ Hfi); exact Hx|apply (u_specs _ HU); exact Hx].
  - destruct io; inversion H; subst s'; unfold add_unattempted; proj_simpl; apply add_names_nodup; exact (u_specs_nd _ HU).
  - destruct io.
    + destruct Hrest as (_ & -> & _). exact (u_fmap _ HU).
    + destruct Hrest as (_ & Hm & _). intros x Hx. apply Hm in Hx as [Hx|Hx]; [|apply (u_fmap _ HU); exact Hx].
      apply (H_UL _ _ Hfi). apply in_or_app. exact Hx.
  - destruct io; inversion H; subst s'; unfold add_unattempted; proj_simpl; [exact (u_sol_nd _ HU)|apply add_names_nodup; exact (u_sol_nd _ HU)].
  - intros i f Hin. left. rewrite Eid in Hin. exact Hin.
  - intros e He. left. rewrite Et in He. exact He.
  - intros i Hi. rewrite Et in Hi. exact Hi.
Qed.

Lemma U_fields s s' :
  InvU s -> specs s' = specs s -> fmap s' = fmap s -> NoDup (solving s') ->
  (forall i f, In (i, f) (regs (idep s')) -> In (i, f) (regs (idep s)) \/ In i (specs s)) -> trace s' = trace s -> InvU s'.
Proof.
  intros HU Es Ef Hn Hr Et. apply (U_steady s s'); try exact HU; rewrite ?Es, ?Ef, ?Et;
    try solve [apply incl_refl | exact (u_specs _ HU) | exact (u_specs_nd _ HU) | exact (u_fmap _ HU) | assumption | auto].
  all: try (intros i f Hin; destruct (Hr i f Hin) as [X|X]; [left; exact X|right; rewrite ?Es; exact X]).
Qed.

Lemma U_log_attempt f s : InvU s -> InvU (log (EvAttempt f) s).
Proof.
  intros HU. apply (U_steady s _); unfold log; proj_simpl; try exact HU;
    try solve [apply incl_refl | exact (u_specs _ HU) | exact (u_specs_nd _ HU) | exact (u_fmap _ HU) | exact (u_sol_nd _ HU) | auto].
  all: try (intros e [<-|He]; [right; eauto|left; exact He]).
Qed.

Lemma U_attempt fuel : forall f s s', InvU s -> attempt_field C rank fuel f s = inl s' -> InvU s'.
Proof.
  induction fuel as [|n IH]; intros f s s' HU H; [discriminate|].
  cbn [attempt_field] in H.
  apply (U_log_attempt f) in HU. set (s0 := log (EvAttempt f) s) in *. clearbody s0.
  destruct (run (c_body C f) (specs s0) (inp s0) (vals s0)) as [v|d|i|i|i| |c] eqn:Er; try discriminate.
  - inversion H; subst s'; clear H. apply (U_fields s0); proj_simpl; auto. exact (u_sol_nd _ HU).
  - match type of H with match ?r with _ => _ end = _ => destruct r as [s3|e] eqn:Es3; [|discriminate] end.
    inversion H; subst s'; clear H.
    assert (H3 : InvU s3).
    { destruct (mem d (solving s0)); [inversion Es3; subst; exact HU|].
      match type of Es3 with match ?r1 with _ => _ end = _ => destruct r1 as [s1|e] eqn:Es1; [|discriminate] end.
      destruct (mem d (fmap s1)); [|discriminate].
      assert (H1 : InvU s1).
      { destruct (mem d (fmap s0)); [inversion Es1; subst; exact HU|]. eapply U_add_form; eassumption. }
      destruct (mem d (solving s1)); inversion Es3; subst s3; clear Es3; [exact H1|].
      apply (U_fields s1); unfold add_unattempted; proj_simpl; auto. apply add_names_nodup. exact (u_sol_nd _ H1). }
    apply (U_fields s3); proj_simpl; auto. exact (u_sol_nd _ H3).
  - inversion H; subst s'; clear H. apply (U_fields s0); proj_simpl; auto; [exact (u_sol_nd _ HU)|].
    intros j g Hin. apply (Permutation_in _ (add_unmet_regs i f (idep s0))) in Hin as [E|Hin]; [|left; exact Hin].
    inversion E; subst. right. eapply run_needi_spec; eassumption.
  - destruct (add_form C rank (c_form_of_input C i) true s0) as [s1|e] eqn:Es1; [|discriminate].
    destruct (mem i (specs s1)); [|discriminate].
    apply (IH f s1 s'); [|exact H]. eapply U_add_form; eassumption.
  - inversion H; subst s'; clear H. apply (U_fields s0); proj_simpl; auto. exact (u_sol_nd _ HU).
Qed.

Lemma key_reg t i : twf t -> In i (map fst (unmet t)) -> exists f, In (i, f) (regs t).
Proof.
  intros [_ Hne] Hin. apply in_map_iff in Hin as ((d & l) & E & Hin). cbn in E; subst d.
  destruct l as [|f l0] eqn:El; [exfalso; exact (Hne i [] Hin eq_refl)|].
  exists f. unfold regs, regs_of. apply in_flat_map. exists (i, f :: l0). split; [exact Hin|]. cbn. left. reflexivity.
Qed.

Lemma waiters_concat u : map snd (regs_of u) = flat_map snd u.
Proof.
  unfold regs_of. induction u as [|[d l] u IH]; [reflexivity|]. cbn [flat_map fst snd]. rewrite map_app, IH. f_equal.
  rewrite map_map. cbn. apply map_id.
Qed.

Lemma nodup_app_r {A} (l l':list A) : NoDup (l ++ l') -> NoDup l'.
Proof. induction l as [|a l IH]; intros H; [exact H|]. cbn [app] in H. inversion H; subst. apply IH. assumption. Qed.

Lemma unmet_dependents_nodup i t : NoDup (waiters t) -> NoDup (unmet_dependents i t).
Proof.
  unfold waiters, regs, unmet_dependents. rewrite waiters_concat.
  induction (unmet t) as [|[d l] u IH]; intros ND; cbn [alookup]; [constructor|].
  cbn [flat_map snd] in ND. destruct (N.eqb i d).
  - eapply nodup_app_l. exact ND.
  - apply IH. eapply nodup_app_r. exact ND.
Qed.

Lemma U_prompt_all l : forall s, InvU s -> NoDup (waiters (idep s)) -> (forall i, In i l -> In i (specs s)) -> InvU (prompt_all ans l s).
Proof.
  induction l as [|i l IH]; intros s HU ND Hl; cbn [prompt_all]; [exact HU|].
  assert (Hnb : NoDup (unmet_dependents i (idep s))) by (apply unmet_dependents_nodup; exact ND).
  destruct (ans i) as [v|].
  - apply IH; proj_simpl.
    + destruct HU. constructor; proj_simpl; try assumption.
      * intros j Hj. unfold prompted in *. cbn [flat_map app] in Hj. destruct Hj as [<-|Hj]; [apply Hl; left; reflexivity|auto].
      * intros j nb a [E|Hin]; [inversion E; subst; exact Hnb|eauto].
    + exact ND.
    + intros j Hj. apply Hl. right. exact Hj.
  - destruct HU. constructor; proj_simpl; try assumption.
    + intros j Hj. unfold prompted in *. cbn [flat_map app] in Hj. destruct Hj as [<-|Hj]; [apply Hl; left; reflexivity|auto].
    + intros j nb a [E|Hin]; [inversion E; subst; exact Hnb|eauto].
Qed.

Lemma nodup_waiters_idep pend s : InvW C pend s -> NoDup (waiters (idep s)).
Proof.
  intros HW. pose proof (w_uniq _ _ _ HW) as N. unfold tokens in N.
  apply nodup_app_r in N. apply nodup_app_r in N. apply nodup_app_r in N. exact N.
Qed.

(** * all invariants together *)
Definition PT (pend:list name) (s:state) : Prop := PK C R pend s /\ Inv3 C ans I0 s /\ InvU s.
Definition QT (s:state) : Prop := QK C R s /\ Inv3 C ans I0 s /\ InvU s.

Lemma perm_iff {A} (l l':list A) : Permutation l l' -> forall x, In x l <-> In x l'.
Proof. intros P x. split; intros H; [apply (Permutation_in _ P H)|apply (Permutation_in _ (Permutation_sym P) H)]. Qed.

Section Scheme.
Hypothesis Hwf : cat_wf C.
Hypothesis Hnd : cat_nodup C.

Lemma PT_perm pend pend' s : Permutation pend pend' -> PT pend s -> PT pend' s.
Proof.
  intros Hp (((A & B & D) & K) & T & U). split; [|split; assumption]. split; [split; [|split; [exact B|eapply W_perm; eassumption]]|eapply K_perm; eassumption].
  eapply Inv_perm; [|exact A]. apply perm_iff. exact Hp.
Qed.

Lemma PT_attempt fuel f pend s s' : PT (f :: pend) s -> attempt_field C rank fuel f s = inl s' -> PT pend s'.
Proof.
  intros (((A & B & D) & K) & T & U) H. split; [split; [split; [eapply Inv_attempt; eassumption|split; [eapply (Inv2_attempt C rank ans R []); eassumption|eapply W_attempt; eassumption]]|]|split].
  - eapply K_attempt; eassumption.
  - eapply Inv3_attempt; eassumption.
  - eapply U_attempt; eassumption.
Qed.

Lemma PT_pop s q f : PT [] s -> unatt s = q ++ [f] -> PT [f] (with_unatt q s).
Proof.
  intros (((A & B & D) & K) & T & U) Hu. split; [split; [split; [apply Inv_pop; assumption|split; [destruct B; constructor; assumption|apply W_pop; assumption]]|apply K_pop; assumption]|split].
  - destruct T; constructor; assumption.
  - destruct U; constructor; assumption.
Qed.

Lemma PT_fdrain s ws t' : PT [] s -> drain (fdep s) = (ws, t') -> PT ws (set_fdep t' s).
Proof.
  intros (((A & B & D) & K) & T & U) Hd. split; [split; [split; [apply Inv_fdrain; assumption|split; [destruct B; constructor; assumption|apply (W_fdrain C); assumption]]|eapply K_fdrain; eassumption]|split].
  - destruct T; constructor; assumption.
  - destruct U; constructor; assumption.
Qed.

Lemma PT_prompt s : PT [] s -> refused s = false -> QT (prompt_all ans (sort_rank rank (unmet_dependencies (idep s))) s).
Proof.
  intros (((A & B & D) & K) & T & U) Hr.
  pose proof (i_iwf _ _ _ _ A) as Hiwf. pose proof Hiwf as [ND _]. pose proof (i_strict _ _ _ _ A eq_refl) as Hm.
  set (l := sort_rank rank (unmet_dependencies (idep s))).
  assert (NDl : NoDup l) by (apply (Permutation_NoDup (Permutation_sym (sort_rank_perm rank _))); exact ND).
  assert (Hl : forall i, In i l -> In i (map fst (unmet (idep s))) /\ ~ In i (met (idep s))).
  { intros i Hi. apply sort_rank_in in Hi. split; [exact Hi|]. rewrite Hm. tauto. }
  split; [split; [split; [apply Inv_prompt; assumption|split; [|apply W_prompt_all; exact D]]|apply K_prompt_all; assumption]|split].
  - destruct (prompt_all_same ans l s) as (A1 & A2 & A3 & A4 & A5 & A6 & _).
    apply (Inv2_ext_same C R [] s); auto. apply (prompt_all_ext C rank ans); auto. apply Inv_noprompt. exact A.
  - apply Inv3_prompt_all; auto. apply Inv_noprompt. exact A.
  - apply U_prompt_all; [exact U|eapply nodup_waiters_idep; exact D|].
    intros i Hi. destruct (key_reg _ i Hiwf (proj1 (Hl i Hi))) as (f & Hf). eapply u_ireg; eassumption.
Qed.

Lemma PT_noprompt s : PT [] s -> refused s = true -> QT s.
Proof.
  intros (((A & B & D) & K) & T & U) Hr. split; [split; [split; [apply Inv_noprompt; assumption|split; assumption]|exact K]|split; assumption].
Qed.

Lemma PT_idrain s ws t' : QT s -> drain (idep s) = (ws, t') -> PT ws (set_idep t' s).
Proof.
  intros (((A & B & D) & K) & T & U) Hd. split; [split; [split; [apply Inv_idrain; assumption|split; [destruct B; constructor; assumption|eapply W_idrain; eassumption]]|eapply K_idrain; eassumption]|split].
  - destruct T; constructor; assumption.
  - destruct (drain_complete _ _ _ (i_iwf _ _ _ _ A) Hd) as (_ & _ & ys & _ & Hp & _).
    destruct U. constructor; unfold set_idep; proj_simpl; try assumption.
    intros i f Hin. apply (u_ireg0 i f). apply (Permutation_in _ (Permutation_sym Hp)). apply in_or_app. right. exact Hin.
Qed.

Theorem main_loop_T fuel s r :
  PT [] s -> main_loop C rank fuel ans s = r ->
  match r with inl s' => PT [] s' | inr (_, sx) => PT [] sx \/ QT sx end.
Proof.
  apply (main_loop_PP C rank ans PT QT).
  - exact PT_perm.
  - exact PT_attempt.
  - exact PT_pop.
  - exact PT_fdrain.
  - exact PT_prompt.
  - exact PT_noprompt.
  - exact PT_idrain.
Qed.

Lemma PT_bound pend s : PT pend s -> length (trace s) <= BOUND.
Proof. intros (((A & B & D) & K) & T & U). eapply state_bound; eassumption. Qed.
Lemma QT_bound s : QT s -> length (trace s) <= BOUND.
Proof. intros (((A & B & D) & K) & T & U). eapply state_bound; eassumption. Qed.
End Scheme.

(** * progress: the trace only grows, and each attempt logs an event *)
Lemma attempt_trace_len fuel : forall f s s', attempt_field C rank fuel f s = inl s' -> length (trace s) < length (trace s').
Proof.
  induction fuel as [|n IH]; intros f s s' H; [discriminate|].
  cbn [attempt_field] in H.
  assert (Ht0 : length (trace (log (EvAttempt f) s)) = S (length (trace s))) by reflexivity.
  set (s0 := log (EvAttempt f) s) in *. clearbody s0.
  destruct (run (c_body C f) (specs s0) (inp s0) (vals s0)) as [v|d|i|i|i| |c] eqn:Er; try discriminate;
    try (inversion H; subst s'; proj_simpl; lia).
  - match type of H with match ?r with _ => _ end = _ => destruct r as [s3|e] eqn:Es3; [|discriminate] end.
    inversion H; subst s'; clear H. proj_simpl.
    assert (H3 : trace s3 = trace s0).
    { destruct (mem d (solving s0)); [inversion Es3; subst; auto|].
      match type of Es3 with match ?r1 with _ => _ end = _ => destruct r1 as [s1|e] eqn:Es1; [|discriminate] end.
      destruct (mem d (fmap s1)); [|discriminate].
      assert (H1 : trace s1 = trace s0).
      { destruct (mem d (fmap s0)); [inversion Es1; subst; auto|].
        destruct (add_form_spec C rank ans _ _ _ _ Es1) as (fi & _ & _ & _ & _ & _ & _ & _ & A3 & _). exact A3. }
      destruct (mem d (solving s1)); inversion Es3; subst s3; clear Es3; [exact H1|].
      unfold add_unattempted. cbn. exact H1. }
    rewrite H3. lia.
  - destruct (add_form C rank (c_form_of_input C i) true s0) as [s1|e] eqn:Es1; [|discriminate].
    destruct (mem i (specs s1)); [|discriminate].
    destruct (add_form_spec C rank ans _ _ _ _ Es1) as (fi & _ & _ & _ & _ & _ & _ & _ & A3 & _).
    pose proof (IH f s1 s' H) as X. rewrite A3 in X. lia.
Qed.

Lemma attempt_all_len l : forall s s', attempt_all C rank l s = inl s' -> length (trace s) + length l <= length (trace s').
Proof.
  induction l as [|f l IH]; intros s s' H; cbn [attempt_all] in H; [inversion H; subst; cbn; lia|].
  destruct (attempt_field C rank retry_fuel f s) as [s1|e] eqn:E; [|discriminate].
  pose proof (attempt_trace_len _ _ _ _ E). pose proof (IH _ _ H). cbn [length]. lia.
Qed.

Lemma drain_queue_len fuel : forall s s', drain_queue C rank fuel s = inl s' ->
  length (trace s) <= length (trace s') /\ (unatt s <> [] -> length (trace s) < length (trace s')) /\ (unatt s = [] -> s' = s).
Proof.
  induction fuel as [|n IH]; intros s s' H; cbn [drain_queue] in H; [discriminate|].
  destruct (rev (unatt s)) as [|f rq] eqn:Er.
  - inversion H; subst s'. split; [lia|]. split; [|reflexivity].
    intros Hne. exfalso. apply Hne. rewrite <- (rev_involutive (unatt s)), Er. reflexivity.
  - match type of H with match attempt_field _ _ _ _ ?s1 with _ => _ end = _ => set (s1' := s1) in * end.
    destruct (attempt_field C rank retry_fuel f s1') as [s2|e] eqn:E; [|discriminate].
    pose proof (attempt_trace_len _ _ _ _ E) as X. unfold s1' in X. cbn [trace] in X.
    destruct (IH _ _ H) as (Y & _). split; [lia|]. split; [intros _; lia|].
    intros Hu. rewrite Hu in Er. discriminate.
Qed.

Lemma prompt_all_len l : forall s, length (trace s) <= length (trace (prompt_all ans l s)) /\
  (l <> [] -> length (trace s) < length (trace (prompt_all ans l s))).
Proof.
  induction l as [|i l IH]; intros s; cbn [prompt_all]; [split; [lia|intros X; contradiction]|].
  destruct (ans i) as [v|].
  - match goal with |- context[prompt_all ans l ?s1] => destruct (IH s1) as (A & _); cbn [trace length] in A end.
    split; [lia|intros _; lia].
  - proj_simpl. cbn [length]. split; [lia|intros _; lia].
Qed.

(** * a retry loads the input specifications of a form that was not loaded yet *)
Definition loadedF (s:state) (F:name) : bool :=
  match c_form C F with Some fi => forallb (fun i => mem i (specs s)) (f_inputs fi) | None => true end.
Definition unloaded (s:state) : nat := length (filter (fun F => negb (loadedF s F)) UF).

Lemma filter_length_le {A} (p:A -> bool) l : length (filter p l) <= length l.
Proof. induction l as [|x l IH]; cbn; [lia|]. destruct (p x); cbn; lia. Qed.

Lemma filter_length_lt {A} (p q:A -> bool) U :
  (forall x, q x = true -> p x = true) -> (exists x, In x U /\ p x = true /\ q x = false) ->
  length (filter q U) < length (filter p U).
Proof.
  intros Hqp (x0 & Hin & Hp & Hq). induction U as [|x U IH]; [contradiction|]. cbn [filter].
  assert (Hle : length (filter q U) <= length (filter p U)).
  { clear IH Hin. induction U as [|y U IHU]; cbn; [lia|]. destruct (q y) eqn:Eq; [rewrite (Hqp y Eq); cbn; lia|]. destruct (p y); cbn; lia. }
  destruct Hin as [->|Hin].
  - rewrite Hp, Hq. cbn. lia.
  - specialize (IH Hin). destruct (q x) eqn:Eq; [rewrite (Hqp x Eq); cbn; lia|]. destruct (p x); cbn; lia.
Qed.

Lemma retry_ok fuel : forall f s e, unloaded s < fuel -> attempt_field C rank fuel f s = inr e -> e <> EOutOfFuel.
Proof.
  induction fuel as [|n IH]; intros f s e Hlt H; [lia|].
  cbn [attempt_field] in H.
  assert (Hu0 : unloaded (log (EvAttempt f) s) = unloaded s) by reflexivity.
  set (s0 := log (EvAttempt f) s) in *. clearbody s0.
  destruct (run (c_body C f) (specs s0) (inp s0) (vals s0)) as [v|d|i|i|i| |c] eqn:Er; try discriminate.
  - match type of H with match ?r with _ => _ end = _ => destruct r as [s3|e3] eqn:Es3; [discriminate|] end.
    inversion H; subst e3; clear H.
    destruct (mem d (solving s0)); [discriminate|].
    match type of Es3 with match ?r1 with _ => _ end = _ => destruct r1 as [s1|e1] eqn:Es1 end.
    + destruct (mem d (fmap s1)); [destruct (mem d (solving s1)); discriminate|]. inversion Es3; subst. discriminate.
    + inversion Es3; subst e1. destruct (mem d (fmap s0)); [discriminate|].
      unfold add_form in Es1. destruct (c_form C (c_form_of_line C d)); [discriminate|]. inversion Es1; subst. discriminate.
  - destruct (add_form C rank (c_form_of_input C i) true s0) as [s1|e1] eqn:Es1.
    + destruct (mem i (specs s1)) eqn:Emi; [|inversion H; subst; discriminate]. apply mem_in in Emi.
      apply (IH f s1 e); [|exact H].
      destruct (add_form_spec C rank ans _ _ _ _ Es1) as (fi & Hfi & _ & _ & _ & _ & _ & _ & _ & _ & Hsp & _).
      pose proof (run_needspec_notin _ _ _ _ _ Er) as Hni.
      assert (Hif : In i (f_inputs fi)) by (apply Hsp in Emi as [X|X]; [exact X|contradiction]).
      assert (X : unloaded s1 < unloaded s0).
      { unfold unloaded. apply filter_length_lt.
        - intros F Hq. apply negb_true_iff in Hq. apply negb_true_iff. unfold loadedF in *.
          destruct (c_form C F) as [fi0|]; [|discriminate].
          destruct (forallb (fun i0 => mem i0 (specs s0)) (f_inputs fi0)) eqn:E0; [|reflexivity].
          rewrite <- Hq. symmetry. apply forallb_forall. intros j Hj. apply mem_in. apply Hsp. right.
          apply mem_in. exact (proj1 (forallb_forall _ _) E0 j Hj).
        - exists (c_form_of_input C i). split; [eapply H_UF; exact Hfi|]. unfold loadedF. rewrite Hfi. split.
          + apply negb_true_iff. destruct (forallb (fun i0 => mem i0 (specs s0)) (f_inputs fi)) eqn:E0; [|reflexivity].
            exfalso. apply Hni. apply mem_in. exact (proj1 (forallb_forall _ _) E0 i Hif).
          + apply negb_false_iff. apply forallb_forall. intros j Hj. apply mem_in. apply Hsp. left. exact Hj. }
      lia.
    + inversion H; subst e1. unfold add_form in Es1. destruct (c_form C (c_form_of_input C i)); [discriminate|]. inversion Es1; subst. discriminate.
  - inversion H; subst. discriminate.
  - inversion H; subst. discriminate.
Qed.

Section Total.
Hypothesis Hwf : cat_wf C.
Hypothesis Hnd : cat_nodup C.
Hypothesis Hretry : length UF < retry_fuel.

Lemma attempt_nofuel f s e : attempt_field C rank retry_fuel f s = inr e -> e <> EOutOfFuel.
Proof. apply retry_ok. unfold unloaded. pose proof (filter_length_le (fun F => negb (loadedF s F)) UF). lia. Qed.

Lemma attempt_all_nofuel l : forall s e, attempt_all C rank l s = inr e -> e <> EOutOfFuel.
Proof.
  induction l as [|f l IH]; intros s e H; cbn [attempt_all] in H; [discriminate|].
  destruct (attempt_field C rank retry_fuel f s) as [s1|e1] eqn:E; [eapply IH; eassumption|].
  inversion H; subst. eapply attempt_nofuel; eassumption.
Qed.

Lemma drain_queue_total fuel : forall s e, PT [] s -> BOUND < length (trace s) + fuel ->
  drain_queue C rank fuel s = inr e -> e <> EOutOfFuel.
Proof.
  induction fuel as [|n IH]; intros s e HP Hb H.
  - pose proof (PT_bound _ _ HP). lia.
  - cbn [drain_queue] in H. destruct (rev (unatt s)) as [|f rq] eqn:Er; [discriminate|].
    match type of H with match attempt_field _ _ _ _ ?s1 with _ => _ end = _ => set (s1' := s1) in * end.
    destruct (attempt_field C rank retry_fuel f s1') as [s2|e1] eqn:E.
    + apply (IH s2 e); [| |exact H].
      * refine (PT_attempt Hwf Hnd _ _ [] s1' _ _ E). apply (PT_pop s (rev rq) f HP).
        rewrite <- (rev_involutive (unatt s)), Er. reflexivity.
      * pose proof (attempt_trace_len _ _ _ _ E) as X. unfold s1' in X. cbn [trace] in X. lia.
    + inversion H; subst. eapply attempt_nofuel; eassumption.
Qed.

Definition mu (s:state) : nat := 2 * length (trace s) + (if has_met (fdep s) then 0 else 1).

Lemma has_unmet_nonempty t : has_unmet t = true -> unmet_dependencies t <> [].
Proof. unfold has_unmet, unmet_dependencies. destruct (unmet t); [discriminate|]. intros _. discriminate. Qed.

Lemma drain_nomet t : met t = [] -> drain t = ([], t).
Proof.
  intros Hm. unfold drain, drain_fuel. rewrite Hm. cbn [length plus]. cbn [drain_all].
  assert (E : drain_step t = None) by (apply drain_step_none; exact Hm). rewrite E. reflexivity.
Qed.

Lemma iter_progress n s s1 ws t1 s2 wi t2 s4 :
  PT [] s -> loop_cond s = true ->
  drain_queue C rank (S n) s = inl s1 -> drain (fdep s1) = (ws, t1) ->
  attempt_all C rank (sort_rank rank ws) (set_fdep t1 s1) = inl s2 ->
  drain (idep (if refused s2 then s2 else prompt_all ans (sort_rank rank (unmet_dependencies (idep s2))) s2)) = (wi, t2) ->
  attempt_all C rank wi (set_idep t2 (if refused s2 then s2 else prompt_all ans (sort_rank rank (unmet_dependencies (idep s2))) s2)) = inl s4 ->
  mu s < mu s4.
Proof.
  intros HP Hc E1 Ed1 E2 Ed2 E4.
  set (s3 := if refused s2 then s2 else prompt_all ans (sort_rank rank (unmet_dependencies (idep s2))) s2) in *.
  destruct (drain_queue_len _ _ _ E1) as (L1 & L1s & L1e).
  pose proof (attempt_all_len _ _ _ E2) as L2. unfold set_fdep in L2. cbn [trace] in L2.
  rewrite (Permutation_length (sort_rank_perm rank ws)) in L2.
  assert (L3 : length (trace s2) <= length (trace s3)).
  { unfold s3. destruct (refused s2); [lia|]. apply prompt_all_len. }
  pose proof (attempt_all_len _ _ _ E4) as L4. unfold set_idep in L4. cbn [trace] in L4.
  unfold mu.
  destruct (Nat.eq_dec (length (trace s4)) (length (trace s))) as [Eq|Hne]; [|destruct (has_met (fdep s)), (has_met (fdep s4)); lia].
  (* nothing was logged in this pass *)
  assert (Hws : ws = []) by (destruct ws; [reflexivity|cbn [length] in L2; lia]).
  assert (Hwi : wi = []) by (destruct wi; [reflexivity|cbn [length] in L4; lia]).
  assert (Hu : unatt s = []).
  { destruct (unatt s) eqn:Eu; [reflexivity|]. exfalso. assert (length (trace s) < length (trace s1)) by (apply L1s; discriminate). lia. }
  pose proof (L1e Hu) as Es1. subst s1 ws wi.
  cbn [attempt_all] in E2, E4. change (sort_rank rank []) with (@nil name) in E2. cbn [attempt_all] in E2.
  inversion E2; subst s2; clear E2. inversion E4; subst s4; clear E4.
  destruct HP as (((A & B & D) & K) & T & U).
  destruct (drain_complete _ _ _ (i_fwf _ _ _ _ A) Ed1) as (Hm1 & _).
  assert (Hf4 : fdep (set_idep t2 s3) = t1).
  { unfold set_idep. proj_simpl. unfold s3. proj_simpl. unfold set_fdep. proj_simpl.
    destruct (refused s); [reflexivity|].
    match goal with |- fdep (prompt_all ans ?l ?s0) = _ => destruct (prompt_all_same ans l s0) as (_ & _ & _ & _ & _ & _ & _ & _ & X) end.
    rewrite X. reflexivity. }
  rewrite Hf4. unfold has_met at 2. rewrite Hm1.
  destruct (has_met (fdep s)) eqn:Ehm; [unfold set_idep in Eq |- *; proj_simpl; lia|].
  (* the loop condition must then come from an unanswered input that may still be asked *)
  exfalso. unfold loop_cond in Hc. rewrite Hu, Ehm in Hc. cbn [negb orb] in Hc.
  pose proof (i_strict _ _ _ _ A eq_refl) as Hmi. unfold has_met in Hc. rewrite Hmi in Hc. cbn [orb] in Hc.
  rewrite orb_false_r in Hc. apply andb_true_iff in Hc as [Hun Hrf]. apply negb_true_iff in Hrf.
  assert (L3s : length (trace (set_fdep t1 s)) < length (trace s3)).
  { unfold s3, set_fdep. proj_simpl. rewrite Hrf.
    match goal with |- _ < length (trace (prompt_all ans ?l ?s0)) => destruct (prompt_all_len l s0) as (_ & Hlt) end.
    cbn [trace] in Hlt. apply Hlt. intros X.
    apply (has_unmet_nonempty _ Hun).
    destruct (unmet_dependencies (idep s)) as [|a l0] eqn:El; [reflexivity|].
    exfalso. pose proof (sort_rank_in rank (a :: l0) a) as Y. rewrite X in Y. apply Y. left. reflexivity. }
  unfold set_fdep in L3s. cbn [trace] in L3s. unfold set_idep in Eq. cbn [trace] in Eq. lia.
Qed.

Lemma mu_le pend s : PT pend s -> mu s <= 2 * BOUND + 1.
Proof. intros HP. pose proof (PT_bound _ _ HP). unfold mu. destruct (has_met (fdep s)); lia. Qed.

Lemma main_loop_total fuel : forall s e sx, PT [] s -> 2 * BOUND + 1 < mu s + fuel ->
  main_loop C rank fuel ans s = inr (e, sx) -> e <> EOutOfFuel.
Proof.
  induction fuel as [|n IH]; intros s e sx HP Hb H.
  - pose proof (mu_le _ _ HP). lia.
  - cbn [main_loop] in H. destruct (loop_cond s) eqn:Ec; cbn [negb] in H; [|discriminate].
    destruct (drain_queue C rank (S n) s) as [s1|e1] eqn:E1.
    2:{ inversion H; subst. apply (drain_queue_total (S n) sx e HP); [|exact E1].
        pose proof (mu_le _ _ HP). unfold mu in *. destruct (has_met (fdep sx)); lia. }
    assert (HP1 : PT [] s1) by (refine (drain_queue_PP C rank PT _ _ _ _ _ HP E1); [exact (PT_attempt Hwf Hnd)|exact PT_pop]).
    destruct (drain (fdep s1)) as [ws t1] eqn:Ed1.
    destruct (attempt_all C rank (sort_rank rank ws) (set_fdep t1 s1)) as [s2|e2] eqn:E2.
    2:{ inversion H; subst. eapply attempt_all_nofuel; eassumption. }
    assert (HP2 : PT [] s2).
    { refine (attempt_all_PP C rank PT (PT_attempt Hwf Hnd) _ _ _ _ E2).
      apply (PT_perm ws); [symmetry; apply sort_rank_perm|]. apply PT_fdrain; assumption. }
    set (s3 := if refused s2 then s2 else prompt_all ans (sort_rank rank (unmet_dependencies (idep s2))) s2) in *.
    assert (HQ3 : QT s3).
    { unfold s3. destruct (refused s2) eqn:Er; [apply PT_noprompt|apply PT_prompt]; assumption. }
    destruct (drain (idep s3)) as [wi t2] eqn:Ed2.
    destruct (attempt_all C rank wi (set_idep t2 s3)) as [s4|e4] eqn:E4.
    2:{ inversion H; subst. eapply attempt_all_nofuel; eassumption. }
    assert (HP4 : PT [] s4).
    { refine (attempt_all_PP C rank PT (PT_attempt Hwf Hnd) _ _ _ _ E4). apply PT_idrain; assumption. }
    apply (IH s4 e sx HP4); [|exact H].
    pose proof (iter_progress n s s1 ws t1 s2 wi t2 s4 HP Ec E1 Ed1 E2 Ed2 E4). lia.
Qed.
End Total.


(** * whole runs *)
Lemma U_init hp : InvU (init_state I0 hp).
Proof.
  constructor; cbn.
  - intros x [].
  - constructor.
  - intros x [].
  - constructor.
  - intros i f [].
  - intros x [].
  - intros i nb a [].
Qed.

Lemma U_add_forms l : forall s s', InvU s -> add_forms C rank l s = inl s' -> InvU s'.
Proof.
  induction l as [|F l IH]; intros s s' HU H; cbn [add_forms] in H; [inversion H; subst; exact HU|].
  destruct (add_form C rank F false s) as [s1|e] eqn:E; [|discriminate].
  apply (IH s1 s'); [eapply U_add_form; eassumption|exact H].
Qed.

Lemma add_forms_nofuel l : forall s e, add_forms C rank l s = inr e -> e <> EOutOfFuel.
Proof.
  induction l as [|F l IH]; intros s e H; cbn [add_forms] in H; [discriminate|].
  destruct (add_form C rank F false s) as [s1|e1] eqn:E; [eapply IH; eassumption|].
  inversion H; subst. unfold add_form in E. destruct (c_form C F); [discriminate|]. inversion E; subst. discriminate.
Qed.

Lemma start_PT hp s0 : cat_wf C -> cat_nodup C -> NoDup R ->
  add_forms C rank R (init_state I0 hp) = inl s0 -> PT [] (start_state [] s0).
Proof.
  intros Hwf Hnd ND E0.
  assert (HW0 : InvW C [] s0).
  { apply (W_add_forms C rank ans R R Hwf Hnd (fun F HF => HF) ND (init_state I0 hp) s0); try assumption.
    - apply (Inv_init C rank ans).
    - apply Inv2_init.
    - apply W_init.
    - intros F _ []. }
  assert (HK0 : InvK [] s0).
  { apply (K_add_forms C rank ans R R Hwf Hnd (fun F HF => HF) ND (init_state I0 hp) s0); try assumption.
    - apply (Inv_init C rank ans).
    - apply Inv2_init.
    - apply K_init.
    - intros F _ []. }
  pose proof (start_Inv C rank ans R [] I0 hp s0 s0 E0 eq_refl) as HI.
  destruct (start_Inv2 C rank ans R [] I0 hp s0 s0 Hwf E0 eq_refl) as (HJ & _ & _).
  destruct (add_forms_same C rank ans _ _ _ E0) as (Ei & Et & _).
  split; [split; [split; [exact HI|split; [exact HJ|]]|]|split].
  - destruct HW0. constructor; unfold start_state; cbn; assumption.
  - destruct HK0. constructor; unfold start_state; cbn; assumption.
  - apply Inv3_trivial; unfold start_state; cbn; assumption.
  - pose proof (U_add_forms R _ _ (U_init hp) E0) as HU. destruct HU. constructor; unfold start_state; cbn; assumption.
Qed.

(** C06: the total work of any run is bounded by the size of the catalogue ... *)
Theorem run_bounded fuel hp r : cat_wf C -> cat_nodup C -> NoDup R ->
  solve C rank fuel R [] I0 hp ans = r -> length (trace (result_state r)) <= BOUND.
Proof.
  intros Hwf Hnd ND H. unfold solve in H.
  destruct (add_forms C rank R (init_state I0 hp)) as [s0|e] eqn:E0.
  2:{ subst r. cbn. lia. }
  cbn [add_fields] in H.
  match type of H with main_loop _ _ _ _ ?st = _ => change st with (start_state [] s0) in H end.
  pose proof (main_loop_T Hwf Hnd fuel (start_state [] s0) r (start_PT hp s0 Hwf Hnd ND E0) H) as X.
  destruct r as [s'|[e sx]]; cbn [result_state].
  - eapply PT_bound; eassumption.
  - destruct X as [X|X]; [eapply PT_bound|eapply QT_bound]; eassumption.
Qed.

(** ... and with that much fuel (twice the bound, plus two) the solver never stops for lack of fuel: it terminates *)
Theorem solve_terminates fuel hp : cat_wf C -> cat_nodup C -> NoDup R -> length UF < retry_fuel ->
  2 * BOUND + 1 < fuel ->
  forall e sx, solve C rank fuel R [] I0 hp ans = inr (e, sx) -> e <> EOutOfFuel.
Proof.
  intros Hwf Hnd ND Hr Hf e sx H. unfold solve in H.
  destruct (add_forms C rank R (init_state I0 hp)) as [s0|e0] eqn:E0.
  2:{ inversion H; subst. eapply add_forms_nofuel; eassumption. }
  cbn [add_fields] in H.
  match type of H with main_loop _ _ _ _ ?st = _ => change st with (start_state [] s0) in H end.
  apply (main_loop_total Hwf Hnd Hr fuel (start_state [] s0) e sx (start_PT hp s0 Hwf Hnd ND E0)); [|exact H].
  lia.
Qed.
End U.
