(** Soundness of [Arith.compile false] (the core arithmetic fragment) against the interpreter of [Forms]:
    on every store that holds money values for the lines the expression reads, evaluating the line body yields
    the rational that [aeval] computes (up to the representation of the rational), and the stored value is its rounding. *)
From Coq Require Import ZArith QArith Qminmax Qround List String Bool Lia.
From HV Require Import Forms Arith.
Import ListNotations.
Open Scope string_scope.

Lemma append_nil_r (s:string) : s ++ "" = s.
Proof. induction s; cbn; [reflexivity|rewrite IHs; reflexivity]. Qed.

Lemma Qle_bool_false x y : Qle_bool x y = false -> y < x.
Proof. intros H. apply Qnot_le_lt. intros C. apply Qle_bool_iff in C. congruence. Qed.

Lemma pick_max x y : (if negb (Qle_bool y x) then y else x) == Qmax x y.
Proof.
  destruct (Qle_bool y x) eqn:E; cbn.
  - apply Qle_bool_iff in E. symmetry. apply Q.max_l. exact E.
  - apply Qle_bool_false in E. symmetry. apply Q.max_r. apply Qlt_le_weak. exact E.
Qed.
Lemma pick_min x y : (if negb (Qle_bool x y) then y else x) == Qmin x y.
Proof.
  destruct (Qle_bool x y) eqn:E; cbn.
  - apply Qle_bool_iff in E. symmetry. apply Q.min_l. exact E.
  - apply Qle_bool_false in E. symmetry. apply Q.min_r. apply Qlt_le_weak. exact E.
Qed.

Section Sound.
Context (c:ctx).

Lemma eval_const m v r : eval c (S m) (EConst v) r = RVal v.
Proof. reflexivity. Qed.
Lemma eval_bin m op a b r : eval c (S m) (EBin op a b) r = (x <- eval c m a r ;; y <- eval c m b r ;; arith op x y).
Proof. reflexivity. Qed.
Lemma eval_call1 m f a r : eval c (S m) (ECall f [a]) r = (v <- eval c m a r ;; call_fn c f [v]).
Proof. cbn [eval]. destruct (eval c m a r); reflexivity. Qed.
Lemma eval_call2 m f a b r : eval c (S m) (ECall f [a; b]) r = (v <- eval c m a r ;; w <- eval c m b r ;; call_fn c f [v; w]).
Proof. cbn [eval]. destruct (eval c m a r); cbn [bind]; try reflexivity. destruct (eval c m b r); reflexivity. Qed.
Lemma eval_read_lit m s r : eval c (S m) (ERead RV [NLit s]) r = do_read c RV s.
Proof. cbn [eval bind]. rewrite append_nil_r. reflexivity. Qed.

Lemma exec_return m e r : exec c (S m) [SReturn e] r = (v <- eval c m e r ;; RVal (r, SigReturn v)).
Proof. reflexivity. Qed.

Definition env_ok (env:string -> Q) (a:aexp) : Prop :=
  forall n, In n (alines a) -> exists q, slookup (qualify c n) (x_vals c) = Some (PNum q) /\ q == env n.

Lemma env_ok_l env x y (f:aexp -> aexp -> aexp) :
  (alines (f x y) = alines x ++ alines y)%list -> env_ok env (f x y) -> env_ok env x /\ env_ok env y.
Proof.
  intros E H. split; intros n Hn; apply H; rewrite E; apply in_or_app; auto.
Qed.

Lemma compile_e_sound n : forall e a,
  compile_e false n e = Some a ->
  forall fuel r env, (n + 2 <= fuel)%nat -> env_ok env a ->
  exists q, eval c fuel e r = RVal (PNum q) /\ q == aeval env a.
Proof.
  induction n as [|n IH]; intros e a Hc fuel r env Hf Hok; [discriminate|].
  destruct fuel as [|m]; [lia|]. assert (Hm : (n + 2 <= m)%nat) by lia.
  destruct e; cbn [compile_e] in Hc; try discriminate.
  - (* constant *)
    destruct v; cbn in Hc; try discriminate. inversion Hc; subst. exists q. split; [reflexivity|reflexivity].
  - (* v['line'] *)
    destruct k; [|discriminate]. unfold lit_name in Hc.
    destruct name as [|[s|] [|]]; try discriminate. cbn in Hc. inversion Hc; subst.
    destruct (Hok s (or_introl eq_refl)) as (q & Hq & Eq).
    exists q. split; [|exact Eq]. rewrite eval_read_lit. unfold do_read. rewrite Hq. reflexivity.
  - (* binary operators *)
    rewrite eval_bin.
    destruct op; try discriminate.
    + destruct (compile_e false n e1) as [x|] eqn:E1; [|discriminate].
      destruct (compile_e false n e2) as [y|] eqn:E2; [|discriminate]. inversion Hc; subst.
      destruct (env_ok_l env x y AAdd eq_refl Hok) as [Hx Hy].
      destruct (IH e1 x E1 m r env Hm Hx) as (qx & Ex & Qx). destruct (IH e2 y E2 m r env Hm Hy) as (qy & Ey & Qy).
      exists (Qred (qx + qy)). split.
      * rewrite Ex. cbn [bind]. rewrite Ey. reflexivity.
      * rewrite Qred_correct. cbn [aeval]. rewrite Qx, Qy. reflexivity.
    + destruct (compile_e false n e1) as [x|] eqn:E1; [|discriminate].
      destruct (compile_e false n e2) as [y|] eqn:E2; [|discriminate]. inversion Hc; subst.
      destruct (env_ok_l env x y ASub eq_refl Hok) as [Hx Hy].
      destruct (IH e1 x E1 m r env Hm Hx) as (qx & Ex & Qx). destruct (IH e2 y E2 m r env Hm Hy) as (qy & Ey & Qy).
      exists (Qred (qx - qy)). split.
      * rewrite Ex. cbn [bind]. rewrite Ey. reflexivity.
      * rewrite Qred_correct. cbn [aeval]. rewrite Qx, Qy. reflexivity.
    + (* multiplication by a literal, either side *)
      destruct m as [|m']; [lia|].
      destruct (as_const e2) as [k|] eqn:Ek.
      * destruct (compile_e false n e1) as [x|] eqn:E1; [|discriminate]. cbn in Hc. inversion Hc; subst.
        destruct e2; try discriminate. destruct v; try discriminate. cbn in Ek. inversion Ek; subst.
        assert (Hx : env_ok env x) by (intros nm Hn; apply Hok; exact Hn).
        destruct (IH e1 x E1 (S m') r env Hm Hx) as (qx & Ex & Qx).
        exists (Qred (qx * k)). split.
        -- rewrite Ex, eval_const. reflexivity.
        -- rewrite Qred_correct. cbn [aeval]. rewrite Qx. reflexivity.
      * destruct (as_const e1) as [k|] eqn:Ek1; [|discriminate].
        destruct (compile_e false n e2) as [x|] eqn:E2; [|discriminate]. cbn in Hc. inversion Hc; subst.
        destruct e1; try discriminate. destruct v; try discriminate. cbn in Ek1. inversion Ek1; subst.
        assert (Hx : env_ok env x) by (intros nm Hn; apply Hok; exact Hn).
        destruct (IH e2 x E2 (S m') r env Hm Hx) as (qx & Ex & Qx).
        exists (Qred (k * qx)). split.
        -- rewrite eval_const. cbn [bind]. rewrite Ex. reflexivity.
        -- rewrite Qred_correct. cbn [aeval]. rewrite Qx. ring.
  - (* conditional: outside the core fragment *)
    exfalso. clear - Hc.
    repeat match type of Hc with context[match ?x with _ => _ end] => destruct x; cbn in Hc; try discriminate end.
  - (* calls: max / min / float *)
    destruct f; try discriminate.
    + (* sum: outside the core fragment *)
      exfalso. clear - Hc.
      repeat match type of Hc with context[match ?x with _ => _ end] => destruct x; cbn in Hc; try discriminate end.
    + destruct args as [|e1 [|e2 [|]]]; try discriminate.
      destruct (compile_e false n e1) as [x|] eqn:E1; [|discriminate].
      destruct (compile_e false n e2) as [y|] eqn:E2; [|discriminate]. inversion Hc; subst.
      destruct (env_ok_l env x y AMin eq_refl Hok) as [Hx Hy].
      destruct (IH e1 x E1 m r env Hm Hx) as (qx & Ex & Qx). destruct (IH e2 y E2 m r env Hm Hy) as (qy & Ey & Qy).
      exists (if negb (Qle_bool qx qy) then qy else qx). split.
      * rewrite eval_call2, Ex. cbn [bind]. rewrite Ey. cbn [bind call_fn fold_left compare_pv as_num num_cmp truthy].
        destruct (negb (Qle_bool qx qy)); reflexivity.
      * rewrite pick_min. cbn [aeval]. rewrite Qx, Qy. reflexivity.
    + destruct args as [|e1 [|e2 [|]]]; try discriminate.
      destruct (compile_e false n e1) as [x|] eqn:E1; [|discriminate].
      destruct (compile_e false n e2) as [y|] eqn:E2; [|discriminate]. inversion Hc; subst.
      destruct (env_ok_l env x y AMax eq_refl Hok) as [Hx Hy].
      destruct (IH e1 x E1 m r env Hm Hx) as (qx & Ex & Qx). destruct (IH e2 y E2 m r env Hm Hy) as (qy & Ey & Qy).
      exists (if negb (Qle_bool qy qx) then qy else qx). split.
      * rewrite eval_call2, Ex. cbn [bind]. rewrite Ey. cbn [bind call_fn fold_left compare_pv as_num num_cmp truthy].
        destruct (negb (Qle_bool qy qx)); reflexivity.
      * rewrite pick_max. cbn [aeval]. rewrite Qx, Qy. reflexivity.
    + destruct args as [|e1 [|]]; try discriminate.
      destruct (IH e1 a Hc m r env Hm Hok) as (q & E & Qq). exists q. split; [|exact Qq].
      rewrite eval_call1, E. reflexivity.
Qed.

Lemma compile_false_ret e : compile false [SReturn e] = compile_e false 40 e.
Proof.
  unfold compile.
  destruct e; try reflexivity. destruct e1; try reflexivity. destruct op; try reflexivity.
  destruct (compile_e false 40 (EIf (ECmp CGt e1_1 e1_2) e2 e3)); reflexivity.
Qed.

(* the stored value of a line whose body is in the core fragment *)
Lemma qround_compat p q q' : q == q' -> qround p q = qround p q'.
Proof.
  intros E. unfold qround.
  assert (H : rhe (q * pow10 p) = rhe (q' * pow10 p)).
  { assert (E2 : q * pow10 p == q' * pow10 p) by (rewrite E; reflexivity).
    unfold rhe. rewrite (Qfloor_comp _ _ E2). set (f := Qfloor (q' * pow10 p)).
    assert (E3 : Qcompare (q * pow10 p - inject_Z f) (1 # 2) = Qcompare (q' * pow10 p - inject_Z f) (1 # 2)).
    { apply Qcompare_comp; [rewrite E2; reflexivity|reflexivity]. }
    rewrite E3. reflexivity. }
  rewrite H. reflexivity.
Qed.

Lemma compile_sound_ret (l:line) e a p env fuel :
  l_body l = [SReturn e] -> compile_e false 40 e = Some a -> l_type l = TFloat p -> (50 <= fuel)%nat -> env_ok env a ->
  line_value c fuel l = RVal (PNum (qround p (aeval env a))).
Proof.
  intros Eb Hc Ht Hf Hok.
  unfold line_value. rewrite Eb.
  destruct fuel as [|m]; [lia|]. rewrite exec_return.
  destruct (compile_e_sound 40 e a Hc m [] env ltac:(lia) Hok) as (q & Ee & Qq).
  rewrite Ee. cbn [bind snd]. rewrite Ht. unfold typed_value.
  replace (match PNum q with PNone => true | PStr s => is_blank s | _ => false end) with false by reflexivity.
  rewrite (qround_compat p q (aeval env a) Qq). reflexivity.
Qed.

Theorem compile_sound (l:line) a p env fuel :
  compile false (l_body l) = Some a -> l_type l = TFloat p -> (50 <= fuel)%nat -> env_ok env a ->
  line_value c fuel l = RVal (PNum (qround p (aeval env a))).
Proof.
  intros Hc Ht Hf Hok.
  destruct (l_body l) as [|s [|s2 rest]] eqn:Eb.
  - unfold compile in Hc. discriminate.
  - destruct s; try (unfold compile in Hc; discriminate).
    rewrite compile_false_ret in Hc.
    apply (compile_sound_ret l e a p env fuel Eb Hc Ht Hf Hok).
  - exfalso. unfold compile in Hc. destruct s; try discriminate. destruct e; try discriminate.
    destruct e1; try discriminate. destruct op; discriminate.
Qed.
End Sound.

(* a gate line never holds anything but its type's empty value *)
Theorem always_blank_sound (c:ctx) (l:line) fuel v :
  always_blank (l_body l) = true -> line_value c fuel l = RVal v ->
  v = match l_type l with TStr => PStr "" | TBool => PBool false | TInt => PInt 0 | TFloat _ => PNum 0 | TEnum _ => PNone end.
Proof.
  unfold always_blank, line_value. intros Hb.
  destruct (l_body l) as [|s [|]] eqn:Eb; try discriminate; [|destruct s; try discriminate; destruct e; try discriminate; destruct e2, e3; try discriminate; try (destruct v0; discriminate); destruct v0; discriminate].
  destruct s; try discriminate.
  destruct e; try discriminate.
  destruct fuel as [|m]; [cbn; discriminate|]. rewrite exec_return.
  destruct m as [|m']; [cbn; discriminate|].
  assert (Hif : eval c (S m') (EIf e1 e2 e3) [] = (x <- eval c m' e1 [] ;; if truthy x then eval c m' e2 [] else eval c m' e3 [])) by reflexivity.
  rewrite Hif. clear Hif.
  destruct (eval c m' e1 []) as [x| | | |]; cbn [bind]; try discriminate.
  destruct e2, e3; try discriminate; try (destruct v0; try discriminate); try (destruct v1; try discriminate).
  - destruct (truthy x); destruct m'; cbn; try discriminate.
    intros H. unfold typed_value in H. cbn in H. destruct (l_type l); inversion H; reflexivity.
  - destruct (truthy x); destruct m'; cbn; try discriminate.
    intros H. unfold typed_value in H. cbn in H. destruct (l_type l); inversion H; reflexivity.
Qed.
