(** Executable helpers for the tracker correspondence: Python's next(generator) = iterate the while-loop until a yield. *)
From Coq Require Import ZArith NArith List Bool.
From HV Require Import Solver.
Import ListNotations.

Fixpoint next_yield (fuel:nat) (t:tracker) : option name * tracker :=
  match fuel with
  | O => (None, t)
  | S n => match drain_step t with
           | None => (None, t)
           | Some (Some w, t') => (Some w, t')
           | Some (None, t') => next_yield n t'
           end
  end.

Inductive hop := HAdd (d w:name) | HMeet (d:name) | HNext.

(* observation after each operation: yielded waiter (0 = none), has_met, has_unmet, then the whole _unmet dict and _met list *)
Definition observe (y:option name) (t:tracker) : list Z :=
  (match y with Some w => Z.of_N w | None => 0 end
   :: (if has_met t then 1 else 0) :: (if has_unmet t then 1 else 0) :: enc_tracker t ++ enc_names (met t))%Z.

Fixpoint run_history (ops:list hop) (t:tracker) : list (list Z) :=
  match ops with
  | [] => []
  | HAdd d w :: r => let t' := add_unmet d w t in observe None t' :: run_history r t'
  | HMeet d :: r => let t' := meet d t in observe None t' :: run_history r t'
  | HNext :: r => let (y, t') := next_yield (drain_fuel t) t in observe y t' :: run_history r t'
  end.
