(** C06 - bounded work as a theorem: how often a line is attempted.

    Counting invariant over the whole control flow (any run, any fuel): for every line f

        #attempts of f  +  #tokens of f that can still trigger an attempt
           <=  1  +  #(f, d) registrations of f for a line d          (the ghost list [edges], duplicate-free by SolverWaits)
                  +  #answered prompts whose "needed by" list named f   (read off the trace)
                  +  #input names whose specification has been loaded   (each retry inside one attempt loads a new form's)

    so a line is evaluated at most once, plus once per thing it had to wait for. *)
From Coq Require Import ZArith NArith List Bool Lia Permutation.
From HV Require Import Solver TrackerProofs RunLemmas SolverInd SolverInv SolverThms SolverDem SolverPrompt SolverWaits.
Import ListNotations.

Arguments add_names : simpl never.
Arguments sort_rank : simpl never.
Arguments add_unmet : simpl never.
Arguments run : simpl never.
Arguments reads : simpl never.

Ltac proj_simpl := cbn [inp specs forms fmap vals unatt unimpl solving fdep idep refused trace edges met unmet].

Definition cnt (f:name) (l:list name) : nat := count_occ N.eq_dec l f.

Lemma cnt_app f l l' : cnt f (l ++ l') = cnt f l + cnt f l'.
Proof. apply count_occ_app. Qed.
Lemma cnt_cons_eq f l : cnt f (f :: l) = S (cnt f l).
Proof. unfold cnt. apply count_occ_cons_eq. reflexivity. Qed.
Lemma cnt_cons_neq f g l : g <> f -> cnt f (g :: l) = cnt f l.
Proof. intros. unfold cnt. apply count_occ_cons_neq. assumption. Qed.
Lemma cnt_perm f l l' : Permutation l l' -> cnt f l = cnt f l'.
Proof. intros P. unfold cnt. revert f. apply (Permutation_count_occ N.eq_dec). exact P. Qed.
Lemma cnt_notin f l : ~ In f l -> cnt f l = 0.
Proof. intros. unfold cnt. apply count_occ_not_In. assumption. Qed.
Lemma cnt_in f l : In f l -> cnt f l >= 1.
Proof. intros H. unfold cnt. apply (count_occ_In N.eq_dec) in H. lia. Qed.
Lemma cnt_nodup f l : NoDup l -> cnt f l <= 1.
Proof. intros H. unfold cnt. apply (proj1 (NoDup_count_occ N.eq_dec l) H). Qed.

Fixpoint attempts (tr:list event) : list name :=
  match tr with
  | [] => []
  | EvAttempt f :: r => f :: attempts r
  | _ :: r => attempts r
  end.

(* the lines named as "needed by" in the prompts that were answered *)
Fixpoint released (tr:list event) : list name :=
  match tr with
  | [] => []
  | EvPrompt _ nb true :: r => nb ++ released r
  | _ :: r => released r
  end.

(* waiters whose dependency has been met and who have not been released yet *)
Definition fst_met (m:list name) (dw:name * name) : bool := mem (fst dw) m.
Definition metw (t:tracker) : list name := map snd (filter (fst_met (met t)) (regs t)).

Lemma metw_nil t : met t = [] -> metw t = [].
Proof.
  intros E. unfold metw. rewrite E. induction (regs t) as [|x l IH]; [reflexivity|]. cbn. exact IH.
Qed.

Lemma perm_filter {A} (p:A -> bool) l l' : Permutation l l' -> Permutation (filter p l) (filter p l').
Proof.
  induction 1 as [|x l l' _ IH|x y l|l l' l'' _ IH1 _ IH2]; cbn.
  - constructor.
  - destruct (p x); [constructor|]; exact IH.
  - destruct (p x), (p y); try reflexivity. constructor.
  - etransitivity; eassumption.
Qed.

Lemma filter_all {A} (p:A -> bool) l : (forall x, In x l -> p x = true) -> filter p l = l.
Proof.
  induction l as [|x l IH]; intros H; [reflexivity|]. cbn. rewrite (H x (or_introl eq_refl)). f_equal. apply IH. intros; apply H; right; assumption.
Qed.
Lemma filter_none {A} (p:A -> bool) l : (forall x, In x l -> p x = false) -> filter p l = [].
Proof.
  induction l as [|x l IH]; intros H; [reflexivity|]. cbn. rewrite (H x (or_introl eq_refl)). apply IH. intros; apply H; right; assumption.
Qed.

(* draining hands out exactly the met waiters *)
Lemma metw_drain t ws t' : twf t -> drain t = (ws, t') -> Permutation (metw t) ws.
Proof.
  intros Hwf Hd. destruct (drain_complete _ _ _ Hwf Hd) as (_ & _ & ys & -> & Hp & Hy & Hleft).
  unfold metw. rewrite (perm_filter _ _ _ Hp), filter_app.
  rewrite (filter_all _ ys), (filter_none _ (regs t')), app_nil_r; [reflexivity| |].
  - intros [d f] Hin. unfold fst_met. cbn. apply mem_false. eapply Hleft; eassumption.
  - intros [d f] Hin. unfold fst_met. cbn. apply mem_in. eapply Hy; eassumption.
Qed.

(* meeting a dependency turns (at most) its own waiters into met waiters *)
Definition deps_all (i:name) (u:list (name * list name)) : list name :=
  flat_map (fun dl => if N.eqb (fst dl) i then snd dl else []) u.

Lemma mem_snoc d m i : mem d (m ++ [i]) = mem d m || N.eqb d i.
Proof.
  unfold mem. rewrite existsb_app. cbn. rewrite orb_false_r. reflexivity.
Qed.

Lemma filter_pair (p:name * name -> bool) (d:name) (l:list name) (b:bool) :
  (forall w, p (d, w) = b) -> map snd (filter p (map (pair d) l)) = if b then l else [].
Proof.
  intros H. induction l as [|w l IH]; cbn; [destruct b; reflexivity|].
  rewrite (H w). destruct b; cbn; [f_equal|]; exact IH.
Qed.

Lemma metw_meet_le f i t : cnt f (metw (meet i t)) <= cnt f (metw t) + cnt f (deps_all i (unmet t)).
Proof.
  unfold metw, meet, regs. proj_simpl. generalize (met t) as m. intros m.
  induction (unmet t) as [|[d l] u IH]; [cbn; lia|].
  unfold regs_of in *. cbn [flat_map fst snd deps_all]. rewrite !filter_app, !map_app, !cnt_app.
  rewrite (filter_pair (fst_met (m ++ [i])) d l (mem d m || N.eqb d i)) by (intros w; unfold fst_met; cbn; apply mem_snoc).
  rewrite (filter_pair (fst_met m) d l (mem d m)) by (intros w; reflexivity).
  fold (deps_all i u).
  destruct (mem d m); cbn [orb]; [lia|]. destruct (N.eqb d i); cbn; lia.
Qed.

Lemma deps_all_lookup i u : NoDup (map fst u) -> deps_all i u = match alookup i u with Some l => l | None => [] end.
Proof.
  induction u as [|[d l] u IH]; intros ND; [reflexivity|].
  cbn [map fst] in ND. inversion ND as [|? ? Hn ND']; subst.
  cbn [deps_all flat_map fst snd alookup]. fold (deps_all i u).
  destruct (N.eqb_spec i d) as [->|Hne].
  - rewrite N.eqb_refl. rewrite IH by assumption. rewrite (alookup_notin_none d u Hn). apply app_nil_r.
  - destruct (N.eqb_spec d i) as [->|_]; [contradiction|]. cbn. apply IH. assumption.
Qed.

(** * the counting invariant *)
Section K.
Context (C:catalogue) (rank:name -> N) (ans:name -> option V) (R:list name).

Definition lhs (f:name) (pend:list name) (s:state) : nat :=
  cnt f (attempts (trace s)) + cnt f pend + cnt f (unatt s) + cnt f (waiters (fdep s)) + cnt f (metw (idep s)).
Definition rhs (f:name) (s:state) : nat :=
  1 + cnt f (map fst (edges s)) + cnt f (released (trace s)) + length (specs s).

Record InvK (pend:list name) (s:state) : Prop := {
  k_le : forall f, lhs f pend s <= rhs f s;
  k_att : forall f, In f (attempts (trace s)) -> In f (solving s)
}.

Lemma K_perm pend pend' s : Permutation pend pend' -> InvK pend s -> InvK pend' s.
Proof.
  intros Hp []. constructor; [|assumption]. intros f. unfold lhs. rewrite <- (cnt_perm f _ _ Hp). apply k_le0.
Qed.

(* a line that is not being solved has no attempts and no tokens *)
Lemma lhs_fresh b pend0 pend s x : Inv C b pend0 s -> incl pend pend0 -> InvK pend s -> ~ In x (solving s) -> lhs x pend s = 0.
Proof.
  intros HI Hinc HK Hx. unfold lhs.
  rewrite (cnt_notin x (attempts (trace s))) by (intros H; apply Hx; apply (k_att _ _ HK); exact H).
  rewrite (cnt_notin x pend) by (intros H; apply Hx; apply (i_pend_sol _ _ _ _ HI); apply Hinc; exact H).
  rewrite (cnt_notin x (unatt s)) by (intros H; apply Hx; apply (i_unatt_sol _ _ _ _ HI); exact H).
  rewrite (cnt_notin x (waiters (fdep s))).
  2:{ intros H. unfold waiters in H. apply in_map_iff in H as ((d & w) & E & Hin). cbn in E; subst. apply Hx. apply (i_fw_sol _ _ _ _ HI d x Hin). }
  rewrite (cnt_notin x (metw (idep s))); [reflexivity|].
  intros H. unfold metw in H. apply in_map_iff in H as ((d & w) & E & Hin). cbn in E; subst.
  apply filter_In in Hin as [Hin _]. apply Hx. apply (i_iw_sol _ _ _ _ HI d x Hin).
Qed.

(* a step that only queues new lines that were not being solved (and may load specifications) *)
Lemma K_same b pend0 pend s s2 newq :
  Inv C b pend0 s -> incl pend pend0 ->
  edges s2 = edges s -> trace s2 = trace s -> fdep s2 = fdep s -> idep s2 = idep s ->
  length (specs s) <= length (specs s2) ->
  Permutation (unatt s2) (unatt s ++ newq) -> NoDup newq -> (forall x, In x newq -> ~ In x (solving s)) ->
  (forall x, In x (solving s) -> In x (solving s2)) ->
  InvK pend s -> InvK pend s2.
Proof.
  intros HI Hinc Ee Et Ef Ei Hsp Hu Hn Hd Hsol HK. constructor.
  - intros f. unfold lhs, rhs. rewrite Ee, Et, Ef, Ei, (cnt_perm f _ _ Hu), cnt_app.
    destruct (in_dec N.eq_dec f newq) as [Hin|Hni].
    + pose proof (lhs_fresh b pend0 pend s f HI Hinc HK (Hd f Hin)) as Z. unfold lhs in Z.
      pose proof (cnt_nodup f newq Hn). lia.
    + rewrite (cnt_notin f newq Hni). pose proof (k_le _ _ HK f) as X. unfold lhs, rhs in X. lia.
  - intros f Hf. rewrite Et in Hf. apply Hsol. apply (k_att _ _ HK). exact Hf.
Qed.

Lemma K_pop s q f : InvK [] s -> unatt s = q ++ [f] -> InvK [f] (with_unatt q s).
Proof.
  intros [] Hu. constructor; unfold with_unatt; proj_simpl; [|assumption].
  intros g. pose proof (k_le0 g) as X. unfold lhs, rhs in *. proj_simpl. rewrite Hu, cnt_app in X. cbn [cnt] in *.
  change (count_occ N.eq_dec [f] g) with (cnt g [f]) in *. change (count_occ N.eq_dec [] g) with 0 in *. lia.
Qed.

Lemma K_fdrain s ws t' : Inv C true [] s -> InvK [] s -> drain (fdep s) = (ws, t') -> InvK ws (set_fdep t' s).
Proof.
  intros HI [] Hd.
  destruct (drain_complete _ _ _ (i_fwf _ _ _ _ HI) Hd) as (Hm & Hwf & ys & -> & Hp & Hy & Hleft).
  constructor; unfold set_fdep; proj_simpl; [|assumption].
  intros g. pose proof (k_le0 g) as X. unfold lhs, rhs in *. proj_simpl.
  assert (Pw : Permutation (waiters (fdep s)) (map snd ys ++ waiters t')).
  { unfold waiters. rewrite Hp, map_app. reflexivity. }
  rewrite (cnt_perm g _ _ Pw), cnt_app in X. cbn [cnt count_occ] in X. cbn [cnt count_occ]. unfold cnt in *. lia.
Qed.

Lemma K_idrain b s ws t' : Inv C b [] s -> InvK [] s -> drain (idep s) = (ws, t') -> InvK ws (set_idep t' s).
Proof.
  intros HI [] Hd.
  pose proof (metw_drain _ _ _ (i_iwf _ _ _ _ HI) Hd) as Pm.
  destruct (drain_complete _ _ _ (i_iwf _ _ _ _ HI) Hd) as (Hm & _).
  constructor; unfold set_idep; proj_simpl; [|assumption].
  intros g. pose proof (k_le0 g) as X. unfold lhs, rhs in *. proj_simpl.
  rewrite (metw_nil t' Hm). rewrite (cnt_perm g _ _ Pm) in X. cbn [cnt count_occ] in *. unfold cnt in *. lia.
Qed.

Lemma K_prompt_all l : forall s, twf (idep s) -> InvK [] s -> InvK [] (prompt_all ans l s).
Proof.
  induction l as [|i l IH]; intros s Hwf HK; cbn [prompt_all]; [exact HK|].
  destruct (ans i) as [v|].
  - apply IH; proj_simpl; [exact Hwf|].
    destruct HK. constructor; proj_simpl; [|cbn [attempts]; assumption].
    intros g. pose proof (k_le0 g) as X. unfold lhs, rhs in *. proj_simpl. cbn [attempts released].
    rewrite cnt_app. pose proof (metw_meet_le g i (idep s)) as Y.
    unfold unmet_dependents. rewrite (deps_all_lookup i _ (proj1 Hwf)) in Y. lia.
  - destruct HK. constructor; proj_simpl; [|cbn [attempts]; assumption].
    intros g. pose proof (k_le0 g) as X. unfold lhs, rhs in *. proj_simpl. cbn [attempts released]. exact X.
Qed.

Lemma K_log_attempt f pend s : InvK (f :: pend) s -> In f (solving s) -> InvK pend (log (EvAttempt f) s).
Proof.
  intros [] Hs. constructor; unfold log; proj_simpl.
  - intros g. pose proof (k_le0 g) as X. unfold lhs, rhs in *. proj_simpl. cbn [attempts released].
    destruct (N.eq_dec f g) as [->|Hne].
    + rewrite !cnt_cons_eq in *. lia.
    + rewrite !(cnt_cons_neq g f) in * by assumption. exact X.
  - cbn [attempts]. intros g [<-|Hg]; [exact Hs|auto].
Qed.

(* the steps of one attempt, on the fields the invariant reads *)
Lemma K_steady pend s s' :
  InvK pend s -> trace s' = trace s -> edges s' = edges s -> unatt s' = unatt s ->
  waiters (fdep s') = waiters (fdep s) -> metw (idep s') = metw (idep s) -> specs s' = specs s ->
  (forall x, In x (solving s) -> In x (solving s')) -> InvK pend s'.
Proof.
  intros [] Et Ee Eu Ef Ei Es Hsol. constructor.
  - intros g. unfold lhs, rhs. rewrite Et, Ee, Eu, Ef, Ei, Es. apply k_le0.
  - intros g Hg. rewrite Et in Hg. auto.
Qed.

Lemma add_names_ext l : forall acc, exists extra, add_names l acc = acc ++ extra.
Proof.
  unfold add_names. induction l as [|x l IH]; intros acc; cbn [fold_left]; [exists []; rewrite app_nil_r; reflexivity|].
  destruct (mem x acc).
  - apply IH.
  - destruct (IH (acc ++ [x])) as (e & E). exists (x :: e). rewrite E, <- app_assoc. reflexivity.
Qed.

Lemma add_names_grows l acc i : In i (add_names l acc) -> ~ In i acc -> length acc < length (add_names l acc).
Proof.
  intros Hin Hni. destruct (add_names_ext l acc) as (e & E). rewrite E in *. rewrite app_length.
  apply in_app_or in Hin as [Hin|Hin]; [contradiction|]. destruct e; [contradiction|]. cbn. lia.
Qed.

Lemma run_needspec_notin p sp I S i : run p sp I S = ONeedSpec i -> ~ In i sp.
Proof.
  induction p as [v| |c|d0 k IH|j k IH]; intros H.
  - discriminate.
  - discriminate.
  - discriminate.
  - change (run (ReadV d0 k) sp I S) with (match alookup d0 S with Some v => run (k v) sp I S | None => ONeedV d0 end) in H.
    destruct (alookup d0 S) as [v|] eqn:E; [apply (IH v H)|discriminate].
  - change (run (ReadI j k) sp I S) with
      (if negb (mem j sp) then ONeedSpec j
       else match alookup j I with None => ONeedI j | Some None => OInvalid j | Some (Some v) => run (k v) sp I S end) in H.
    destruct (mem j sp) eqn:Em; cbn [negb] in H.
    + destruct (alookup j I) as [[v|]|]; try discriminate. apply (IH v H).
    + inversion H; subst. apply mem_false. exact Em.
Qed.

Definition PK (pend:list name) (s:state) : Prop := PW C R pend s /\ InvK pend s.
Definition QK (s:state) : Prop := QW C R s /\ InvK [] s.

Lemma K_reg_line f d pend s s' :
  InvK pend s -> trace s' = trace s -> edges s' = (f, d) :: edges s -> unatt s' = unatt s ->
  fdep s' = add_unmet d f (fdep s) -> idep s' = idep s -> specs s' = specs s -> solving s' = solving s -> InvK pend s'.
Proof.
  intros [] Et Ee Eu Ef Ei Es Eso. constructor.
  - intros g. pose proof (k_le0 g) as X. unfold lhs, rhs in *. rewrite Et, Ee, Eu, Ef, Ei, Es.
    rewrite (cnt_perm g _ _ (waiters_add_unmet d f (fdep s))). cbn [map fst].
    destruct (N.eq_dec f g) as [->|Hne].
    + rewrite !cnt_cons_eq. lia.
    + rewrite !(cnt_cons_neq g f) by assumption. exact X.
  - intros g Hg. rewrite Et in Hg. rewrite Eso. auto.
Qed.

Lemma K_attempt fuel : cat_wf C -> cat_nodup C -> forall f pend s s',
  Inv C true (f :: pend) s -> Inv2 C R [] s -> InvW C (f :: pend) s -> InvK (f :: pend) s ->
  attempt_field C rank fuel f s = inl s' -> InvK pend s'.
Proof.
  intros Hwf Hnd. induction fuel as [|n IH]; intros f pend s s' HI HJ HW HK H; [discriminate|].
  cbn [attempt_field] in H.
  assert (Hfs : In f (solving s)) by (apply (i_pend_sol _ _ _ _ HI); left; reflexivity).
  apply (K_log_attempt f pend s) in HK; [|exact Hfs].
  apply (Inv_log _ _ _ _ (EvAttempt f)) in HI. apply (Inv2_log _ _ _ _ (EvAttempt f)) in HJ. apply (W_log _ _ _ (EvAttempt f)) in HW.
  set (s0 := log (EvAttempt f) s) in *. clearbody s0.
  assert (Hinc : incl pend (f :: pend)) by (intros x Hx; right; exact Hx).
  destruct (run (c_body C f) (specs s0) (inp s0) (vals s0)) as [v|d|i|i|i| |c] eqn:Er; try discriminate.
  - (* a value *)
    inversion H; subst s'; clear H.
    apply (K_steady pend s0); proj_simpl; auto.
  - (* blocked on line d *)
    match type of H with match ?r with _ => _ end = _ => destruct r as [s3|e] eqn:Es3; [|discriminate] end.
    inversion H; subst s'; clear H.
    assert (Hs3 : InvK pend s3).
    { destruct (mem d (solving s0)) eqn:Em.
      { inversion Es3; subst s3. exact HK. }
      apply mem_false in Em.
      match type of Es3 with match ?r1 with _ => _ end = _ => destruct r1 as [s1|e] eqn:Es1; [|discriminate] end.
      destruct (mem d (fmap s1)) eqn:Emf; [|discriminate]. apply mem_in in Emf.
      destruct (mem d (fmap s0)) eqn:Em0.
      - inversion Es1; subst s1; clear Es1.
        destruct (mem d (solving s0)) eqn:Ems; [apply mem_in in Ems; contradiction|].
        inversion Es3; subst s3; clear Es3.
        apply (K_same true (f :: pend) pend s0 _ [d]); unfold add_unattempted; proj_simpl; try reflexivity; try assumption.
        + apply sort_rank_perm.
        + constructor; [intros []|constructor].
        + intros x [<-|[]]. exact Em.
        + intros x Hx. apply add_names_in. right. exact Hx.
      - apply mem_false in Em0.
        destruct (add_form_spec C rank ans _ _ _ _ Es1) as (fi & Hfi & Ei & Ev & Eu & Ef & Eid & _ & Et & Ee & Hsp & Hf & Hm & Hu & Hs).
        assert (HI1 : Inv C true (f :: pend) s1) by (eapply Inv_add_form; eassumption).
        assert (Hdl : In d (f_required fi ++ f_optional fi)).
        { apply Hm in Emf as [X|X]; [apply in_or_app; exact X|contradiction]. }
        assert (Hfresh : forall x, In x (f_required fi) -> ~ In x (solving s0)).
        { intros x Hx Ht.
          apply (new_form_lines_fresh C R true (f :: pend) s0 (c_form_of_line C d) fi d x Hwf HI HJ HW Hfi eq_refl Hdl Em0).
          - apply in_or_app. left. exact Hx.
          - apply (j_sol_fmap _ _ _ _ HJ). exact Ht. }
        assert (HK1 : InvK pend s1).
        { apply (K_same true (f :: pend) pend s0 s1 (f_required fi)); try assumption.
          - unfold add_form in Es1. rewrite Hfi in Es1. inversion Es1; subst s1. unfold add_unattempted. proj_simpl.
            destruct (add_names_ext (f_inputs fi) (specs s0)) as (ex & ->). rewrite app_length. lia.
          - rewrite (add_form_unatt C rank _ _ _ _ Es1 Hfi). apply sort_rank_perm.
          - pose proof (Hnd _ _ Hfi) as N. apply nodup_app_l in N. exact N.
          - intros x Hx. apply Hs. right. exact Hx. }
        destruct (mem d (solving s1)) eqn:Ems1.
        + inversion Es3; subst s3. exact HK1.
        + apply mem_false in Ems1. inversion Es3; subst s3; clear Es3.
          apply (K_same true (f :: pend) pend s1 _ [d]); unfold add_unattempted; proj_simpl; try reflexivity; try assumption.
          * apply sort_rank_perm.
          * constructor; [intros []|constructor].
          * intros x [<-|[]]. exact Ems1.
          * intros x Hx. apply add_names_in. right. exact Hx. }
    apply (K_reg_line f d pend s3); proj_simpl; try reflexivity. exact Hs3.
  - (* blocked on input i *)
    inversion H; subst s'; clear H.
    pose proof (i_strict _ _ _ _ HI eq_refl) as Hm.
    apply (K_steady pend s0); proj_simpl; auto.
    rewrite (metw_nil (idep s0) Hm). apply metw_nil. rewrite add_unmet_met. exact Hm.
  - (* load the specifications of the input's form, retry *)
    destruct (add_form C rank (c_form_of_input C i) true s0) as [s1|e] eqn:Es1; [|discriminate].
    destruct (mem i (specs s1)) eqn:Emi; [|discriminate]. apply mem_in in Emi.
    destruct (add_form_spec C rank ans _ _ _ _ Es1) as (fi & _ & Ei & Ev & Eu & Ef & Eid & _ & Et & Ee & Hsp & (Efo & Efm & Eun & Eso)).
    pose proof (run_needspec_notin _ _ _ _ _ Er) as Hni.
    assert (Hlen : length (specs s0) < length (specs s1)).
    { unfold add_form in Es1. destruct (c_form C (c_form_of_input C i)) as [fi0|]; [|discriminate]. inversion Es1; subst s1. proj_simpl.
      cbn [specs] in Emi. apply (add_names_grows _ _ i); assumption. }
    apply (IH f pend s1 s'); [eapply Inv_add_form; eassumption| | | |exact H].
    + apply (Inv2_ext_same C R [] s0); auto. eapply add_form_ext; eassumption.
    + apply (W_same C (f :: pend) s0 s1 []); try assumption.
      * rewrite Eun, app_nil_r. reflexivity.
      * constructor.
      * intros x [].
      * rewrite Efo, Efm. exact (w_cover _ _ _ HW).
    + destruct HK. constructor.
      * intros g. pose proof (k_le0 g) as X. unfold lhs, rhs in *. rewrite Et, Ee, Eun, Ef, Eid.
        destruct (N.eq_dec f g) as [->|Hne].
        -- rewrite cnt_cons_eq. lia.
        -- rewrite (cnt_cons_neq g f) by assumption. lia.
      * intros g Hg. rewrite Et in Hg. rewrite Eso. auto.
  - (* not implemented *)
    inversion H; subst s'; clear H.
    apply (K_steady pend s0); proj_simpl; auto.
Qed.

Theorem main_loop_K fuel s r : cat_wf C -> cat_nodup C ->
  PK [] s -> main_loop C rank fuel ans s = r ->
  match r with inl s' => PK [] s' | inr (_, sx) => PK [] sx \/ QK sx end.
Proof.
  intros Hwf Hnd. apply (main_loop_PP C rank ans PK QK); unfold PK, QK, PW, QW.
  - intros pend pend' s0 Hp ((A & B & D) & K). split; [split; [|split; [exact B|eapply W_perm; eassumption]]|eapply K_perm; eassumption].
    eapply Inv_perm; [|exact A]. intros x. split; intros Hx; [apply (Permutation_in _ Hp Hx)|apply (Permutation_in _ (Permutation_sym Hp) Hx)].
  - intros fu f pend s0 s1 ((A & B & D) & K) H.
    split; [split; [eapply Inv_attempt; eassumption|split; [eapply (Inv2_attempt C rank ans R []); eassumption|eapply W_attempt; eassumption]]|].
    eapply K_attempt; eassumption.
  - intros s0 q f ((A & B & D) & K) Hu. split; [split; [apply Inv_pop; assumption|split; [destruct B; constructor; assumption|apply W_pop; assumption]]|apply K_pop; assumption].
  - intros s0 ws t' ((A & B & D) & K) Hd. split; [split; [apply Inv_fdrain; assumption|split; [destruct B; constructor; assumption|apply (W_fdrain C); assumption]]|apply K_fdrain; assumption].
  - intros s0 ((A & B & D) & K) Hr.
    pose proof (i_iwf _ _ _ _ A) as Hiwf.
    split; [|apply K_prompt_all; assumption].
    split; [apply Inv_prompt; assumption|split; [|apply W_prompt_all; exact D]].
    pose proof Hiwf as [ND _]. pose proof (i_strict _ _ _ _ A eq_refl) as Hm.
    set (l := sort_rank rank (unmet_dependencies (idep s0))).
    destruct (prompt_all_same ans l s0) as (A1 & A2 & A3 & A4 & A5 & A6 & _).
    apply (Inv2_ext_same C R [] s0); auto.
    apply (prompt_all_ext C rank ans).
    + apply Inv_noprompt. exact A.
    + apply (Permutation_NoDup (Permutation_sym (sort_rank_perm rank _))). exact ND.
    + intros i Hi. apply sort_rank_in in Hi. split; [exact Hi|]. rewrite Hm. tauto.
  - intros s0 ((A & B & D) & K) Hr. split; [split; [apply Inv_noprompt; assumption|split; assumption]|exact K].
  - intros s0 ws t' ((A & B & D) & K) Hd. split; [split; [apply Inv_idrain; assumption|split; [destruct B; constructor; assumption|eapply W_idrain; eassumption]]|eapply K_idrain; eassumption].
Qed.

Lemma K_init I hp : InvK [] (init_state I hp).
Proof. constructor; [intros f; unfold lhs, rhs, metw, waiters, cnt, regs, regs_of, tr_empty; cbn; lia|cbn; intros; contradiction]. Qed.

Lemma K_add_form_new b F s s' : cat_wf C -> cat_nodup C ->
  Inv C b [] s -> Inv2 C R [] s -> InvK [] s -> ~ In F (forms s) -> add_form C rank F false s = inl s' -> InvK [] s'.
Proof.
  intros Hwf Hnd HI HJ HK HF E.
  destruct (add_form_spec C rank ans _ _ _ _ E) as (fi & Hfi & Ei & Ev & Eu & Ef & Eid & _ & Et & Ee & Hsp & Hf & Hm & Hu & Hs).
  apply (K_same b [] [] s s' (f_required fi)); try assumption.
  - intros x Hx; exact Hx.
  - unfold add_form in E. rewrite Hfi in E. inversion E; subst s'. unfold add_unattempted. proj_simpl.
    destruct (add_names_ext (f_inputs fi) (specs s)) as (ex & ->). rewrite app_length. lia.
  - rewrite (add_form_unatt C rank _ _ _ _ E Hfi). apply sort_rank_perm.
  - pose proof (Hnd _ _ Hfi) as N. apply nodup_app_l in N. exact N.
  - intros x Hx Ht. apply HF.
    assert (Hxm : In x (fmap s)) by (apply (j_sol_fmap _ _ _ _ HJ); exact Ht).
    pose proof (j_fmap_form _ _ _ _ HJ x Hxm) as Hform.
    rewrite (Hwf F fi x Hfi (in_or_app _ _ _ (or_introl Hx))) in Hform. exact Hform.
  - intros x Hx. apply Hs. right. exact Hx.
Qed.

Lemma K_add_forms l : cat_wf C -> cat_nodup C -> (forall F, In F l -> In F R) -> NoDup l -> forall s s',
  Inv C true [] s -> Inv2 C R [] s -> InvK [] s -> (forall F, In F l -> ~ In F (forms s)) ->
  add_forms C rank l s = inl s' -> InvK [] s'.
Proof.
  intros Hwf Hnd. induction l as [|F l IH]; intros Hl ND s s' HI HJ HK Hnew H; cbn [add_forms] in H.
  - inversion H; subst. exact HK.
  - destruct (add_form C rank F false s) as [s1|e] eqn:E; [|discriminate].
    inversion ND as [|? ? HnF ND']; subst.
    apply (IH (fun F0 H0 => Hl F0 (or_intror H0)) ND' s1 s'); try exact H.
    + eapply Inv_add_form; eassumption.
    + eapply (Inv2_add_form_req C rank ans R []); eauto. apply Hl. left. reflexivity.
    + eapply K_add_form_new; try eassumption. apply Hnew. left. reflexivity.
    + intros F0 HF0 Hin.
      destruct (add_form_spec C rank ans _ _ _ _ E) as (fi & _ & _ & _ & _ & _ & _ & _ & _ & _ & _ & Hf & _).
      apply Hf in Hin as [->|Hin]; [contradiction|]. exact (Hnew F0 (or_intror HF0) Hin).
Qed.

(** C06: in every run - finished, failed, aborted, or out of fuel - a line is attempted at most once, plus once for each line it
    was registered to wait for, plus once for each answered prompt that named it, plus the number of input specifications loaded *)
Theorem bounded_attempts fuel I hp r : cat_wf C -> cat_nodup C -> NoDup R ->
  solve C rank fuel R [] I hp ans = r ->
  let s := result_state r in
  forall f, cnt f (attempts (trace s)) <= 1 + cnt f (map fst (edges s)) + cnt f (released (trace s)) + length (specs s).
Proof.
  intros Hwf Hnd ND H. unfold solve in H.
  destruct (add_forms C rank R (init_state I hp)) as [s0|e] eqn:E0.
  2:{ subst r. cbn. intros f. lia. }
  cbn [add_fields] in H.
  assert (HW0 : InvW C [] s0).
  { apply (W_add_forms C rank ans R R Hwf Hnd (fun F HF => HF) ND (init_state I hp) s0); try assumption.
    - apply (Inv_init C rank ans).
    - apply Inv2_init.
    - apply W_init.
    - intros F _ []. }
  assert (HK0 : InvK [] s0).
  { apply (K_add_forms R Hwf Hnd (fun F HF => HF) ND (init_state I hp) s0); try assumption.
    - apply (Inv_init C rank ans).
    - apply Inv2_init.
    - apply K_init.
    - intros F _ []. }
  pose proof (start_Inv C rank ans R [] I hp s0 s0 E0 eq_refl) as HI.
  destruct (start_Inv2 C rank ans R [] I hp s0 s0 Hwf E0 eq_refl) as (HJ & _ & _).
  assert (HWs : InvW C [] (start_state [] s0)).
  { destruct HW0. constructor; unfold start_state; cbn; assumption. }
  assert (HKs : InvK [] (start_state [] s0)).
  { destruct HK0. constructor; unfold start_state; cbn; assumption. }
  match type of H with main_loop _ _ _ _ ?st = _ => change st with (start_state [] s0) in H end.
  pose proof (main_loop_K fuel (start_state [] s0) r Hwf Hnd (conj (conj HI (conj HJ HWs)) HKs) H) as X.
  assert (G : InvK [] (result_state r)).
  { destruct r as [s'|[e sx]]; cbn [result_state].
    - destruct X as (_ & K). exact K.
    - destruct X as [(_ & K)|(_ & K)]; exact K. }
  intros s f. pose proof (k_le _ _ G f) as Y. unfold lhs, rhs in Y. fold s in Y. lia.
Qed.
End K.

(** the registrations of one line, as the list of distinct lines it waited for *)
Definition waited_for (f:name) (s:state) : list name := map snd (filter (fun e => N.eqb (fst e) f) (edges s)).

Lemma cnt_map_fst f (l:list (name * name)) : cnt f (map fst l) = length (map snd (filter (fun e => N.eqb (fst e) f) l)).
Proof.
  induction l as [|[a b] l IH]; [reflexivity|]. cbn [map fst filter].
  destruct (N.eqb_spec a f) as [->|Hne].
  - rewrite cnt_cons_eq. cbn [map length]. rewrite IH. reflexivity.
  - rewrite cnt_cons_neq by assumption. exact IH.
Qed.

Lemma waited_nodup f (l:list (name * name)) : NoDup l -> NoDup (map snd (filter (fun e => N.eqb (fst e) f) l)).
Proof.
  induction l as [|[a b] l IH]; intros ND; [constructor|]. inversion ND as [|? ? Hn ND']; subst. cbn [filter fst].
  destruct (N.eqb_spec a f) as [->|Hne]; [|apply IH; assumption].
  cbn [map snd]. constructor; [|apply IH; assumption].
  intros Hin. apply in_map_iff in Hin as ((a' & b') & E & Hin). cbn in E; subst b'.
  apply filter_In in Hin as [Hin Ea]. cbn in Ea. apply N.eqb_eq in Ea. subst a'. exact (Hn Hin).
Qed.

Theorem bounded_attempts_distinct C rank ans R fuel I hp r : cat_wf C -> cat_nodup C -> NoDup R ->
  solve C rank fuel R [] I hp ans = r ->
  let s := result_state r in
  forall f, NoDup (waited_for f s) /\
            (cnt f (attempts (trace s)) <= 1 + length (waited_for f s) + cnt f (released (trace s)) + length (specs s))%nat.
Proof.
  intros Hwf Hnd ND H s f. split.
  - apply waited_nodup. exact (no_repeated_wait C rank ans R fuel I hp r Hwf Hnd ND H).
  - pose proof (bounded_attempts C rank ans R fuel I hp r Hwf Hnd ND H f) as X. cbn zeta in X.
    rewrite cnt_map_fst in X. exact X.
Qed.

